"""Reproductions of the defects found by hand/static triage during design.

NOT part of any registered check: the static analysis family never runs the
code to decide a property.  These exist only because the brief requires that a
violation reported by a checker on the unchanged tree is first classified as a
genuine defect ("you can show the failing input, schedule or history against
the real code") or a false alarm.  Each test asserts the behaviour the property
demands, so on the unrepaired tree the test FAILS (= defect is real) and after
the corresponding "fix:" commit it passes.

Run (from /repo, nothing is written into /repo or /verif):
  cd /repo && /venv/bin/python -m pytest -q -p no:cacheprovider \
      /verif/findings/repro/test_repro_findings.py
"""
import json
from unittest import mock

import microversion_parse
import os_resource_classes as orc
from oslo_utils.fixture import uuidsentinel as uuids
import webob

from placement import exception
from placement import handler
from placement import lib as placement_lib
from placement import microversion
from placement import util
from placement.objects import allocation as alloc_obj
from placement.objects import allocation_candidate as ac_obj
from placement.objects import consumer as consumer_obj
from placement.objects import resource_provider as rp_obj
from placement.schemas import resource_class as rc_schema
from placement.tests.functional.db import test_base as tb


class ReproBase(tb.PlacementDbBaseTestCase):

    def call(self, method, path, body=None, version='1.39'):
        """Call the real PlacementHandler (routing + wsgify + handler) with a
        prepared context and microversion, i.e. everything below the
        middleware stack (deploy() itself does not load under the installed
        oslo.policy, see BASELINE.json always_fail).
        """
        app = handler.PlacementHandler(config=self.conf_fixture.conf)
        req = webob.Request.blank(path, method=method)
        if body is not None:
            req.body = json.dumps(body).encode()
            req.content_type = 'application/json'
        self.context.roles = ['admin', 'service']
        self.context.project_id = 'p'
        self.context.user_id = 'u'
        req.environ['placement.context'] = self.context
        v = microversion_parse.parse_version_string(version)
        v.max_version = microversion_parse.parse_version_string(
            microversion.max_version_string())
        v.min_version = microversion_parse.parse_version_string(
            microversion.min_version_string())
        req.environ[microversion.MICROVERSION_ENVIRON] = v
        try:
            return req.get_response(app)
        except webob.exc.HTTPException as e:
            return e

    def consumer_exists(self, uuid):
        try:
            consumer_obj.Consumer.get_by_uuid(self.context, uuid)
            return True
        except exception.NotFound:
            return False

    def body(self, allocs):
        return {'allocations': allocs, 'consumer_generation': None,
                'project_id': 'p1', 'user_id': 'u1',
                'consumer_type': 'INSTANCE'}


class F1IsolateOverlapAmounts(ReproBase):
    """C02: group_policy=isolate, unsuffixed and suffixed group asking for the
    same class: consolidated amounts are corrupted (shared
    AllocationRequestResource mutated in place).
    """

    def test_amounts_sum_to_request(self):
        cn1 = self._create_provider('cn1')
        tb.add_inventory(cn1, orc.VCPU, 8)
        c2 = self._create_provider('c2', parent=cn1.uuid)
        tb.add_inventory(c2, orc.VCPU, 8)
        groups = {
            '': placement_lib.RequestGroup(
                use_same_provider=False, resources={orc.VCPU: 1}),
            '1': placement_lib.RequestGroup(
                use_same_provider=True, resources={orc.VCPU: 1}),
        }
        rq = placement_lib.RequestWideParams(group_policy='isolate')
        cands = ac_obj.AllocationCandidates.get_by_requests(
            self.ctx, groups, rq)
        for ar in cands.allocation_requests:
            total = sum(rr.amount for rr in ar.resource_requests)
            self.assertEqual(2, total, str(ar))


class F2PutTraitsConflict(ReproBase):
    """C05: PUT traits whose generation goes stale between the handler's read
    and the write transaction must be a 409, not an escaped exception (500).
    Schedule at transaction granularity: [B read rp] [A add inventory] [B
    write traits].
    """

    def test_conflict_is_409(self):
        cn1 = self._create_provider('cn1')
        tb.set_traits(cn1, 'CUSTOM_A')
        real = rp_obj.ResourceProvider.set_traits
        outer = self

        def racing(self_, traits):
            other = rp_obj.ResourceProvider.get_by_uuid(
                outer.context, cn1.uuid)
            tb.add_inventory(other, orc.VCPU, 8)
            return real(self_, traits)

        cur = rp_obj.ResourceProvider.get_by_uuid(self.context, cn1.uuid)
        with mock.patch.object(rp_obj.ResourceProvider, 'set_traits', racing):
            resp = self.call(
                'PUT', '/resource_providers/%s/traits' % cn1.uuid,
                {'traits': [], 'resource_provider_generation': cur.generation})
        self.assertEqual(409, resp.status_int)


class F3ConsumerCreateRace(ReproBase):
    """C06: two writers both carry consumer_generation null; A completes
    between B's consumer lookup and B's consumer create.  B must get 409.
    """

    def test_loser_gets_409(self):
        cn1 = self._create_provider('cn1')
        tb.add_inventory(cn1, orc.VCPU, 8)
        c = uuids.racer
        body_a = self.body({cn1.uuid: {'resources': {'VCPU': 1}}})
        body_b = self.body({cn1.uuid: {'resources': {'VCPU': 5}}})
        real_create = consumer_obj.Consumer.create
        state = {'done': False}
        outer = self

        def racing_create(self_):
            if not state['done']:
                state['done'] = True
                ra = outer.call('PUT', '/allocations/%s' % c, body_a)
                outer.assertEqual(204, ra.status_int)
            return real_create(self_)

        with mock.patch.object(consumer_obj.Consumer, 'create',
                               racing_create):
            rb = self.call('PUT', '/allocations/%s' % c, body_b)
        self.assertEqual(409, rb.status_int)
        allocs = alloc_obj.get_all_by_consumer_id(self.context, c)
        self.assertEqual([1], [a.used for a in allocs])


class F4EmptyAllocationsNewConsumer(ReproBase):
    """C12: an empty allocations entry for a consumer that does not exist must
    not leave a consumer record behind.
    """

    def test_put(self):
        c = uuids.newconsumer
        r = self.call('PUT', '/allocations/%s' % c, self.body({}))
        self.assertEqual(204, r.status_int)
        self.assertFalse(self.consumer_exists(c))

    def test_post(self):
        c = uuids.newconsumer2
        r = self.call('POST', '/allocations', {c: self.body({})})
        self.assertEqual(204, r.status_int)
        self.assertFalse(self.consumer_exists(c))


class F6RejectedWriteLeavesConsumer(ReproBase):
    """C04/C12/C15: a write rejected with 400 (unknown provider) must leave no
    consumer behind, so a later write with consumer_generation null works.
    """

    def _check(self, method):
        cn1 = self._create_provider('cn1')
        tb.add_inventory(cn1, orc.VCPU, 8)
        c = getattr(uuids, 'c_' + method)
        bad = self.body({uuids.nonexistent_rp: {'resources': {'VCPU': 1}}})
        good = self.body({cn1.uuid: {'resources': {'VCPU': 1}}})
        if method == 'PUT':
            r = self.call('PUT', '/allocations/%s' % c, bad)
        else:
            r = self.call('POST', '/allocations', {c: bad})
        self.assertEqual(400, r.status_int)
        self.assertFalse(self.consumer_exists(c))
        if method == 'PUT':
            r = self.call('PUT', '/allocations/%s' % c, good)
        else:
            r = self.call('POST', '/allocations', {c: good})
        self.assertEqual(204, r.status_int)

    def test_put(self):
        self._check('PUT')

    def test_post(self):
        self._check('POST')


class F5TrailingNewlineName(ReproBase):
    """C19: '$' in the CUSTOM_ patterns also matches before a trailing
    newline, so a name that is not CUSTOM_[A-Z0-9_]+ is accepted.
    """

    def test_resource_class_name_with_newline_rejected(self):
        self.assertRaises(
            webob.exc.HTTPBadRequest, util.extract_json,
            '{"name": "CUSTOM_A\\n"}', rc_schema.POST_RC_SCHEMA_V1_2)


class F7UndecodableQueryString(ReproBase):
    """C15: GET /usages reads req.GET (webob decodes lazily and raises
    UnicodeDecodeError) before validate_query_params, which is the only place
    that converts that error into a 400.
    """

    def test_usages_bad_percent_encoding_is_400(self):
        try:
            r = self.call('GET', '/usages?project_id=%FF')
        except UnicodeDecodeError as exc:
            self.fail('escaped exception (500 via FaultWrapper): %r' % exc)
        self.assertEqual(400, r.status_int)

    def test_sibling_list_traits_is_400(self):
        # control: a handler that validates first behaves correctly today
        r = self.call('GET', '/traits?name=%FF')
        self.assertEqual(400, r.status_int)


class F8RepeatedLimit(ReproBase):
    """C15: the query schema validates dict(req.GET), i.e. the LAST value of a
    repeated parameter, but RequestWideParams.from_request converts the FIRST
    value of `limit` with int() outside any try.
    """

    def test_repeated_limit_is_400_or_ok_but_not_500(self):
        cn1 = self._create_provider('cn1')
        tb.add_inventory(cn1, orc.VCPU, 8)
        try:
            r = self.call(
                'GET', '/allocation_candidates?resources=VCPU:1'
                       '&limit=abc&limit=5')
        except ValueError as exc:
            self.fail('escaped exception (500 via FaultWrapper): %r' % exc)
        self.assertIn(r.status_int, (200, 400))


class F9HugeResourceAmount(ReproBase):
    """C15: the resources query parser checks amount >= 1 but has no upper
    bound; the value is bound into SQL, and a value above the signed 64-bit
    range makes the DB driver raise (OverflowError on sqlite).
    """

    def _get(self, path):
        try:
            return self.call('GET', path)
        except Exception as exc:  # anything escaping is a 500
            self.fail('escaped exception (500 via FaultWrapper): %r' % exc)

    def test_resource_providers(self):
        cn1 = self._create_provider('cn1')
        tb.add_inventory(cn1, orc.VCPU, 8)
        r = self._get('/resource_providers?resources=VCPU:%d' % 2 ** 63)
        self.assertIn(r.status_int, (200, 400))

    def test_allocation_candidates(self):
        cn1 = self._create_provider('cn1')
        tb.add_inventory(cn1, orc.VCPU, 8)
        r = self._get('/allocation_candidates?resources=VCPU:%d' % 2 ** 63)
        self.assertIn(r.status_int, (200, 400))


class F10NonFiniteAllocationRatio(ReproBase):
    """C15: allocation_ratio has a schema maximum but no minimum and the JSON
    parser accepts NaN / -Infinity; Inventory.capacity then does int() on a
    non-finite float outside any try.
    """

    def _put(self, literal):
        cn1 = self._create_provider('cn1')
        app = handler.PlacementHandler(config=self.conf_fixture.conf)
        raw = ('{"resource_provider_generation": 0, "inventories": '
               '{"VCPU": {"total": 4, "allocation_ratio": %s}}}' % literal)
        req = webob.Request.blank(
            '/resource_providers/%s/inventories' % cn1.uuid, method='PUT')
        req.body = raw.encode()
        req.content_type = 'application/json'
        self.context.roles = ['admin']
        self.context.project_id = 'p'
        self.context.user_id = 'u'
        req.environ['placement.context'] = self.context
        v = microversion_parse.parse_version_string('1.39')
        v.max_version = microversion_parse.parse_version_string('1.39')
        v.min_version = microversion_parse.parse_version_string('1.0')
        req.environ[microversion.MICROVERSION_ENVIRON] = v
        try:
            return req.get_response(app)
        except webob.exc.HTTPException as e:
            return e
        except Exception as exc:
            self.fail('escaped exception (500 via FaultWrapper): %r' % exc)

    def test_nan(self):
        self.assertEqual(400, self._put('NaN').status_int)

    def test_minus_infinity(self):
        self.assertEqual(400, self._put('-Infinity').status_int)


class F11EmptyWriteUsesRereadGeneration(ReproBase):
    """C06: in the empty-allocations branch the Allocation objects handed to
    the write carry the Consumer re-read by get_all_by_consumer_id(), not the
    Consumer whose generation ensure_consumer() compared with the request.
    Schedule: [B compares generation g] [A writes, generation g+1]
    [B re-reads consumer at g+1, clears allocations, CAS on g+1 succeeds].
    B carried generation g and must get 409.
    """

    def test_stale_clear_gets_409(self):
        cn1 = self._create_provider('cn1')
        tb.add_inventory(cn1, orc.VCPU, 8)
        c = uuids.clearer
        r = self.call('PUT', '/allocations/%s' % c,
                      self.body({cn1.uuid: {'resources': {'VCPU': 1}}}))
        self.assertEqual(204, r.status_int)
        gen = consumer_obj.Consumer.get_by_uuid(self.context, c).generation
        body_a = self.body({cn1.uuid: {'resources': {'VCPU': 3}}})
        body_a['consumer_generation'] = gen
        body_b = self.body({})
        body_b['consumer_generation'] = gen
        real = alloc_obj.get_all_by_consumer_id
        state = {'done': False}
        outer = self

        def racing(context, consumer_id):
            if not state['done']:
                state['done'] = True
                ra = outer.call('PUT', '/allocations/%s' % c, body_a)
                outer.assertEqual(204, ra.status_int)
            return real(context, consumer_id)

        with mock.patch.object(alloc_obj, 'get_all_by_consumer_id', racing):
            rb = self.call('PUT', '/allocations/%s' % c, body_b)
        self.assertEqual(409, rb.status_int)
        allocs = real(self.context, c)
        self.assertEqual([3], [a.used for a in allocs])


class F14ResourcelessGroupInTree(ReproBase):
    """C03: in_tree<S> of a request group without resources (1.36+, with
    same_subtree) was ignored by the single-provider path: candidates whose
    provider for that group lies outside the named tree were returned."""

    def test_in_tree_restricts_resourceless_group(self):
        cn1 = self._create_provider('cn1')
        tb.add_inventory(cn1, 'VCPU', 8)
        c1 = self._create_provider('c1', parent=cn1.uuid)
        tb.set_traits(c1, 'CUSTOM_FOO')
        cn2 = self._create_provider('cn2')
        tb.add_inventory(cn2, 'VCPU', 8)
        c2 = self._create_provider('c2', parent=cn2.uuid)
        tb.set_traits(c2, 'CUSTOM_FOO')
        r = self.call('GET', '/allocation_candidates?resources_A=VCPU:1'
                      '&required_B=CUSTOM_FOO&in_tree_B=%s'
                      '&same_subtree=_A,_B&group_policy=none' % cn2.uuid)
        self.assertEqual(200, r.status_int, r.text)
        got = sorted(tuple(sorted(ar['mappings']['_B']))
                     for ar in json.loads(r.text)['allocation_requests'])
        self.assertEqual([(c2.uuid,)], got)


class F15RepeatedLimitZeroFirst(ReproBase):
    """C15: ?limit=0&limit=5 - the schema sees the last value; the first is
    converted and refused, but the except clause of that refusal formatted
    ``limit[0]`` after ``limit`` had been rebound to the int: TypeError, 500
    (a regression of the F8 repair, found by R15.13)."""

    def test_zero_first_limit_is_400(self):
        cn1 = self._create_provider('cn1')
        tb.add_inventory(cn1, orc.VCPU, 8)
        try:
            r = self.call(
                'GET', '/allocation_candidates?resources=VCPU:1'
                       '&limit=0&limit=5')
        except TypeError as exc:
            self.fail('escaped exception (500 via FaultWrapper): %r' % exc)
        self.assertEqual(400, r.status_int)


class F16LoneSurrogateInFreeText(ReproBase):
    """C15: a JSON string holding a lone UTF-16 surrogate is valid JSON and
    valid for every schema string without a pattern (provider name, project
    and user id), but cannot be encoded for the database: oslo.db raises
    DBInvalidUnicodeParameter, which no handler converts -> 500 (R15.14)."""

    def test_provider_name(self):
        try:
            r = self.call('POST', '/resource_providers', {'name': '\ud800'})
        except Exception as exc:
            self.fail('escaped exception (500 via FaultWrapper): %r' % exc)
        self.assertIn(r.status_int, (200, 201, 400))

    def test_project_id(self):
        cn1 = self._create_provider('cn1')
        tb.add_inventory(cn1, orc.VCPU, 8)
        body = {'allocations': {cn1.uuid: {'resources': {'VCPU': 1}}},
                'project_id': '\ud800', 'user_id': 'u',
                'consumer_generation': None}
        try:
            r = self.call(
                'PUT', '/allocations/7b2a4bc1-0000-4000-8000-000000000001',
                body)
        except Exception as exc:
            self.fail('escaped exception (500 via FaultWrapper): %r' % exc)
        self.assertIn(r.status_int, (204, 400))

    def test_user_id(self):
        cn1 = self._create_provider('cn1')
        tb.add_inventory(cn1, orc.VCPU, 8)
        body = {'allocations': {cn1.uuid: {'resources': {'VCPU': 1}}},
                'project_id': 'p', 'user_id': '\ud800',
                'consumer_generation': None}
        try:
            r = self.call(
                'PUT', '/allocations/7b2a4bc1-0000-4000-8000-000000000002',
                body)
        except Exception as exc:
            self.fail('escaped exception (500 via FaultWrapper): %r' % exc)
        self.assertIn(r.status_int, (204, 400))

    def test_provider_trait_name(self):
        cn1 = self._create_provider('cn1')
        try:
            r = self.call('PUT', '/resource_providers/%s/traits' % cn1.uuid,
                          {'resource_provider_generation': cn1.generation,
                           'traits': ['\ud800']})
        except Exception as exc:
            self.fail('escaped exception (500 via FaultWrapper): %r' % exc)
        self.assertIn(r.status_int, (200, 400))


class F17EmptyInventoriesNoLastModified(ReproBase):
    """C14: from 1.15 on every GET (and every PUT/POST answered with a body)
    carries last-modified and cache-control.  The inventories of a provider
    that has none were serialised with ``last_modified = None`` (no "or now"
    fallback, unlike every sibling serialiser): webob drops the header
    (R14.12)."""

    def _headers(self, method, body=None):
        cn1 = self._create_provider('cn1')
        r = self.call(method, '/resource_providers/%s/inventories' % cn1.uuid,
                      body, version='1.15')
        self.assertEqual(200, r.status_int)
        return r.headers

    def test_get_empty_inventories(self):
        h = self._headers('GET')
        self.assertIn('cache-control', h)
        self.assertIn('last-modified', h)

    def test_put_empty_inventories(self):
        h = self._headers('PUT', {'resource_provider_generation': 0,
                                  'inventories': {}})
        self.assertIn('cache-control', h)
        self.assertIn('last-modified', h)
