#!/venv/bin/python
"""Recompute the SQL shapes of psa/tables/sql_shapes.json from /repo and
show (or with --write, store) what changed.  The table is a reviewed
reference: look at every difference before writing."""
import json
import os
import sys
sys.path.insert(0, os.path.join(os.path.dirname(os.path.abspath(__file__)), '..'))
from psa import run, sqlshape

ctx = run.Ctx('/repo')
with open(sqlshape.TABLE) as fh:
    tab = json.load(fh)
changed = 0
for q, ent in sorted(tab['functions'].items()):
    got = sqlshape.fingerprint(ctx, q)
    a, b = set(sqlshape.canon_params(ent['atoms'])), set(
        sqlshape.canon_params(got))
    if a != b:
        changed += 1
        print(q)
        print('   added  ', sorted(b - a))
        print('   removed', sorted(a - b))
        ent['atoms'] = got
if '--write' in sys.argv and changed:
    with open(sqlshape.TABLE, 'w') as fh:
        json.dump(tab, fh, indent=1, sort_keys=True)
    print('written')
