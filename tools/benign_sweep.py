#!/venv/bin/python
"""Robustness sweep: behaviour-preserving rewrites must not raise alarms.

For every service module an in-memory variant is produced in which every
local variable of every function is renamed to an opaque name (v<N>_rn,
consistently, closures included) and the source is re-emitted by ast.unparse (layout and comments
change).  All rule modules are run on the variant; any obligation that fails
on the variant but not on the real tree is a false alarm of the checker.

Usage: tools/benign_sweep.py [--jobs N] [--params] [module-substring ...]

--invert-if instead swaps the branches of every if/else (negating the test).
--params also renames function parameters that are never passed by keyword
anywhere in the repository (self / cls excepted).
"""
import ast
import multiprocessing
import os
import sys
import time

sys.path.insert(0, os.path.dirname(os.path.dirname(os.path.abspath(__file__))))

from psa import model, run as psarun   # noqa: E402

SUFFIX = '_rn'
RENAME_PARAMS = False
INVERT_IF = False
KW_NAMES = set()      # names used as keyword at any call site of the repo


def _bound_in(fn):
    """Names bound in a function's own scope (params, stores)."""
    names = set()
    a = fn.args
    for x in a.posonlyargs + a.args + a.kwonlyargs:
        names.add(x.arg)
    if a.vararg:
        names.add(a.vararg.arg)
    if a.kwarg:
        names.add(a.kwarg.arg)
    stack = list(fn.body)
    while stack:
        n = stack.pop()
        if isinstance(n, (ast.FunctionDef, ast.AsyncFunctionDef,
                          ast.ClassDef)):
            names.add(n.name)
            continue
        if isinstance(n, ast.Lambda):
            continue
        if isinstance(n, ast.Name) and isinstance(n.ctx, (ast.Store,
                                                          ast.Del)):
            names.add(n.id)
        if isinstance(n, ast.ExceptHandler) and n.name:
            names.add(n.name)
        if isinstance(n, (ast.Import, ast.ImportFrom)):
            for al in n.names:
                names.add((al.asname or al.name).split('.')[0])
        stack.extend(ast.iter_child_nodes(n))
    return names


def _params(fn):
    a = fn.args
    out = {x.arg for x in a.posonlyargs + a.args + a.kwonlyargs}
    if a.vararg:
        out.add(a.vararg.arg)
    if a.kwarg:
        out.add(a.kwarg.arg)
    return out


def _declared_global(fn):
    out = set()
    for n in ast.walk(fn):
        if isinstance(n, (ast.Global, ast.Nonlocal)):
            out.update(n.names)
    return out


def rename_locals(tree):
    count = 0

    def process(fn, inherited):
        """inherited: {old: new} renames of enclosing scopes still visible."""
        nonlocal count
        params = _params(fn)
        bound = _bound_in(fn)
        glob = _declared_global(fn)
        nested_names = {n.name for n in ast.walk(fn)
                        if isinstance(n, (ast.FunctionDef,
                                          ast.AsyncFunctionDef,
                                          ast.ClassDef)) and n is not fn}
        imported = set()
        for n in ast.walk(fn):
            if isinstance(n, (ast.Import, ast.ImportFrom)):
                for al in n.names:
                    imported.add((al.asname or al.name).split('.')[0])
        mine = {}
        for nm in sorted(bound):
            if nm in params and not (
                    RENAME_PARAMS and nm not in ('self', 'cls') and
                    nm not in KW_NAMES):
                continue
            if nm in glob or nm in nested_names or \
                    nm in imported or nm.startswith('__'):
                continue
            count += 1
            mine[nm] = 'v%d%s' % (count, SUFFIX)
        # visible renames: inherited ones not shadowed here + mine
        visible = {k: v for k, v in inherited.items() if k not in bound}
        visible.update(mine)
        a_ = fn.args
        for x in a_.posonlyargs + a_.args + a_.kwonlyargs + [
                y for y in (a_.vararg, a_.kwarg) if y is not None]:
            if x.arg in mine:
                x.arg = mine[x.arg]

        def walk(n):
            for c in ast.iter_child_nodes(n):
                if isinstance(c, (ast.FunctionDef, ast.AsyncFunctionDef)):
                    # decorators/defaults evaluate in this scope
                    for d in c.decorator_list:
                        fix(d)
                        walk(d)
                    for d in c.args.defaults + [
                            x for x in c.args.kw_defaults if x is not None]:
                        fix(d)
                        walk(d)
                    process(c, visible)
                    continue
                if isinstance(c, ast.ClassDef):
                    continue
                if isinstance(c, ast.Lambda):
                    lp = {x.arg for x in c.args.args}
                    saved = {k: visible[k] for k in lp if k in visible}
                    for k in saved:
                        del visible[k]
                    fix(c.body)
                    walk(c.body)
                    visible.update(saved)
                    continue
                fix(c)
                walk(c)

        def fix(c):
            if isinstance(c, ast.Name) and c.id in visible:
                c.id = visible[c.id]
            if isinstance(c, ast.ExceptHandler) and c.name in visible:
                c.name = visible[c.name]
            if isinstance(c, (ast.Global, ast.Nonlocal)):
                c.names = [visible.get(x, x) for x in c.names]
        for st in fn.body:
            fix(st)
            walk(st)

    for node in ast.walk(tree):
        pass
    # top-level and class-level functions
    def top(body):
        for st in body:
            if isinstance(st, (ast.FunctionDef, ast.AsyncFunctionDef)):
                process(st, {})
            elif isinstance(st, ast.ClassDef):
                top(st.body)
            elif isinstance(st, (ast.If, ast.Try)):
                for fld in ('body', 'orelse', 'finalbody'):
                    top(getattr(st, fld, []) or [])
    top(tree.body)
    return count


def invert_ifs(tree):
    """if c: A else: B  ->  if not c: B else: A   (for every if that has
    an else branch which is not an elif chain)."""
    n = 0
    for node in ast.walk(tree):
        if isinstance(node, ast.If) and node.orelse and not (
                len(node.orelse) == 1 and isinstance(node.orelse[0], ast.If)):
            t = node.test
            if isinstance(t, ast.UnaryOp) and isinstance(t.op, ast.Not):
                node.test = t.operand
            else:
                node.test = ast.UnaryOp(op=ast.Not(), operand=t)
            node.body, node.orelse = node.orelse, node.body
            n += 1
    ast.fix_missing_locations(tree)
    return n


def variant(relpath, repo='/repo'):
    with open(os.path.join(repo, relpath), encoding='utf-8') as fh:
        src_ = fh.read()
    tree = ast.parse(src_)
    if INVERT_IF:
        n = invert_ifs(tree)
        out = ast.unparse(tree) + '\n'
        compile(out, relpath, 'exec')
        return out, n
    n = rename_locals(tree)
    out = ast.unparse(tree) + '\n'
    compile(out, relpath, 'exec')
    return out, n


def failed_keys(ctx):
    out = {}
    errs = {}
    for prop in psarun.PROPS:
        try:
            rec, _ = psarun.run_rules(prop, ctx)
            out[prop] = {(o.rule, o.construct) for o in rec.failed}
        except model.AnalysisError as e:
            out[prop] = set()
            errs[prop] = str(e)
        except Exception as e:       # crash in a rule = checker bug
            out[prop] = set()
            errs[prop] = 'CRASH %r' % (e,)
    return out, errs


def work(args):
    global RENAME_PARAMS, INVERT_IF
    relpath, base, RENAME_PARAMS, kws, INVERT_IF = args
    KW_NAMES.update(kws)
    t0 = time.time()
    try:
        src_, n = variant(relpath)
    except Exception as e:
        return relpath, 0, {}, {'variant': repr(e)}, 0.0
    ctx = psarun.Ctx('/repo', {relpath: src_})
    got, errs = failed_keys(ctx)
    new = {}
    for p, ks in got.items():
        d = ks - set(map(tuple, base.get(p, [])))
        if d:
            new[p] = sorted(d)
    return relpath, n, new, errs, time.time() - t0


def main(argv):
    jobs = 16
    pats = []
    params = False
    invert = False
    it = iter(argv)
    for a in it:
        if a == '--jobs':
            jobs = int(next(it))
        elif a == '--params':
            params = True
        elif a == '--invert-if':
            invert = True
        else:
            pats.append(a)
    base_ctx = psarun.Ctx('/repo')
    base, base_errs = failed_keys(base_ctx)
    if base_errs:
        print('baseline analysis errors:', base_errs)
    mods = sorted(m.relpath for m in base_ctx.prog.modules.values())
    if pats:
        mods = [m for m in mods if any(p in m for p in pats)]
    base_l = {p: sorted(ks) for p, ks in base.items()}
    kws = set()
    for m in base_ctx.prog.modules.values():
        for n in ast.walk(m.tree):
            if isinstance(n, ast.keyword) and n.arg:
                kws.add(n.arg)
    tasks = [(m, base_l, params, sorted(kws), invert) for m in mods]
    bad = 0
    with multiprocessing.Pool(min(jobs, len(tasks))) as pool:
        for relpath, n, new, errs, dt in pool.imap_unordered(work, tasks):
            status = 'ok'
            if new or errs:
                status = 'FALSE-ALARM'
                bad += 1
            print('%-55s renamed=%-4d %5.1fs %s' % (relpath, n, dt, status))
            for p, ks in sorted(new.items()):
                for k in ks:
                    print('      %s %s %s' % (p, k[0], k[1]))
            for p, e in sorted(errs.items()):
                print('      %s ANALYSIS-ERROR %s' % (p, e[:200]))
    print('modules with false alarms: %d of %d' % (bad, len(tasks)))
    return 1 if bad else 0


if __name__ == '__main__':
    sys.exit(main(sys.argv[1:]))
