#!/venv/bin/python
"""Robustness sweep: behaviour-preserving rewrites must not raise alarms.

For every service module an in-memory variant is produced in which every
local variable of every function is renamed to an opaque name (v<N>_rn,
consistently, closures included) and the source is re-emitted by ast.unparse (layout and comments
change).  All rule modules are run on the variant; any obligation that fails
on the variant but not on the real tree is a false alarm of the checker.

Usage: tools/benign_sweep.py [--jobs N] [--params] [module-substring ...]

--invert-if instead swaps the branches of every if/else (negating the test).
--params also renames function parameters that are never passed by keyword
anywhere in the repository (self / cls excepted).
"""
import ast
import multiprocessing
import os
import sys
import time

sys.path.insert(0, os.path.dirname(os.path.dirname(os.path.abspath(__file__))))

from psa import model, run as psarun   # noqa: E402

SUFFIX = '_rn'
RENAME_PARAMS = False
INVERT_IF = False
KW_NAMES = set()      # names used as keyword at any call site of the repo


def _bound_in(fn):
    """Names bound in a function's own scope (params, stores)."""
    names = set()
    a = fn.args
    for x in a.posonlyargs + a.args + a.kwonlyargs:
        names.add(x.arg)
    if a.vararg:
        names.add(a.vararg.arg)
    if a.kwarg:
        names.add(a.kwarg.arg)
    stack = list(fn.body)
    while stack:
        n = stack.pop()
        if isinstance(n, (ast.FunctionDef, ast.AsyncFunctionDef,
                          ast.ClassDef)):
            names.add(n.name)
            continue
        if isinstance(n, ast.Lambda):
            continue
        if isinstance(n, ast.Name) and isinstance(n.ctx, (ast.Store,
                                                          ast.Del)):
            names.add(n.id)
        if isinstance(n, ast.ExceptHandler) and n.name:
            names.add(n.name)
        if isinstance(n, (ast.Import, ast.ImportFrom)):
            for al in n.names:
                names.add((al.asname or al.name).split('.')[0])
        stack.extend(ast.iter_child_nodes(n))
    return names


def _params(fn):
    a = fn.args
    out = {x.arg for x in a.posonlyargs + a.args + a.kwonlyargs}
    if a.vararg:
        out.add(a.vararg.arg)
    if a.kwarg:
        out.add(a.kwarg.arg)
    return out


def _declared_global(fn):
    out = set()
    for n in ast.walk(fn):
        if isinstance(n, (ast.Global, ast.Nonlocal)):
            out.update(n.names)
    return out


def rename_locals(tree):
    count = 0

    def process(fn, inherited):
        """inherited: {old: new} renames of enclosing scopes still visible."""
        nonlocal count
        params = _params(fn)
        bound = _bound_in(fn)
        glob = _declared_global(fn)
        nested_names = {n.name for n in ast.walk(fn)
                        if isinstance(n, (ast.FunctionDef,
                                          ast.AsyncFunctionDef,
                                          ast.ClassDef)) and n is not fn}
        imported = set()
        for n in ast.walk(fn):
            if isinstance(n, (ast.Import, ast.ImportFrom)):
                for al in n.names:
                    imported.add((al.asname or al.name).split('.')[0])
        mine = {}
        for nm in sorted(bound):
            if nm in params and not (
                    RENAME_PARAMS and nm not in ('self', 'cls') and
                    nm not in KW_NAMES):
                continue
            if nm in glob or nm in nested_names or \
                    nm in imported or nm.startswith('__'):
                continue
            count += 1
            mine[nm] = 'v%d%s' % (count, SUFFIX)
        # visible renames: inherited ones not shadowed here + mine
        visible = {k: v for k, v in inherited.items() if k not in bound}
        visible.update(mine)
        a_ = fn.args
        for x in a_.posonlyargs + a_.args + a_.kwonlyargs + [
                y for y in (a_.vararg, a_.kwarg) if y is not None]:
            if x.arg in mine:
                x.arg = mine[x.arg]

        def walk(n):
            for c in ast.iter_child_nodes(n):
                if isinstance(c, (ast.FunctionDef, ast.AsyncFunctionDef)):
                    # decorators/defaults evaluate in this scope
                    for d in c.decorator_list:
                        fix(d)
                        walk(d)
                    for d in c.args.defaults + [
                            x for x in c.args.kw_defaults if x is not None]:
                        fix(d)
                        walk(d)
                    process(c, visible)
                    continue
                if isinstance(c, ast.ClassDef):
                    continue
                if isinstance(c, ast.Lambda):
                    lp = {x.arg for x in c.args.args}
                    saved = {k: visible[k] for k in lp if k in visible}
                    for k in saved:
                        del visible[k]
                    fix(c.body)
                    walk(c.body)
                    visible.update(saved)
                    continue
                fix(c)
                walk(c)

        def fix(c):
            if isinstance(c, ast.Name) and c.id in visible:
                c.id = visible[c.id]
            if isinstance(c, ast.ExceptHandler) and c.name in visible:
                c.name = visible[c.name]
            if isinstance(c, (ast.Global, ast.Nonlocal)):
                c.names = [visible.get(x, x) for x in c.names]
        for st in fn.body:
            fix(st)
            walk(st)

    for node in ast.walk(tree):
        pass
    # top-level and class-level functions
    def top(body):
        for st in body:
            if isinstance(st, (ast.FunctionDef, ast.AsyncFunctionDef)):
                process(st, {})
            elif isinstance(st, ast.ClassDef):
                top(st.body)
            elif isinstance(st, (ast.If, ast.Try)):
                for fld in ('body', 'orelse', 'finalbody'):
                    top(getattr(st, fld, []) or [])
    top(tree.body)
    return count


def invert_ifs(tree):
    """if c: A else: B  ->  if not c: B else: A   (for every if that has
    an else branch which is not an elif chain)."""
    n = 0
    for node in ast.walk(tree):
        if isinstance(node, ast.If) and node.orelse and not (
                len(node.orelse) == 1 and isinstance(node.orelse[0], ast.If)):
            t = node.test
            if isinstance(t, ast.UnaryOp) and isinstance(t.op, ast.Not):
                node.test = t.operand
            else:
                node.test = ast.UnaryOp(op=ast.Not(), operand=t)
            node.body, node.orelse = node.orelse, node.body
            n += 1
    ast.fix_missing_locations(tree)
    return n


def _terminates(stmts):
    if not stmts:
        return False
    last = stmts[-1]
    if isinstance(last, (ast.Return, ast.Raise, ast.Continue, ast.Break)):
        return True
    if isinstance(last, ast.If) and last.orelse:
        return _terminates(last.body) and _terminates(last.orelse)
    return False


def _blocks(tree):
    for node in ast.walk(tree):
        for fld in ('body', 'orelse', 'finalbody'):
            blk = getattr(node, fld, None)
            if isinstance(blk, list) and blk and isinstance(
                    blk[0], ast.stmt):
                yield node, fld, blk
        if isinstance(node, ast.Try):
            for h in node.handlers:
                yield h, 'body', h.body


def merge_ifs(tree):
    """if a: (only statement) if b: X   ->   if a and b: X"""
    n = 0
    changed = True
    while changed:
        changed = False
        for node in ast.walk(tree):
            if isinstance(node, ast.If) and not node.orelse and len(
                    node.body) == 1 and isinstance(
                        node.body[0], ast.If) and not node.body[0].orelse:
                inner = node.body[0]
                node.test = ast.BoolOp(op=ast.And(),
                                       values=[node.test, inner.test])
                node.body = inner.body
                n += 1
                changed = True
    ast.fix_missing_locations(tree)
    return n


def split_ifs(tree):
    """if a and b: X (no else)   ->   if a: if b: X"""
    n = 0
    for node in list(ast.walk(tree)):
        if isinstance(node, ast.If) and not node.orelse and isinstance(
                node.test, ast.BoolOp) and isinstance(node.test.op, ast.And):
            vals = node.test.values
            inner_body = node.body
            for v in reversed(vals[1:]):
                inner_body = [ast.If(test=v, body=inner_body, orelse=[])]
            node.test = vals[0]
            node.body = inner_body
            n += 1
    ast.fix_missing_locations(tree)
    return n


def flatten_else(tree):
    """if c: <never falls through> else: B   ->   if c: ...   B"""
    n = 0
    changed = True
    while changed:
        changed = False
        for node, fld, blk in list(_blocks(tree)):
            for i, st in enumerate(blk):
                if isinstance(st, ast.If) and st.orelse and _terminates(
                        st.body) and not (len(st.orelse) == 1 and isinstance(
                            st.orelse[0], ast.If) and False):
                    rest = st.orelse
                    st.orelse = []
                    blk[i + 1:i + 1] = rest
                    n += 1
                    changed = True
                    break
            if changed:
                break
    ast.fix_missing_locations(tree)
    return n


def absorb_else(tree):
    """if c: <never falls through>  rest...   ->   if c: ... else: rest"""
    n = 0
    changed = True
    while changed:
        changed = False
        for node, fld, blk in list(_blocks(tree)):
            for i, st in enumerate(blk):
                if isinstance(st, ast.If) and not st.orelse and _terminates(
                        st.body) and i + 1 < len(blk):
                    st.orelse = blk[i + 1:]
                    del blk[i + 1:]
                    n += 1
                    changed = True
                    break
            if changed:
                break
    ast.fix_missing_locations(tree)
    return n


def alias_decorators(tree):
    """@db_api.placement_context_manager.writer -> @_writer_rn with a
    module-level alias (same for reader)."""
    n = 0
    used = set()
    for node in ast.walk(tree):
        if isinstance(node, (ast.FunctionDef, ast.AsyncFunctionDef)):
            for i, d in enumerate(node.decorator_list):
                txt = ast.unparse(d)
                for kind in ('writer', 'reader'):
                    if txt == 'db_api.placement_context_manager.' + kind:
                        node.decorator_list[i] = ast.Name(
                            id='_%s_rn' % kind, ctx=ast.Load())
                        used.add(kind)
                        n += 1
    if used:
        idx = 0
        for i, st in enumerate(tree.body):
            if isinstance(st, (ast.Import, ast.ImportFrom)) or (
                    isinstance(st, ast.Expr) and isinstance(
                        st.value, ast.Constant)):
                idx = i + 1
        for kind in sorted(used):
            tree.body.insert(idx, ast.parse(
                '_%s_rn = db_api.placement_context_manager.%s' % (
                    kind, kind)).body[0])
    ast.fix_missing_locations(tree)
    return n


def rename_private_functions(tree):
    """Every module-level function whose name starts with one underscore
    (not dunder) gets the suffix _rn, with all references inside the module
    (other modules refer to it by attribute and are left alone, so only
    functions never referenced from outside are renamed: see main)."""
    names = {st.name for st in tree.body
             if isinstance(st, (ast.FunctionDef, ast.AsyncFunctionDef))
             and st.name.startswith('_') and not st.name.startswith('__')
             and st.name not in EXTERNAL_REFS}
    for node in ast.walk(tree):
        if isinstance(node, (ast.FunctionDef, ast.AsyncFunctionDef)) and \
                node.name in names and node in tree.body:
            node.name += '_rn'
        elif isinstance(node, ast.Name) and node.id in names:
            node.id += '_rn'
    ast.fix_missing_locations(tree)
    return len(names)


def continue_to_nested(tree):
    """loop body: ``if c: continue`` + rest  ->  ``if not c: rest``"""
    n = 0
    changed = True
    while changed:
        changed = False
        for node in ast.walk(tree):
            if not isinstance(node, (ast.For, ast.While)):
                continue
            blk = node.body
            for i, st in enumerate(blk):
                if isinstance(st, ast.If) and not st.orelse and len(
                        st.body) == 1 and isinstance(
                            st.body[0], ast.Continue) and i + 1 < len(blk):
                    t = st.test
                    if isinstance(t, ast.UnaryOp) and isinstance(
                            t.op, ast.Not):
                        t = t.operand
                    else:
                        t = ast.UnaryOp(op=ast.Not(), operand=t)
                    st.test = t
                    st.body = blk[i + 1:]
                    del blk[i + 1:]
                    n += 1
                    changed = True
                    break
            if changed:
                break
    ast.fix_missing_locations(tree)
    return n


def nested_to_continue(tree):
    """loop body ending in ``if c: X`` (no else)  ->  ``if not c: continue``
    + X"""
    n = 0
    changed = True
    while changed:
        changed = False
        for node in ast.walk(tree):
            if not isinstance(node, (ast.For, ast.While)):
                continue
            blk = node.body
            st = blk[-1]
            if isinstance(st, ast.If) and not st.orelse and not (
                    len(st.body) == 1 and isinstance(
                        st.body[0], (ast.Continue, ast.Break, ast.Return,
                                     ast.Raise))) and not getattr(
                                         st, '_done', False):
                t = st.test
                if isinstance(t, ast.UnaryOp) and isinstance(t.op, ast.Not):
                    t = t.operand
                else:
                    t = ast.UnaryOp(op=ast.Not(), operand=t)
                rest = st.body
                st.test = t
                st.body = [ast.Continue()]
                st._done = True
                blk.extend(rest)
                n += 1
                changed = True
                break
    ast.fix_missing_locations(tree)
    return n


MODE = None
EXTERNAL_REFS = set()
MODES = {'--merge-ifs': merge_ifs, '--split-ifs': split_ifs,
         '--flatten-else': flatten_else, '--absorb-else': absorb_else,
         '--alias-decorators': alias_decorators,
         '--rename-functions': rename_private_functions,
         '--continue-to-nested': continue_to_nested,
         '--nested-to-continue': nested_to_continue}


def variant(relpath, repo='/repo'):
    with open(os.path.join(repo, relpath), encoding='utf-8') as fh:
        src_ = fh.read()
    tree = ast.parse(src_)
    if MODE:
        n = MODES[MODE](tree)
        out = ast.unparse(tree) + '\n'
        compile(out, relpath, 'exec')
        return out, n
    if INVERT_IF:
        n = invert_ifs(tree)
        out = ast.unparse(tree) + '\n'
        compile(out, relpath, 'exec')
        return out, n
    n = rename_locals(tree)
    out = ast.unparse(tree) + '\n'
    compile(out, relpath, 'exec')
    return out, n


def failed_keys(ctx):
    out = {}
    errs = {}
    for prop in psarun.PROPS:
        try:
            rec, _ = psarun.run_rules(prop, ctx)
            out[prop] = {(o.rule, o.construct) for o in rec.failed}
        except model.AnalysisError as e:
            out[prop] = set()
            errs[prop] = str(e)
        except Exception as e:       # crash in a rule = checker bug
            out[prop] = set()
            errs[prop] = 'CRASH %r' % (e,)
    return out, errs


def work(args):
    global RENAME_PARAMS, INVERT_IF, MODE
    relpath, base, RENAME_PARAMS, kws, INVERT_IF, MODE, ext = args
    KW_NAMES.update(kws)
    EXTERNAL_REFS.update(ext)
    t0 = time.time()
    try:
        src_, n = variant(relpath)
    except Exception as e:
        return relpath, 0, {}, {'variant': repr(e)}, 0.0
    ctx = psarun.Ctx('/repo', {relpath: src_})
    got, errs = failed_keys(ctx)
    new = {}
    for p, ks in got.items():
        d = ks - set(map(tuple, base.get(p, [])))
        if d:
            new[p] = sorted(d)
    return relpath, n, new, errs, time.time() - t0


def main(argv):
    jobs = 16
    pats = []
    params = False
    invert = False
    mode = None
    it = iter(argv)
    for a in it:
        if a == '--jobs':
            jobs = int(next(it))
        elif a == '--params':
            params = True
        elif a == '--invert-if':
            invert = True
        elif a in MODES:
            mode = a
        else:
            pats.append(a)
    base_ctx = psarun.Ctx('/repo')
    base, base_errs = failed_keys(base_ctx)
    if base_errs:
        print('baseline analysis errors:', base_errs)
    mods = sorted(m.relpath for m in base_ctx.prog.modules.values())
    if pats:
        mods = [m for m in mods if any(p in m for p in pats)]
    base_l = {p: sorted(ks) for p, ks in base.items()}
    kws = set()
    for m in base_ctx.prog.modules.values():
        for n in ast.walk(m.tree):
            if isinstance(n, ast.keyword) and n.arg:
                kws.add(n.arg)
    # private functions referenced from another module (mod._name) or by
    # the tests keep their names in --rename-functions
    ext = set()
    for m in base_ctx.prog.modules.values():
        for n in ast.walk(m.tree):
            if isinstance(n, ast.Attribute) and n.attr.startswith('_'):
                ext.add(n.attr)
            if isinstance(n, ast.ImportFrom):
                for al in n.names:
                    ext.add(al.name)
    tasks = [(m, base_l, params, sorted(kws), invert, mode, sorted(ext))
             for m in mods]
    bad = 0
    with multiprocessing.Pool(min(jobs, len(tasks))) as pool:
        for relpath, n, new, errs, dt in pool.imap_unordered(work, tasks):
            status = 'ok'
            if new or errs:
                status = 'FALSE-ALARM'
                bad += 1
            print('%-55s renamed=%-4d %5.1fs %s' % (relpath, n, dt, status))
            for p, ks in sorted(new.items()):
                for k in ks:
                    print('      %s %s %s' % (p, k[0], k[1]))
            for p, e in sorted(errs.items()):
                print('      %s ANALYSIS-ERROR %s' % (p, e[:200]))
    print('modules with false alarms: %d of %d' % (bad, len(tasks)))
    return 1 if bad else 0


if __name__ == '__main__':
    sys.exit(main(sys.argv[1:]))
