#!/venv/bin/python
"""Print the normalised form of the functions whose qualified name contains
the given text.  Usage: tools/dump_fn.py <repo> <text> [...]"""
import ast, os, sys
sys.path.insert(0, os.path.join(os.path.dirname(os.path.abspath(__file__)), '..'))
from psa.run import Ctx
ctx = Ctx(sys.argv[1], tier='quick')
for f in ctx.prog.funcs:
    if any(t in f.qname for t in sys.argv[2:]):
        print('###', f.qname, f.loc())
        print(ast.unparse(f.node))
