#!/bin/sh
# Run the quick checks of the given properties against every stored benign
# patch that touches one of the given path fragments (scratch worktrees, 8 at
# a time).  Usage: tools/bprop.sh "C01 C12" handlers/allocation.py [...]
cd "$(dirname "$0")/.." || exit 2
PROPS=$1; shift
pat=$(echo "$@" | tr ' ' '|')
one() {
  p=$1; S=/tmp/wt/_bprop_$$_$(basename "$(dirname "$p")")_$(basename "$p" .diff | cut -c1-2)
  git -C /repo worktree add --detach "$S" HEAD >/dev/null 2>&1 || return
  if git -C "$S" apply "$(pwd)/$p" 2>/dev/null; then
    for q in $PROPS; do
      out=$(./check $q --tier quick --no-evidence --repo "$S" 2>&1); rc=$?
      [ $rc = 0 ] || echo "$p $q rc=$rc $(echo "$out" | grep -E '^  FAILED|ANALYSIS-ERROR' | awk '{print $2,$3}' | tr '\n' ';' | cut -c1-200)"
    done
  else echo "$p does not apply"; fi
  git -C /repo worktree remove --force "$S"
}
n=0
for p in $(grep -lE "^\+\+\+ b/.*($pat)" benign/*/*.diff); do
  one "$p" &
  n=$((n+1)); [ $((n % 8)) = 0 ] && wait
done
wait
echo "done ($n patches)"
