#!/bin/sh
# Run every claimed quick check against a tree other than /repo (e.g. a
# scratch worktree with a candidate change applied), in parallel, without
# writing evidence.  Usage: tools/check_tree.sh <dir> [-v]
cd "$(dirname "$0")/.." || exit 2
T=$1
[ -d "$T/placement" ] || { echo "no tree at $T"; exit 2; }
PROPS=$(/venv/bin/python -c "from psa.run import PROPS; print(' '.join(PROPS))")
tmp=$(mktemp -d)
for p in $PROPS; do
  ( ./check $p --tier quick --no-evidence --repo "$T" > "$tmp/$p.out" 2>&1; echo $? > "$tmp/$p.rc" ) &
done
wait
line=""
for p in $PROPS; do
  rc=$(cat "$tmp/$p.rc")
  if [ "$rc" = 1 ]; then
    rules=$(grep -E "^  FAILED" "$tmp/$p.out" | awk '{print $2}' | sort -u | tr '\n' ',' | sed 's/,$//')
    line="$line $p[$rules]"
  elif [ "$rc" != 0 ]; then
    line="$line $p[exit$rc]"
  fi
done
echo "fired:${line:- none}"
if [ "$2" = "-v" ]; then
  for p in $PROPS; do
    rc=$(cat "$tmp/$p.rc")
    [ "$rc" != 0 ] && { echo "== $p exit=$rc"; grep -E -A2 "^  FAILED|ANALYSIS-ERROR" "$tmp/$p.out" | head -30; }
  done
fi
rm -rf "$tmp"
