#!/bin/sh
# Apply one patch to a scratch worktree, run the given checks (default all)
# verbosely against it.  Usage: tools/bp.sh <patch> [C01 C02 ...]
cd "$(dirname "$0")/.." || exit 2
P=$(cd "$(dirname "$1")" && pwd)/$(basename "$1"); shift
S=/tmp/wt/_bp_$$
git -C /repo worktree add --detach "$S" HEAD >/dev/null 2>&1 || exit 2
trap 'git -C /repo worktree remove --force "$S"' EXIT
git -C "$S" apply "$P" || { echo "does not apply"; exit 2; }
if [ $# -eq 0 ]; then tools/check_tree.sh "$S" -v; exit; fi
for p in "$@"; do
  ./check $p --tier quick --no-evidence --repo "$S" 2>&1 | grep -E -A3 "^  FAILED|ANALYSIS-ERROR|^$p quick" 
done
