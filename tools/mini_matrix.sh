#!/bin/sh
# like tools/seed_matrix.sh but for the seeds given as arguments
cd /verif || exit 2
git -C /repo diff --quiet || { echo "/repo is dirty"; exit 2; }
PROPS="C01 C02 C03 C04 C05 C06 C07 C08 C09 C10 C11 C12 C13 C14 C15 C16 C17 C18 C19 C20"
for id in "$@"; do
  d=seeded/$id
  git -C /repo apply "$(pwd)/$d/patch.diff" || { echo "$id: patch does not apply"; continue; }
  tmp=$(mktemp -d)
  for p in $PROPS; do
    ( ./check $p --tier quick --no-evidence > "$tmp/$p.out" 2>&1; echo $? > "$tmp/$p.rc" ) &
  done
  wait
  git -C /repo checkout -- . ; git -C /repo clean -fdq placement 2>/dev/null
  line="$id:"
  for p in $PROPS; do
    rc=$(cat "$tmp/$p.rc")
    if [ "$rc" = 1 ]; then
      rules=$(grep -E "^  FAILED" "$tmp/$p.out" | awk '{print $2}' | sort -u | tr '\n' ',' | sed 's/,$//')
      line="$line $p[$rules]"
    elif [ "$rc" != 0 ]; then
      line="$line $p[exit$rc]"
    fi
  done
  echo "$line"
  rm -rf "$tmp"
done
