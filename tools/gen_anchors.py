#!/venv/bin/python
"""Regenerate psa/tables/anchors.json from /repo's current tree (run when
the reference tree legitimately changes, e.g. after a fix: commit)."""
import json
import os
import sys
sys.path.insert(0, os.path.join(os.path.dirname(os.path.abspath(__file__)), '..'))
from psa import anchors, model

prog = model.Program(sys.argv[1] if len(sys.argv) > 1 else '/repo', relocate=False)
out = {}
for q, fs in sorted(prog.by_qbase.items()):
    out[q] = {'n': len(fs), 'fp': dict(sorted(anchors.group_fp(fs).items()))}
import ast
globs = {}
for mn, m in sorted(prog.modules.items()):
    names = set()
    for st in m.tree.body:
        if isinstance(st, (ast.Assign, ast.AnnAssign)):
            for t in (st.targets if isinstance(st, ast.Assign)
                      else [st.target]):
                for x in ast.walk(t):
                    if isinstance(x, ast.Name):
                        names.add(x.id)
    globs[mn] = sorted(names)
with open(anchors.TABLE, 'w') as fh:
    json.dump({'_comment': 'fingerprints of every function of the reference '
               'tree, see psa/anchors.py', 'functions': out,
               'globals': globs}, fh, indent=0,
              sort_keys=True)
print('%d functions' % len(out))
