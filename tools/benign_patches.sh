#!/bin/sh
# Apply each patch of a directory to a private scratch worktree of /repo's
# HEAD, run all quick checks against it and report which (wrongly) fire.
# Usage: tools/benign_patches.sh <dir with *.diff> [-v]
cd "$(dirname "$0")/.." || exit 2
D=$(cd "$1" && pwd); V=$2
S=/tmp/wt/_benign_scratch_$$
git -C /repo worktree add --detach "$S" HEAD >/dev/null 2>&1 || exit 2
trap 'git -C /repo worktree remove --force "$S"' EXIT
for p in "$D"/*.diff; do
  git -C "$S" apply "$p" 2>/dev/null || { echo "$(basename $p): does not apply"; continue; }
  echo "$(basename $p): $(tools/check_tree.sh "$S" $V | grep -v conda)"
  git -C "$S" checkout -q -- . ; git -C "$S" clean -fdq
done
