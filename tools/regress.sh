#!/bin/sh
# Run every claimed check in the given tier (default quick); print a summary.
cd "$(dirname "$0")/.." || exit 2
TIER=${1:-quick}
rc=0
for p in C01 C02 C03 C04 C05 C06 C07 C08 C09 C10 C11 C12 C13 C14 C15 C16 C17 C18 C19 C20; do
  out=$(./check $p --tier $TIER 2>&1); e=$?
  echo "$p exit=$e $(echo "$out" | grep -E "^$p |controls:" | tr '\n' ' ')"
  [ $e -ne 0 ] && { echo "$out" | grep -E "FAILED|VIOLATION|ANALYSIS-ERROR|CONTROL-FAILED" | head -5; rc=1; }
done
exit $rc
