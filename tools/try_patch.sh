#!/bin/sh
# Apply a patch to /repo, run every claimed quick check, report which fire,
# and undo the patch straight afterwards.  Usage: tools/try_patch.sh <patch>
cd "$(dirname "$0")/.." || exit 2
P=$1
[ -f "$P" ] || { echo "no patch $P"; exit 2; }
git -C /repo diff --quiet || { echo "/repo is dirty"; exit 2; }
git -C /repo apply "$P" || { echo "patch does not apply"; exit 2; }
trap 'git -C /repo checkout -- . ; git -C /repo clean -fdq placement 2>/dev/null' EXIT
for p in C01 C02 C03 C04 C05 C06 C07 C08 C09 C10 C11 C12 C13 C14 C15 C16 C17 C18 C19 C20; do
  out=$(./check $p --tier quick --no-evidence 2>&1); e=$?
  if [ $e -ne 0 ]; then
    echo "== $p exit=$e"
    echo "$out" | grep -E "^  FAILED|^     found|ANALYSIS-ERROR" | head -8
  fi
done
echo "== done"
