#!/usr/bin/env python3
"""Regenerate /verif/MANIFEST.json from the table below.

A property is listed under checks only once its rule module exists and runs
clean; everything else stays under not_applicable with the reason."""
import json
import os

HERE = os.path.dirname(os.path.dirname(os.path.abspath(__file__)))

NOTE = ("Trusted base: CPython ast; oslo.db enginefacade scope joining and "
        "commit/rollback semantics; DBMS atomicity of one UPDATE..WHERE and "
        "of one transaction; semantics of wrap_db_retry, webob, "
        "microversion_parse, oslo.policy, jsonschema, random, re; the closed "
        "model of SQLAlchemy statement constructors in psa/effects.py. The "
        "check decides the structural clauses named in its text, which are "
        "necessary conditions of the behavioural property, not the behaviour.")

CLAIMED = {
    'C16': dict(
        text="Exhaustive over all 37 route/method pairs and all 42 handler "
             "definitions: route table <-> documented policy operations <-> "
             "the rule passed to the single context.can() are in bijection; "
             "on every CFG path only pure accessors precede can() and every "
             "normal path passes it; default check strings; auth/context "
             "middleware wiring, exempt paths and the 403 mapping. A static "
             "rule set is the right level because 'can() first in each of 41 "
             "sibling handlers' is a coding convention visible in the shape "
             "of the code on every path, which no request sample covers.",
        ref='3/C16', technique='AST who-may-call + CFG dominance/must-pass '
                               'over resolved call graph; constant-folded '
                               'route and policy tables'),
}

NOT_APPLICABLE = {
    'C03': "extensional equality of a multi-path search (SQL + set algebra + "
           "itertools.product) with a declarative specification over all "
           "database states: no structural clause short of the algorithm's "
           "own shape is a necessary condition; a static rule would either "
           "freeze the implementation or decide nothing (shared-object and "
           "capacity-predicate clauses are decided under C02, the 1.29 gate "
           "under C14)",
    'C11': "functional correctness of ~40 handlers against a reference model "
           "of the whole API over all histories; quantifies over runtime "
           "values that no sound static argument in reach can bound",
}

PENDING = "rule module not armed yet in this revision (see DESIGN.md 3)"
ALL = ['C%02d' % i for i in range(1, 21)]


def main():
    checks = []
    for pid in ALL:
        if pid not in CLAIMED:
            continue
        c = CLAIMED[pid]
        checks.append({
            'property_id': pid,
            'quick_cmd': './check %s --tier quick' % pid,
            'thorough_cmd': './check %s --tier thorough' % pid,
            'evidence_file': '/verif/evidence/%s.json' % pid,
            'replay_cmd_template': './check %s --replay {path}' % pid,
            'engine': 'psa',
            'level_claimed': {'category': 'other', 'text': c['text'],
                              'design_ref': 'DESIGN.md ' + c['ref']},
            'level_note': NOTE,
            'technique': 'static analysis: ' + c['technique'],
        })
    na = []
    for pid in ALL:
        if pid in CLAIMED:
            continue
        na.append({'property_id': pid,
                   'reason': NOT_APPLICABLE.get(pid, PENDING)})
    m = {
        'version': 1,
        'setup_cmd': 'true',
        'hooks': {
            'guard': 'OPENSTACK_PLACEMENT_VERIF',
            'enable': 'none needed: the checks parse /repo, nothing in it is '
                      'instrumented or executed',
            'baseline_off_cmd': 'cd /repo && /venv/bin/python -m pytest -ra '
                                '-q -p no:cacheprovider --timeout=900 '
                                '--continue-on-collection-errors',
            'source_commits': [],
            'add_only': True,
        },
        'engines': [{
            'name': 'psa', 'path': '/verif/psa',
            'serves_properties': sorted(CLAIMED),
            'kind_free_text': 'repository-specific static analyser (stdlib '
                              'ast): program model, constant folding, call '
                              'graph, CFG/dominators, SQL effects and '
                              'transaction scopes, may-raise, finite-domain '
                              'microversion evaluation',
        }],
        'checks': checks,
        'notes': 'Exit 0 = all obligations discharged (KNOWN-FINDING lines '
                 'for entries of known_findings.json); exit 1 + VIOLATION = '
                 'an obligation failed on an unlisted construct; exit 2 + '
                 'ANALYSIS-ERROR = the checker could not decide (lost anchor, '
                 'instance floor, control failure).',
        'not_applicable': na,
    }
    with open(os.path.join(HERE, 'MANIFEST.json'), 'w') as fh:
        json.dump(m, fh, indent=1)
        fh.write('\n')


if __name__ == '__main__':
    main()
