#!/usr/bin/env python3
"""Regenerate /verif/MANIFEST.json from the table below.

A property is listed under checks only once its rule module exists and runs
clean; everything else stays under not_applicable with the reason."""
import json
import os

HERE = os.path.dirname(os.path.dirname(os.path.abspath(__file__)))

NOTE = ("Trusted base: CPython ast; oslo.db enginefacade scope joining and "
        "commit/rollback semantics; DBMS atomicity of one UPDATE..WHERE and "
        "of one transaction; semantics of wrap_db_retry, webob, "
        "microversion_parse, oslo.policy, jsonschema, random, re; the closed "
        "model of SQLAlchemy statement constructors in psa/effects.py. The "
        "check decides the structural clauses named in its text, which are "
        "necessary conditions of the behavioural property, not the behaviour.")

CLAIMED = {
    'C14': dict(
        text="Exhaustive abstract evaluation over the finite version domain: "
             "all 36 route/method pairs x all 40 microversions (1440 "
             "evaluations per run) for availability (handler/404/405) and "
             "the request schema selected, checked against (a) the schema "
             "family's own embedded versions (newest <= v, no dead schema, "
             "accepted keys monotone), (b) the api-ref's availability "
             "statements and the min_version of every documented request "
             "parameter (accepted at N, not at N-1), (c) a hand-confirmed "
             "per-route gate table for response-side gates, plus VERSIONS "
             "vs. the history headings and the middleware wiring. Header "
             "text and behaviour inside the trusted middleware are not "
             "decided.",
        ref='3/C14', technique='finite-domain abstract interpretation of '
                               'version predicates, constant-folded schemas, '
                               'documentation cross-check, path-sensitive _find_method with entry roles, Last-Modified value never None (path values through serialisers)'),
    'C02': dict(
        text="Three structural clauses: (1) the SQL candidate filter, the "
             "post-merge filter and the write-time check normalise to the "
             "same predicate (sibling cross-check in polynomial normal "
             "form), so the search accepts only what the write accepts; (2) "
             "merged amounts are added only into objects the merge owns "
             "(path-sensitive enumeration of copy_arr_if_needed's return "
             "paths, alias/mutation site table); (3) for all 30 versions "
             ">= 1.10 the keys emitted for an allocation request are "
             "accepted by the PUT schema dispatched at that version. "
             "Existence of providers and summary values are not decided.",
        ref='3/C02', technique='normal-form predicate comparison, path '
                               'condition enumeration, per-version abstract '
                               'evaluation of emitter and schema tables, CFG must-pass exits of the per-class tree intersection'),
    'C07': dict(
        text="Composite necessary condition only: one allocation write = "
             "one writer scope holding capacity check on committed usage -> "
             "inserts -> CAS of every checked provider -> CAS of every "
             "visited consumer on every path; bounded retry that catches "
             "only the provider conflict and re-raises; cleanup of created "
             "consumers; generation increments in the scope of every "
             "inventory/trait/aggregate change. Serializability over "
             "schedules itself is not decided.",
        ref='3/C07', technique='CFG dominance and must-pass queries over the '
                               'write path, exception-handler shape checks'),
    'C09': dict(
        text="Guards only: unknown parent, self-parent, parent inside own "
             "subtree and ungated re-/un-parenting each raise on every path "
             "before the parent link is stored; stored roots are the "
             "parent's root / own id and the same value is written to the "
             "whole get_subtree(); the re-parent flag is bound to the 1.37 "
             "gate; parents are not deleted; status mapping. The forest "
             "invariant over histories is not decided.",
        ref='3/C09', technique='path-sensitive value propagation over the '
                               'create/update functions (stores and guards '
                               'per path), reviewed SQL shape of the in_tree '
                               'listing, gate-bound flag tracing'),
    'C12': dict(
        text="Closed who-may-insert/delete table for consumers; the write "
             "ends with removal of consumers left without allocations on "
             "every path; consumers created by a request are either given "
             "an Allocation or removed (bypass-path analysis); placeholders, "
             "type gate and in-transaction attribute update.",
        ref='3/C12', technique='effect tables, must-pass on CFG, bypass path '
                               'query, constant-folded configuration, path-sensitive propagation of the created-consumer flag, unconditional compensation delete'),
    'C13': dict(
        text="Writer/reader key agreement between schema, handler and query "
             "builder; a table-driven check that each of the eight filters "
             "reaches query.where() or an early empty return with the "
             "expected column, helper and polarity; capacity predicate "
             "sibling check; unknown names -> 400. The helpers' SQL joins "
             "are not decided.",
        ref='3/C13', technique='constant-key dataflow between sibling '
                               'tables, clause-shape matching, CFG '
                               'dominance, path-sensitive prefix/polarity decision of the value parsers, aggregate uuids handed on as sent on both sides'),
    'C15': dict(
        text="Inter-procedural may-raise over all 42 handler definitions "
             "(nothing but webob errors / NotFound / PolicyNotAuthorized "
             "escapes, every other origin is in a reasoned infeasibility "
             "table); every conversion of request data is guarded or "
             "validated on the same occurrence; req.GET first touched under "
             "the 400 conversion; JSON formatter wiring; validation "
             "dominates writes; two-sided integer bounds before SQL.",
        ref='3/C15', technique='exception escape analysis over the call '
                               'graph, CFG dominance, source-to-sink '
                               'conversion site enumeration, divisor fields vs schema minima, handler-reads-rebound-name scan, KeyError-raising query lookups under a presence test'),
    'C17': dict(
        text="Retry decorators: closed table, argument values, position "
             "outside the writer decorator; no catch-all or DB-error handler "
             "in the service drops an error outside a reasoned table; "
             "FaultWrapper innermost and JSON-formatting; every write inside "
             "a writer scope. Exactly-once under injected faults is not "
             "decided (fault-sequence property).",
        ref='3/C17', technique='decorator-order and argument checks, '
                               'handler-swallow analysis on CFGs, '
                               'who-may-write scopes, no database access after the committed write (CFG reachability over effect summaries), retried functions are the outermost transaction scope'),
    'C18': dict(
        text="Given enginefacade scope joining (trusted), a crash leaves all "
             "or none of one transaction root: per handler at most one root "
             "writes invariant-bearing tables and every other root writes "
             "only the auxiliary records the property allows.",
        ref='3/C18', technique='transaction-root reachability over SQL '
                               'effects and the call graph'),
    'C19': dict(
        text="Regex-language inclusion of the CUSTOM_ patterns (parsed with "
             "re._parser, anchoring incl. \\Z vs $), maxLength, validation "
             "dominates create with the validated value, standard-id/prefix "
             "guards dominate delete/rename, next id >= 10000 on all paths, "
             "collision handling, start-up sync wiring and set-difference "
             "inserts.",
        ref='3/C19', technique='regular-language facts from the regex AST, '
                               'guard dominance, return-path analysis, path-sensitive next-id and once-flag decisions'),
    'C20': dict(
        text="Provenance of the limited list (parameter, slice or "
             "random.sample of it bounded by limit, under the stated "
             "guard), random.* only under the config flag, merge -> exclude "
             "-> limit order with unchanged return, summaries pruned by the "
             "kept requests' roots.",
        ref='3/C20', technique='assignment provenance, control dependence, '
                               'call-order dominance, result lists untouched after the limit'),
    'C01': dict(
        text="Decides the structural clauses of capacity safety: who may "
             "write allocations; delete -> capacity check -> insert order on "
             "the same list inside one writer scope; the check's guards, "
             "normalised to polynomial-relation-zero form, equal the four "
             "inequalities of the property; reshape ordering; schema amounts "
             ">= 1. These are the conventions whose loss lets an accepted "
             "write over-commit, and they hold on every path, which the "
             "tests' handful of inventories cannot show. Numerical behaviour "
             "over histories is not decided.",
        ref='3/C01', technique='who-may-write effect table, CFG dominance, '
                               'normal-form comparison of guard predicates, '
                               'constant-folded JSON schemas, stored-column source table for inventories, key = lookup text, one Allocation per provider and class (mapping-key enumeration)'),
    'C04': dict(
        text="Every write reachable from each of the 42 handler definitions "
             "lies below a writer scope; at most one transaction per request "
             "writes invariant-bearing tables; consumers created for a "
             "request are deleted on every failing exit (typestate over the "
             "CFG with the inter-procedural may-raise sets); nothing below a "
             "writer root swallows an error outside a closed table; errors "
             "are signalled only by raising. Necessary conditions for 'no "
             "trace of a rejected write'; rollback itself is trusted.",
        ref='3/C04', technique='SQL effect extraction + transaction-root '
                               'reachability on the call graph, cleanup '
                               'pairing over CFG, may-raise analysis, unconditional compensation delete'),
    'C05': dict(
        text="Compare-and-swap shape of the provider generation increment; "
             "dominance of the early generation comparison over the mutator "
             "on the same object in the five generation-carrying handlers; "
             "every ConcurrentUpdateDetected that can leave a mutator is "
             "converted to 409 placement.concurrent_update (inter-procedural "
             "may-raise over all 16 writer handler definitions). Together "
             "with DBMS atomicity these are the conditions the schedule "
             "statement rests on.",
        ref='3/C05', technique='statement-shape matching on the SQL builder, '
                               'CFG dominance, may-raise escape analysis, retry scope never re-runs the compare-and-swap with a left-over generation'),
    'C06': dict(
        text="CAS shape of the consumer increment; under the 1.28 gate every "
             "consumer loaded from the database reaches the write only "
             "through a raising generation comparison (including the lost "
             "creation race); the consumer object that is CAS'd is the one "
             "that was compared (dataflow of Allocation.consumer); every "
             "visited consumer is incremented inside the write scope.",
        ref='3/C06', technique='CFG must-pass queries, gate-bound flag '
                               'tracing, object-identity dataflow'),
    'C08': dict(
        text="Closed table of DELETE sites; each delete of an inventory, "
             "provider, class or trait dominated by its in-use guard on the "
             "same key in the same scope; provider delete cascades; ids "
             "written come from loaded objects; in-use exceptions mapped to "
             "409/400 in every handler that can reach them.",
        ref='3/C08', technique='effect table (who-may-delete), guard '
                               'dominance on the CFG, may-raise status '
                               'mapping'),
    'C10': dict(
        text="Every CFG path from a write of inventories / trait or "
             "aggregate associations to the normal exit of its writer-scope "
             "function passes increment_generation on the provider "
             "parameter; the aggregate flag is bound to the 1.19 gate; the "
             "allocation write increments all visited providers and "
             "consumers; no other statement writes a generation column; GET "
             "handlers reach no write effect; responses read the generation "
             "from the mutated object.",
        ref='3/C10', technique='must-pass-through on per-function CFGs over '
                               'SQL effects, zero-match who-may-write rule '
                               'with positive control, nothing refuses after the wrapped handler call returned'),
    'C16': dict(
        text="Exhaustive over all 37 route/method pairs and all 42 handler "
             "definitions: route table <-> documented policy operations <-> "
             "the rule passed to the single context.can() are in bijection; "
             "on every CFG path only pure accessors precede can() and every "
             "normal path passes it; default check strings; auth/context "
             "middleware wiring, exempt paths and the 403 mapping. A static "
             "rule set is the right level because 'can() first in each of 41 "
             "sibling handlers' is a coding convention visible in the shape "
             "of the code on every path, which no request sample covers.",
        ref='3/C16', technique='AST who-may-call + CFG dominance/must-pass '
                               'over resolved call graph; constant-folded '
                               'route and policy tables, path-sensitive decision of the 401 middleware, policy option scan, deprecated rule names disjoint from registered names'),
}

CLAIMED['C11'] = dict(
    text="Table-agreement clauses only (the property as a whole - every "
         "response equals a reference model of the API over all histories - "
         "is NOT decided): every column written takes the same-named "
         "attribute of the object being stored (37 column sources); every "
         "label of the reader queries that feed API objects names its own "
         "column and table (25 labels); every object built from a record "
         "takes field k from key k / <entity>_k of its own entity (31 "
         "fields); the serialisers emit each response key from the reviewed "
         "attribute, and the inventory field set is one and the same from "
         "schema through defaults, INSERT/UPDATE, SELECT, object and "
         "response; the usage and allocation views have the reviewed SQL "
         "shape (SUM(allocations.used), join keys, grouping) and hand the "
         "aggregate column to Usage.usage; the success statuses of all 36 "
         "routes equal the api-ref's Normal Response Codes. A swapped or "
         "dropped field, a label carrying another column, a view joining on "
         "the wrong key or a changed success status breaks C11 and is "
         "reported; values, defaults' meaning, ordering of histories and "
         "error statuses are not decided.",
    ref='3/C11', technique='writer/reader table agreement over constant-'
                           'folded schemas, SQL effect extraction, labelled '
                           'column flow into constructors, frozen '
                           'normalised SQL shapes, documentation cross-check, parsed body not written to where key presence decides')

CLAIMED['C03'] = dict(
    text="Structural necessary conditions of 'exactly the combinations the "
         "request describes' - the set equality with the specification over "
         "all database states is NOT decided. Decided: every filter a "
         "request group can carry (resources, required/forbidden traits, "
         "member_of, forbidden aggregates, in_tree) flows into "
         "RequestGroupSearchContext and is read on both sibling search paths "
         "(single-provider and tree/sharing), also for a group without "
         "resources; every request-wide parameter reaches its filter; a "
         "combination enters the result only under the group-policy, "
         "same_subtree and capacity filters applied to that same "
         "combination and only for anchors holding every group; every "
         "product combination of the tree path is guarded by the trait "
         "check on that combination; every provider of the single-provider "
         "path is offered anchored at its own root under the anchor filter "
         "alone; the pre-1.29 restriction is bound to the 1.29 gate, has "
         "the one-provider-per-tree form and runs after the merge; "
         "de-duplication is by (resources, mappings); the candidate queries "
         "have their reviewed SQL shapes.",
    ref='3/C03', technique='attribute def-use agreement between sibling '
                           'search paths, branch-literal must-pass queries, '
                           'builder views, reviewed SQL predicate shapes, aggregate filter: unknown uuids ignored, uuids matched as sent')
NOT_APPLICABLE = {
    'C11': "functional correctness of ~40 handlers against a reference model "
           "of the whole API over all histories; quantifies over runtime "
           "values that no sound static argument in reach can bound",
}

PENDING = "rule module not armed yet in this revision (see DESIGN.md 3)"
ALL = ['C%02d' % i for i in range(1, 21)]


def main():
    checks = []
    for pid in ALL:
        if pid not in CLAIMED:
            continue
        c = CLAIMED[pid]
        checks.append({
            'property_id': pid,
            'quick_cmd': './check %s --tier quick' % pid,
            'thorough_cmd': './check %s --tier thorough' % pid,
            'evidence_file': '/verif/evidence/%s.json' % pid,
            'replay_cmd_template': './check %s --replay {path}' % pid,
            'engine': 'psa',
            'level_claimed': {'category': 'other', 'text': c['text'],
                              'design_ref': 'DESIGN.md ' + c['ref']},
            'level_note': NOTE,
            'technique': 'static analysis: ' + c['technique'],
        })
    na = []
    for pid in ALL:
        if pid in CLAIMED:
            continue
        na.append({'property_id': pid,
                   'reason': NOT_APPLICABLE.get(pid, PENDING)})
    m = {
        'version': 1,
        'setup_cmd': 'true',
        'hooks': {
            'guard': 'OPENSTACK_PLACEMENT_VERIF',
            'enable': 'none needed: the checks parse /repo, nothing in it is '
                      'instrumented or executed',
            'baseline_off_cmd': 'cd /repo && /venv/bin/python -m pytest -ra '
                                '-q -p no:cacheprovider --timeout=900 '
                                '--continue-on-collection-errors',
            'source_commits': [],
            'add_only': True,
        },
        'engines': [{
            'name': 'psa', 'path': '/verif/psa',
            'serves_properties': sorted(CLAIMED),
            'kind_free_text': 'repository-specific static analyser (stdlib '
                              'ast): program model, constant folding, call '
                              'graph, CFG/dominators, SQL effects and '
                              'transaction scopes, may-raise, finite-domain '
                              'microversion evaluation',
        }],
        'checks': checks,
        'notes': 'Exit 0 = all obligations discharged (KNOWN-FINDING lines '
                 'for entries of known_findings.json); exit 1 + VIOLATION = '
                 'an obligation failed on an unlisted construct; exit 2 + '
                 'ANALYSIS-ERROR = the checker could not decide (lost anchor, '
                 'instance floor, control failure).',
        'not_applicable': na,
    }
    with open(os.path.join(HERE, 'MANIFEST.json'), 'w') as fh:
        json.dump(m, fh, indent=1)
        fh.write('\n')


if __name__ == '__main__':
    main()
