#!/venv/bin/python
"""Write seeded/<id>/meta.json for harvested changes that lack one, from the
sub-agent's NOTES.md, my confirmation runs (.confirm.txt) and a seed-matrix
output file (one 'ID: C01[R1.2] ...' line per seed)."""
import json, os, re, sys
V = os.path.join(os.path.dirname(os.path.abspath(__file__)), '..')
matrix = {}
if len(sys.argv) > 1:
    for l in open(sys.argv[1]):
        if ':' in l:
            k, v = l.split(':', 1)
            matrix[k.strip()] = v.split()
first = json.load(open(sys.argv[2])) if len(sys.argv) > 2 else {}
R6 = ('C01-5 C02-6 C03-6 C04-5 C05-6 C06-5 C07-6 C08-6 C09-6 C10-5 C11-6 C12-6 '
      'C13-6 C14-5 C15-6 C16-5 C17-5 C18-5 C19-5 C20-6').split()
R7 = ('C01-6 C02-7 C03-7 C04-6 C05-7 C06-6 C07-7 C08-7 C09-7 C10-6 C11-7 C12-7 '
      'C13-7 C14-6 C15-7 C16-6 C17-6 C18-6 C19-6 C20-7').split()
R9 = ('C01-8 C02-9 C03-9 C04-8 C05-9 C06-8 C07-9 C08-9 C09-8 C10-8 C11-9 C12-9 '
      'C13-9 C14-8 C15-9 C16-8 C17-8 C18-8 C19-8 C20-9').split()
R8 = ('C01-7 C02-8 C03-8 C04-7 C05-8 C06-7 C07-8 C08-8 C10-7 C11-8 C12-8 C13-8 '
      'C14-7 C15-8 C16-7 C17-7 C18-7 C19-7 C20-8').split()
ROUNDS = dict([(x, 6) for x in R6] + [(x, 7) for x in R7] +
              [(x, 8) for x in R8] + [(x, 9) for x in R9])
for d in sorted(os.listdir(os.path.join(V, 'seeded'))):
    p = os.path.join(V, 'seeded', d)
    mp = os.path.join(p, 'meta.json')
    if os.path.exists(mp):
        m = json.load(open(mp))
        if d in matrix:
            m['detected_by_now'] = matrix[d]
            json.dump(m, open(mp, 'w'), indent=1)
        continue
    notes = open(os.path.join(p, 'NOTES.md')).read() if os.path.exists(
        os.path.join(p, 'NOTES.md')) else ''
    def section(letter):
        m = re.search(r'^#+\s*\(?%s\)?[^\n]*\n(.*?)(?=^#+\s*\(?[a-d]\)|\Z)' % letter, notes, re.S | re.M)
        return re.sub(r'\s+', ' ', m.group(1)).strip()[:1500] if m else ''
    conf = open(os.path.join(p, '.confirm.txt')).read().splitlines() if \
        os.path.exists(os.path.join(p, '.confirm.txt')) else ['', '', '', '']
    files = sorted(set(re.findall(r'^\+\+\+ b/(\S+)', open(os.path.join(p, 'patch.diff')).read(), re.M)))
    prop = d.split('-')[0]
    meta = {
        'id': d, 'property': prop, 'round': ROUNDS.get(d, 4),
        'summary': section('a'), 'needs_to_manifest': section('b'),
        'why_tests_pass': section('c'), 'files': files,
        'source': 'independent sub-agent given only the property record, a scratch worktree and a list of earlier change sites to avoid',
        'confirmed': {
            'demo_with_change': 'fails (re-run by me in the scratch worktree): ' + conf[0],
            'demo_without_change': 'passes (change taken out with git checkout and re-applied from its diff): ' + conf[1],
            'pinned_suite_with_change': conf[2],
            'how_to_run': 'git -C /repo apply /verif/seeded/%s/patch.diff; cp /verif/seeded/%s/demo_test.py /repo/; (cd /repo && /venv/bin/python -m pytest -q -p no:cacheprovider demo_test.py); rm /repo/demo_test.py; git -C /repo checkout -- .' % (d, d),
            'checks_run': 'tools/harvest_seed.sh (all quick checks against the changed worktree)'},
        'first_run': conf[3].replace('fired:', '').strip(),
        'initially_missed': ('%s[' % prop) not in conf[3],
        'detected_by_now': matrix.get(d, []),
    }
    if d in first:
        meta.update(first[d])
    json.dump(meta, open(mp, 'w'), indent=1)
    print('wrote', mp)
