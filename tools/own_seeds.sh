#!/bin/sh
# Development loop: run one property's quick check against each of its own
# stored seeded changes, each in its own scratch worktree (in parallel).
# Usage: tools/own_seeds.sh C09 [C11 ...]      (the final matrix is
# tools/seed_matrix.sh, which applies the changes to /repo itself)
cd "$(dirname "$0")/.." || exit 2
for P in "$@"; do
  for d in seeded/$P-*/; do
    id=$(basename "$d")
    (
      S=/tmp/wt/_os_$$_$id
      git -C /repo worktree add --detach "$S" HEAD >/dev/null 2>&1 || exit 2
      git -C "$S" apply "$(pwd)/$d/patch.diff" || echo "$id: does not apply"
      out=$(./check $P --tier quick --no-evidence --repo "$S" 2>&1); rc=$?
      rules=$(echo "$out" | grep -E "^  FAILED" | awk '{print $2}' | sort -u | tr '\n' ',' | sed 's/,$//')
      echo "$id: rc=$rc [$rules]"
      git -C /repo worktree remove --force "$S"
    ) &
  done
  wait
done | sort
