#!/bin/sh
# Confirm a sub-agent's seeded change in its scratch worktree and store it.
# Usage: tools/harvest_seed.sh <worktree> <new-id>   (e.g. /tmp/wt/C03-r4 C03-1)
# Re-runs: demo with the change (must fail), demo without (must pass), pinned
# suite with the change (must be 15 failed / 361 passed / 16 skipped), then all
# quick checks against the changed worktree.
W=$1; ID=$2
V=$(cd "$(dirname "$0")/.." && pwd)
[ -f "$W/demo_test.py" ] || { echo "no demo_test.py in $W"; exit 2; }
cd "$W" || exit 2
git diff -- placement > /tmp/harvest_$ID.diff
[ -s /tmp/harvest_$ID.diff ] || { echo "empty diff"; exit 2; }
PY=/venv/bin/python
with=$($PY -m pytest -q -p no:cacheprovider demo_test.py 2>&1 | tail -1)
suite=$($PY -m pytest -q -p no:cacheprovider --timeout=900 --continue-on-collection-errors --ignore=demo_test.py -x --co -q >/dev/null 2>&1; $PY -m pytest -q -p no:cacheprovider --timeout=900 --continue-on-collection-errors --ignore=demo_test.py 2>&1 | tail -1)
fired=$("$V/tools/check_tree.sh" "$W" | grep '^fired')
# (git stash is shared between worktrees: undo and re-apply the diff instead)
git checkout -q -- placement
without=$($PY -m pytest -q -p no:cacheprovider demo_test.py 2>&1 | tail -1)
git apply /tmp/harvest_$ID.diff
echo "demo with change   : $with"
echo "demo without change: $without"
echo "pinned suite       : $suite"
echo "checks             : $fired"
mkdir -p "$V/seeded/$ID"
cp /tmp/harvest_$ID.diff "$V/seeded/$ID/patch.diff"
cp demo_test.py "$V/seeded/$ID/demo_test.py"
[ -f NOTES.md ] && cp NOTES.md "$V/seeded/$ID/NOTES.md"
printf '%s\n%s\n%s\n%s\n' "$with" "$without" "$suite" "$fired" > "$V/seeded/$ID/.confirm.txt"
rm -f /tmp/harvest_$ID.diff
