"""Inter-procedural may-raise analysis.

Exception universe: the class hierarchy of placement/exception.py, webob's
HTTP* family, oslo.db / SQLAlchemy errors named in the source, and builtin
exceptions raised explicitly or by a table of library callables.

raises(f) = explicit raises + callee sets, filtered by the enclosing
``except`` clauses through the class hierarchy; ``raise`` without argument and
``save_and_reraise_exception`` re-raise the caught set.  Fixpoint over the
call graph.  Polymorphic ``raise self._not_found(...)`` is kept symbolic and
resolved at call sites through the receiver's class.
"""
import ast

from psa import model
from psa.model import src

# builtin / library hierarchy (child -> parent)
_PARENT = {
    'BaseException': None,
    'Exception': 'BaseException',
    'ValueError': 'Exception',
    'TypeError': 'Exception',
    'LookupError': 'Exception',
    'KeyError': 'LookupError',
    'IndexError': 'LookupError',
    'ArithmeticError': 'Exception',
    'OverflowError': 'ArithmeticError',
    'UnicodeError': 'ValueError',
    'UnicodeDecodeError': 'UnicodeError',
    'AssertionError': 'Exception',
    'AttributeError': 'Exception',
    'RuntimeError': 'Exception',
    'NotImplementedError': 'RuntimeError',
    'RecursionError': 'RuntimeError',
    'StopIteration': 'Exception',
    'webob.exc.HTTPException': 'Exception',
    'webob.exc.WSGIHTTPException': 'webob.exc.HTTPException',
    'webob.exc.HTTPError': 'webob.exc.WSGIHTTPException',
    'webob.exc.HTTPClientError': 'webob.exc.HTTPError',
    'webob.exc.HTTPServerError': 'webob.exc.HTTPError',
    'oslo_db.exception.DBError': 'Exception',
    'oslo_db.exception.DBDuplicateEntry': 'oslo_db.exception.DBError',
    'oslo_db.exception.DBDeadlock': 'oslo_db.exception.DBError',
    'sqlalchemy.exc.SQLAlchemyError': 'Exception',
    'sqlalchemy.exc.IntegrityError': 'sqlalchemy.exc.SQLAlchemyError',
    'jsonschema.ValidationError': 'Exception',
    'jsonschema.exceptions.ValidationError': 'Exception',
    'oslo_policy.policy.PolicyNotRegistered': 'Exception',
    'oslo_policy.policy.InvalidScope': 'Exception',
    'oslo_policy.policy.PolicyNotAuthorized': 'Exception',
}

WEBOB_STATUS = {
    'HTTPBadRequest': 400, 'HTTPUnauthorized': 401, 'HTTPForbidden': 403,
    'HTTPNotFound': 404, 'HTTPMethodNotAllowed': 405,
    'HTTPNotAcceptable': 406, 'HTTPConflict': 409,
    'HTTPUnsupportedMediaType': 415, 'HTTPInternalServerError': 500,
}

# library callables that raise on bad input: dotted/builtin name -> classes
LIB_RAISES = {
    'uuid.UUID': ('ValueError',),
    # the C scanner recurses on nested arrays/objects: '[' * 100000
    'oslo_serialization.jsonutils.loads': ('ValueError', 'RecursionError'),
    'jsonschema.validate': ('jsonschema.ValidationError',),
    'microversion_parse.parse_version_string': ('TypeError',),
}

def _made_total(call, dotted):
    """uuid.UUID(x) inside the body of ``if <..>is_uuid_like(x):`` cannot
    raise (the test is UUID(x) succeeding)."""
    if dotted != 'uuid.UUID' or not call.args:
        return False
    arg = ast.unparse(call.args[0])
    child = call
    cur = getattr(call, '_parent', None)
    while cur is not None and not isinstance(cur, (ast.FunctionDef,
                                                   ast.Lambda)):
        if isinstance(cur, ast.If) and any(
                child is x or _contains(x, child) for x in cur.body):
            t = cur.test
            if isinstance(t, ast.Call) and ast.unparse(t.func).endswith(
                    'is_uuid_like') and t.args and ast.unparse(
                        t.args[0]) == arg:
                return True
        child = cur
        cur = getattr(cur, '_parent', None)
    return False


def _contains(anc, node):
    cur = node
    while cur is not None:
        if cur is anc:
            return True
        cur = getattr(cur, '_parent', None)
    return False


SELFATTR = 'selfattr:'      # symbolic marker prefix
STATUS_MAP = 'webob.exc.status_map[]'


class Raises(object):
    def __init__(self, prog, cg):
        self.prog = prog
        self.cg = cg
        self.parent = dict(_PARENT)
        for c in prog.classes.values():
            if c.module.name == 'placement.exception' or any(
                    b in self.parent or b in prog.classes for b in c.bases):
                if c.bases:
                    self.parent[c.dotted] = c.bases[0]
        self.summary = {f: set() for f in prog.funcs}
        self.sites = {f: [] for f in prog.funcs}   # (exc, node, via)
        self._fix()

    # -- hierarchy -----------------------------------------------------------
    def ancestors(self, exc):
        out = [exc]
        seen = {exc}
        cur = exc
        while True:
            if cur.startswith('webob.exc.HTTP') and cur not in self.parent:
                nxt = 'webob.exc.HTTPClientError'
                name = cur.rsplit('.', 1)[1]
                if WEBOB_STATUS.get(name, 400) >= 500:
                    nxt = 'webob.exc.HTTPServerError'
            else:
                nxt = self.parent.get(cur)
                if nxt is None and cur not in ('BaseException',):
                    # unknown class: assume a plain Exception subclass
                    nxt = 'Exception' if cur != 'Exception' else \
                        'BaseException'
            if nxt is None or nxt in seen:
                break
            out.append(nxt)
            seen.add(nxt)
            cur = nxt
        return out

    def is_subclass(self, exc, base):
        return base in self.ancestors(exc)

    def caught_by(self, exc, handler_types):
        """handler_types: list of dotted names, or None for bare except."""
        if handler_types is None:
            return True
        if exc.startswith(SELFATTR) or exc == STATUS_MAP:
            # symbolic: caught only by catch-alls / known bases
            if exc == STATUS_MAP:
                return any(t in ('Exception', 'BaseException',
                                 'webob.exc.HTTPException',
                                 'webob.exc.WSGIHTTPException',
                                 'webob.exc.HTTPError')
                           for t in handler_types)
            return any(t in ('Exception', 'BaseException')
                       for t in handler_types)
        anc = self.ancestors(exc)
        return any(t in anc for t in handler_types)

    # -- name resolution -------------------------------------------------------
    def exc_name(self, f, e):
        """Dotted class name of a raised / caught expression, or None."""
        if isinstance(e, ast.Call):
            e = e.func
        if isinstance(e, ast.Subscript):
            d = self.prog.dotted(f.module, e.value, f)
            if d == 'webob.exc.status_map':
                return STATUS_MAP
            return None
        if isinstance(e, ast.Attribute) and isinstance(
                e.value, ast.Name) and e.value.id == 'self':
            return SELFATTR + e.attr
        d = self.prog.dotted(f.module, e, f)
        if d is None:
            return None
        if d in ('jsonschema.exceptions.ValidationError',):
            d = 'jsonschema.ValidationError'
        return d

    def handler_types(self, f, h):
        if h.type is None:
            return None
        ts = h.type.elts if isinstance(h.type, ast.Tuple) else [h.type]
        out = []
        for t in ts:
            d = self.exc_name(f, t)
            out.append(d or src(t))
        return out

    # -- per-function evaluation ---------------------------------------------
    def _fix(self):
        funcs = self.prog.funcs
        for _round in range(30):
            changed = False
            for f in funcs:
                new, sites = self._eval_func(f)
                if new != self.summary[f]:
                    self.summary[f] = new
                    changed = True
                self.sites[f] = sites
            if not changed:
                return
        raise model.AnalysisError('may-raise fixpoint did not converge')

    def _eval_func(self, f):
        sites = []
        out = self._block(f, f.node.body, None, sites, {})
        return out, sites

    def call_raises(self, f, call):
        """Exceptions a call expression may raise (callees + library)."""
        out = set()
        site = self.cg.site_of.get(call)
        if site is None:
            return out
        for g in site.callees:
            for x in self.summary.get(g, ()):
                if x.startswith(SELFATTR):
                    out |= self._resolve_selfattr(x, site, g)
                else:
                    out.add(x)
            # decorators of the callee that may answer first
            for d in g.decorators:
                if d.qname == 'placement.util.require_content':
                    out.add('webob.exc.HTTPUnsupportedMediaType')
                elif d.qname == 'placement.util.check_accept':
                    out.add('webob.exc.HTTPNotAcceptable')
                elif d.qname == 'placement.microversion.version_handler':
                    out.add(STATUS_MAP)
        d = site.dotted
        if site.kind in ('builtin', 'external') and d in LIB_RAISES and \
                not _made_total(call, d):
            out |= set(LIB_RAISES[d])
        return out

    def _resolve_selfattr(self, x, site, g):
        attr = x[len(SELFATTR):]
        out = set()
        classes = []
        for c in site.recv_types:
            cls = self.prog.classes.get(c)
            if cls is not None:
                classes.append(cls)
        if not classes and g.cls is not None:
            # unknown receiver: every subclass of the defining class
            for d in self.prog.subclasses_of(g.cls.dotted):
                classes.append(self.prog.classes[d])
        for cls in classes:
            v = self._class_attr(cls, attr)
            if v is not None:
                d = self.prog.dotted(cls.module, v, None)
                if d:
                    out.add(d)
        if not out:
            out.add(x)
        return out

    def _class_attr(self, cls, attr, seen=None):
        seen = seen or set()
        if cls.dotted in seen:
            return None
        seen.add(cls.dotted)
        v = cls.attrs.get(attr)
        if v is not None and not (isinstance(v, ast.Constant)
                                  and v.value is None):
            return v
        for b in cls.bases:
            bc = self.prog.classes.get(b)
            if bc is not None:
                r = self._class_attr(bc, attr, seen)
                if r is not None:
                    return r
        return None

    def expr_raises(self, f, node, sites, bound):
        """Exceptions raised by evaluating the expressions under node."""
        out = set()
        for n in model.own_nodes_of(node):
            if isinstance(n, ast.Call):
                r = self.call_raises(f, n)
                for x in r:
                    sites.append((x, n, 'call'))
                out |= r
        return out

    def _block(self, f, stmts, caught, sites, bound):
        """Raise set of a statement list.

        caught: set of exceptions being handled (for bare ``raise``), or None.
        bound: name -> set of exceptions for ``except X as name``.
        """
        out = set()
        for st in stmts:
            out |= self._stmt(f, st, caught, sites, bound)
        return out

    def _stmt(self, f, st, caught, sites, bound):
        out = set()
        if isinstance(st, (ast.FunctionDef, ast.AsyncFunctionDef,
                           ast.ClassDef)):
            return out
        if isinstance(st, ast.Raise):
            if st.exc is None:
                out |= set(caught or ())
                for x in caught or ():
                    sites.append((x, st, 'reraise'))
                return out
            if isinstance(st.exc, ast.Name) and st.exc.id in bound:
                out |= bound[st.exc.id]
                return out
            d = self.exc_name(f, st.exc)
            out |= self.expr_raises(f, st.exc, sites, bound)
            callee = st.exc.func if isinstance(st.exc, ast.Call) else st.exc
            if d is None and isinstance(callee, ast.Name) and \
                    callee.id in model.local_names(f):
                # local variable holding an exception class
                found = set()
                for n in model.own_nodes(f.node):
                    if isinstance(n, ast.Assign) and any(
                            isinstance(t, ast.Name) and t.id == callee.id
                            for t in n.targets):
                        dd = self.exc_name(f, n.value)
                        if dd:
                            found.add(dd)
                if found:
                    for dd in found:
                        sites.append((dd, st, 'raise'))
                    return out | found
            if d is not None:
                out.add(d)
                sites.append((d, st, 'raise'))
            else:
                out.add('?' + src(st.exc)[:40])
                sites.append(('?' + src(st.exc)[:40], st, 'raise'))
            return out
        if isinstance(st, ast.Try):
            body = self._block(f, st.body, caught, sites, bound)
            body_else = self._block(f, st.orelse, caught, sites, bound)
            remaining = set(body)
            for h in st.handlers:
                ht = self.handler_types(f, h)
                got = {x for x in remaining if self.caught_by(x, ht)}
                remaining -= got
                b2 = dict(bound)
                if h.name:
                    b2[h.name] = got
                out |= self._block(f, h.body, got, sites, b2)
            out |= remaining | body_else
            if st.finalbody:
                out |= self._block(f, st.finalbody, caught, sites, bound)
            return out
        if isinstance(st, ast.With):
            hdr = set()
            for it in st.items:
                hdr |= self.expr_raises(f, it.context_expr, sites, bound)
            out |= hdr
            out |= self._block(f, st.body, caught, sites, bound)
            from psa.cfg import is_reraise_with
            if is_reraise_with(st):
                out |= set(caught or ())
            return out
        if isinstance(st, ast.If):
            out |= self.expr_raises(f, st.test, sites, bound)
            out |= self._block(f, st.body, caught, sites, bound)
            out |= self._block(f, st.orelse, caught, sites, bound)
            return out
        if isinstance(st, (ast.For, ast.While)):
            out |= self.expr_raises(
                f, st.iter if isinstance(st, ast.For) else st.test, sites,
                bound)
            out |= self._block(f, st.body, caught, sites, bound)
            out |= self._block(f, st.orelse, caught, sites, bound)
            return out
        if isinstance(st, ast.Assert):
            out.add('AssertionError')
            return out
        out |= self.expr_raises(f, st, sites, bound)
        return out

    # -- queries -----------------------------------------------------------
    def escaping(self, f):
        return set(self.summary[f])

    def origins(self, f, exc, _seen=None):
        """Set of (func, node, via) raise / library-call sites from which
        exc can reach f's caller uncaught."""
        _seen = _seen if _seen is not None else set()
        out = set()
        if f in _seen:
            return out
        _seen.add(f)
        if exc not in self.summary.get(f, ()):
            return out
        for x, node, via in self.sites[f]:
            if x != exc and not (x.startswith(SELFATTR) and via == 'raise'):
                continue
            if via in ('raise',):
                if x == exc:
                    out.add((f, node, 'raise'))
                continue
            if via == 'reraise':
                continue
            site = self.cg.site_of.get(node)
            if site is None:
                continue
            lib = True
            for g in site.callees:
                gs = self.summary.get(g, ())
                if exc in gs:
                    lib = False
                    out |= self.origins(g, exc, _seen)
                elif any(y.startswith(SELFATTR) for y in gs) and exc in \
                        self.call_raises(f, node):
                    lib = False
                    out.add((g, g.node, 'polymorphic raise'))
            if lib and site.dotted in LIB_RAISES and exc in LIB_RAISES[
                    site.dotted]:
                out.add((f, node, 'library:' + site.dotted))
        return out

    def witness(self, f, exc, depth=0, seen=None):
        """A call chain (list of 'file:line desc') by which exc escapes f."""
        seen = seen or set()
        if f in seen or depth > 12:
            return []
        seen.add(f)
        for x, node, via in self.sites[f]:
            if x != exc:
                continue
            if via in ('raise', 'reraise'):
                return ['%s raise in %s' % (f.loc(node), f.qname)]
            site = self.cg.site_of.get(node)
            if site is not None:
                for g in site.callees:
                    if exc in self.summary.get(g, ()) or any(
                            y.startswith(SELFATTR)
                            for y in self.summary.get(g, ())):
                        rest = self.witness(g, exc, depth + 1, seen)
                        return ['%s call %s' % (f.loc(node), g.qname)] + rest
                return ['%s library call %s' % (f.loc(node), site.dotted)]
        return []
