"""Obligation recording, known findings, evidence and exit codes."""
import json
import os
import time

from psa import model

VERIF = os.path.dirname(os.path.dirname(os.path.abspath(__file__)))


class Obligation(object):
    __slots__ = ('rule', 'construct', 'ok', 'expected', 'found', 'file',
                 'line', 'path', 'nontrivial')

    def __init__(self, rule, construct, ok, expected='', found='', file=None,
                 line=None, path=None, nontrivial=True):
        self.rule = rule
        self.construct = construct
        self.ok = bool(ok)
        self.expected = expected
        self.found = found
        self.file = file
        self.line = line
        self.path = path
        self.nontrivial = nontrivial

    def as_dict(self):
        d = {'rule': self.rule, 'construct': self.construct,
             'verdict': 'ok' if self.ok else 'VIOLATED',
             'expected': self.expected, 'found': self.found}
        if self.file:
            d['file'] = self.file
            d['line'] = self.line
        if self.path:
            d['path'] = self.path
        return d


class Recorder(object):
    """Collects the obligations of one property run."""

    def __init__(self, prop):
        self.prop = prop
        self.obs = []
        self.instances = {}     # rule -> found count
        self.floors = {}        # rule -> floor
        self.notes = []
        self.metrics = {}

    def ob(self, rule, construct, ok, expected='', found='', func=None,
           node=None, path=None, nontrivial=True, loc=None):
        file = line = None
        if loc is not None:
            file, line = loc
        if func is not None:
            file = func.file
            line = getattr(node, 'lineno', None) or func.line
        o = Obligation(rule, construct, ok, expected, found, file, line, path,
                       nontrivial)
        self.obs.append(o)
        return o.ok

    def count(self, rule, n, floor):
        """Rule instance count against its hand-confirmed floor."""
        self.instances[rule] = self.instances.get(rule, 0) + n
        self.floors[rule] = floor

    def check_floors(self):
        for rule, floor in self.floors.items():
            if self.instances.get(rule, 0) < floor:
                raise model.AnalysisError(
                    'rule %s matched %d instances, fewer than the %d '
                    'confirmed by hand: the checker lost its anchors'
                    % (rule, self.instances.get(rule, 0), floor))

    def note(self, text):
        self.notes.append(text)

    @property
    def failed(self):
        return [o for o in self.obs if not o.ok]


def load_known():
    p = os.path.join(VERIF, 'known_findings.json')
    if not os.path.exists(p):
        return []
    with open(p) as fh:
        return json.load(fh).get('entries', [])


def split_known(prop, failed, known):
    """(known_hits, new_violations). A 'fixed' entry suppresses nothing."""
    hits, new = [], []
    for o in failed:
        k = None
        for e in known:
            if e.get('state') == 'finding' and e.get('property') == prop \
                    and e.get('rule') == o.rule and e.get('construct') == \
                    o.construct:
                k = e
                break
        if k is not None:
            hits.append((o, k))
        else:
            new.append(o)
    return hits, new


TRUSTED_BASE = [
    "CPython's ast module parses the program the interpreter runs",
    "oslo.db enginefacade: a writer/reader scope entered on a context that "
    "already holds a session joins it; the outermost scope commits on normal "
    "exit and rolls back on any exception; reader.independent is separate",
    "the DBMS executes one UPDATE ... WHERE generation = g and one "
    "transaction atomically",
    "wrap_db_retry, webob.dec.wsgify, microversion_parse (Version.matches(min)"
    " <=> min <= v <= max), oslo.policy check strings, jsonschema keyword "
    "semantics, random.sample / slice cardinalities, Python re semantics",
    "the closed model of SQLAlchemy statement constructors in psa/effects.py",
]


def write_evidence(prop, tier, seed, rec, wall, extra, n_viol, controls=None):
    obs = rec.obs
    samples = [o.as_dict() for o in obs if o.nontrivial][:6]
    failed = [o.as_dict() for o in obs if not o.ok]
    distinct = len({(o.rule, o.construct) for o in obs if o.nontrivial})
    cov = {
        'explanation': extra.get('explanation', ''),
        'obligations': len(obs),
        'discharged': len([o for o in obs if o.ok]),
        'evaluations': len(obs),
        'distinct_nontrivial': distinct,
        'rule': 'one obligation per (rule, construct) evaluated on the '
                'resolved program model; non-trivial = bound to a concrete '
                'construct of /repo (function, call site, statement, schema, '
                'route or version), distinct by (rule, construct)',
        'samples': samples + failed[:10],
        'instances': {r: {'found': rec.instances.get(r, 0), 'floor': fl}
                      for r, fl in sorted(rec.floors.items())},
        'model': extra.get('model', {}),
        'controls': controls or [],
        'notes': rec.notes[:40],
        'metrics': rec.metrics,
        'trusted_base': TRUSTED_BASE,
        'exhaustive': False,
        'checker_cmd': './check %s --tier %s' % (prop, tier),
    }
    ev = {
        'property_id': prop, 'tier': tier, 'seed': seed, 'level': 'other',
        'coverage': cov,
        'assumptions': extra.get('assumptions', []) + [
            'the verdict covers the structural clauses named in '
            'coverage.explanation, which are necessary conditions of the '
            'behavioural property, not the behaviour itself'],
        'wall_s': round(wall, 3),
        'violations': n_viol,
    }
    d = os.path.join(VERIF, 'evidence')
    os.makedirs(d, exist_ok=True)
    tmp = os.path.join(d, '.%s.json.tmp' % prop)
    with open(tmp, 'w') as fh:
        json.dump(ev, fh, indent=1, sort_keys=True, default=str)
    os.replace(tmp, os.path.join(d, '%s.json' % prop))
    return ev


def clear_replay(prop):
    p = os.path.join(VERIF, 'evidence', 'replay', '%s.json' % prop)
    if os.path.exists(p):
        os.remove(p)


def write_replay(prop, new, scratch=False):
    d = os.path.join(VERIF, 'evidence', 'replay')
    if scratch:
        # development runs against scratch trees (--no-evidence) do not
        # touch the committed replay files
        d = os.path.join(d, '.scratch')
    os.makedirs(d, exist_ok=True)
    p = os.path.join(d, '%s.json' % prop)
    with open(p, 'w') as fh:
        json.dump({'property': prop,
                   'failed_obligations': [o.as_dict() for o in new]},
                  fh, indent=1, default=str)
    return p
