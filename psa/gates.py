"""Microversion gates: finite-domain abstract evaluation.

Every version predicate in the service is a predicate of one variable whose
domain is the 40 entries of ``microversion.VERSIONS``; the evaluator decides
them for each version.  ``Version.matches(min)`` <=> ``min <= v <= max`` is in
the trusted base.
"""
import ast

from psa import model
from psa.model import Ref, Unknown, src, own_nodes

UNK = Unknown('abs')


def parse_version(s):
    a, b = s.split('.')
    return (int(a), int(b))


class Gate(object):
    """One syntactic version test."""
    __slots__ = ('func', 'node', 'minv', 'kind')

    def __init__(self, func, node, minv, kind):
        self.func = func
        self.node = node
        self.minv = minv      # (1, N)
        self.kind = kind      # 'matches' | 'ge'

    def __repr__(self):
        return '<Gate %s %s %s>' % (self.minv, self.kind,
                                    self.func.loc(self.node))


class Gates(object):
    def __init__(self, prog, cg):
        self.prog = prog
        self.cg = cg
        vs = prog.const('placement.microversion', 'VERSIONS')
        if not isinstance(vs, list) or not all(isinstance(x, str)
                                               for x in vs):
            raise model.AnalysisError('VERSIONS is not a constant list')
        self.version_strings = vs
        self.versions = [parse_version(x) for x in vs]
        self.max_version = self.versions[-1]
        self._gates = {}

    # -- syntactic gates ----------------------------------------------------
    def const_tuple(self, f, e):
        """(1, N) from a literal, a module constant or a class attribute."""
        if isinstance(e, ast.Tuple) and all(
                isinstance(x, ast.Constant) and isinstance(x.value, int)
                for x in e.elts):
            return tuple(x.value for x in e.elts)
        d = self.prog.dotted(f.module, e, f)
        if d and '.' in d:
            head, last = d.rsplit('.', 1)
            try:
                v = self.prog.const(head, last)
            except model.AnalysisError:
                return None
            if isinstance(v, tuple) and all(isinstance(x, int) for x in v):
                return v
        return None

    def gate_of(self, f, e):
        """Gate for a ``matches`` call or ``>=`` comparison, else None."""
        if isinstance(e, ast.Call) and isinstance(e.func, ast.Attribute) \
                and e.func.attr == 'matches':
            arg = None
            if e.args:
                arg = e.args[0]
            for k in e.keywords:
                if k.arg == 'min_version':
                    arg = k.value
            if arg is None:
                return None
            t = self.const_tuple(f, arg)
            if t is None:
                return Gate(f, e, None, 'matches')
            return Gate(f, e, t, 'matches')
        if isinstance(e, ast.Compare) and len(e.ops) == 1 and isinstance(
                e.ops[0], ast.GtE):
            t = self.const_tuple(f, e.comparators[0])
            if t is not None and len(t) == 2 and self._is_version_expr(
                    e.left, f):
                return Gate(f, e, t, 'ge')
        return None

    def _is_version_expr(self, e, f=None):
        """A name holding the request microversion: by naming convention
        (parameters) or because every definition reads the microversion
        environ key."""
        if not isinstance(e, ast.Name):
            return False
        if 'version' in e.id:
            return True
        if f is None:
            return False
        defs = [n for n in own_nodes(f.node) if isinstance(n, ast.Assign)
                and any(isinstance(t, ast.Name) and t.id == e.id
                        for t in n.targets)]
        return bool(defs) and all(
            isinstance(d.value, ast.Subscript) and
            'MICROVERSION_ENVIRON' in ast.unparse(d.value.slice)
            for d in defs)

    def gates_in(self, f):
        if f in self._gates:
            return self._gates[f]
        out = []
        for n in own_nodes(f.node):
            g = self.gate_of(f, n)
            if g is not None:
                out.append(g)
        self._gates[f] = out
        return out

    def holds(self, gate, v):
        return gate.minv <= v <= self.max_version

    # -- abstract evaluation -------------------------------------------------
    def eval(self, f, e, v, env):
        """Evaluate expression under version v. Returns a constant, Ref,
        or UNK."""
        if isinstance(e, ast.Constant):
            return e.value
        if isinstance(e, ast.Name):
            if e.id in env:
                return env[e.id]
            if e.id in ('True', 'False', 'None'):
                return {'True': True, 'False': False, 'None': None}[e.id]
            d = self.prog.dotted(f.module, e, f)
            if d and '.' in d:
                return self._const_or_ref(d)
            return UNK
        if isinstance(e, ast.Attribute):
            d = self.prog.dotted(f.module, e, f)
            if d:
                return self._const_or_ref(d)
            return UNK
        g = self.gate_of(f, e)
        if g is not None:
            if g.minv is None:
                # matches((maj, min)) with loop-bound names
                arg = e.args[0] if e.args else None
                t = self.eval(f, arg, v, env) if arg is not None else UNK
                if isinstance(t, tuple) and all(isinstance(x, int)
                                                for x in t):
                    return t <= v <= self.max_version
                return UNK
            return self.holds(g, v)
        if isinstance(e, ast.Tuple):
            vals = [self.eval(f, x, v, env) for x in e.elts]
            if any(isinstance(x, Unknown) for x in vals):
                return UNK
            return tuple(vals)
        if isinstance(e, ast.UnaryOp) and isinstance(e.op, ast.Not):
            x = self.eval(f, e.operand, v, env)
            if isinstance(x, Unknown):
                return UNK
            return not x
        if isinstance(e, ast.BoolOp):
            vals = [self.eval(f, x, v, env) for x in e.values]
            if isinstance(e.op, ast.And):
                if any(x is False for x in vals):
                    return False
                # "want_version and want_version.matches(..)": an unknown
                # operand that is a bare name is the truthiness guard
                known = [x for x in vals if not isinstance(x, Unknown)]
                if len(known) == len(vals):
                    return vals[-1] if all(vals) else False
                if all(isinstance(ev, ast.Name) for ev, x in zip(
                        e.values, vals) if isinstance(x, Unknown)) and known:
                    return all(known)
                return UNK
            if any(x is True for x in vals):
                return True
            if any(isinstance(x, Unknown) for x in vals):
                return UNK
            return vals[-1]
        if isinstance(e, ast.BinOp) and isinstance(e.op, ast.Mod):
            a = self.eval(f, e.left, v, env)
            b = self.eval(f, e.right, v, env)
            if isinstance(a, str) and not isinstance(b, Unknown):
                try:
                    return a % b
                except Exception:
                    return UNK
            return UNK
        if isinstance(e, ast.Call):
            fn = e.func
            if isinstance(fn, ast.Name) and fn.id == 'getattr' and len(
                    e.args) >= 2:
                base = self.eval(f, e.args[0], v, env)
                name = self.eval(f, e.args[1], v, env)
                if isinstance(name, str):
                    bd = None
                    if isinstance(base, model._ModRef):
                        bd = base.name
                    elif isinstance(base, Ref):
                        bd = base.qname
                    if bd:
                        return self._const_or_ref('%s.%s' % (bd, name))
                return UNK
            # call of a small project function: interpret it
            d = self.prog.dotted(f.module, fn, f)
            tgt = self.prog.lookup(d) if d else None
            if isinstance(tgt, list) and len(tgt) == 1:
                g = tgt[0]
                if len(list(own_nodes(g.node))) < 600:
                    binds = {}
                    for p, a in zip(g.params, e.args):
                        binds[p] = self.eval(f, a, v, env)
                    r = Interp(self, g, v, binds).run()
                    return r.retval
            return UNK
        if isinstance(e, ast.Compare) and len(e.ops) == 1:
            a = self.eval(f, e.left, v, env)
            b = self.eval(f, e.comparators[0], v, env)
            if isinstance(a, Unknown) or isinstance(b, Unknown):
                return UNK
            op = e.ops[0]
            try:
                if isinstance(op, ast.Eq):
                    return a == b
                if isinstance(op, ast.NotEq):
                    return a != b
                if isinstance(op, ast.GtE):
                    return a >= b
                if isinstance(op, ast.Gt):
                    return a > b
                if isinstance(op, ast.LtE):
                    return a <= b
                if isinstance(op, ast.Lt):
                    return a < b
            except Exception:
                return UNK
        return UNK

    def _const_or_ref(self, dotted):
        """Module constants of simple type are folded; everything else is a
        symbolic Ref by dotted name (schemas are compared by name)."""
        if dotted in self.prog.modules:
            return model._ModRef(dotted)
        if '.' in dotted:
            head, last = dotted.rsplit('.', 1)
            if head in self.prog.modules:
                env = self.prog.consteval.module_env(head)
                if last in env:
                    val = env[last]
                    if isinstance(val, (bool, int, str, tuple, float)) or \
                            val is None:
                        return val
                    if isinstance(val, list) and all(
                            isinstance(x, (tuple, str, int)) for x in val):
                        return val
                    return Ref(dotted)
        return Ref(dotted)


class InterpResult(object):
    def __init__(self):
        self.retval = UNK
        self.returned = False
        self.observed = []     # (node, value) for watched calls
        self.env = {}


class Interp(object):
    """Straight-line abstract interpreter for the version-selection idioms:
    assignments of names, ``if``/``elif`` chains on gates, ``for`` over a
    constant list with ``return`` inside, ``return``.  Anything else that
    assigns a tracked name makes it unknown."""

    def __init__(self, gates, f, v, binds=None, watch=None):
        self.g = gates
        self.f = f
        self.v = v
        self.env = dict(binds or {})
        self.watch = watch      # predicate on ast.Call -> index of arg
        self.res = InterpResult()

    def run(self):
        self._block(self.f.node.body)
        self.res.env = self.env
        return self.res

    def _observe(self, st):
        if self.watch is None:
            return
        for n in model.own_nodes_of(st):
            if isinstance(n, ast.Call):
                idx = self.watch(self.f, n)
                if idx is not None and len(n.args) > idx:
                    val = self.g.eval(self.f, n.args[idx], self.v, self.env)
                    self.res.observed.append((self.f, n, val))

    def _block(self, stmts):
        for st in stmts:
            if self.res.returned:
                return
            self._stmt(st)

    def _stmt(self, st):
        if isinstance(st, (ast.FunctionDef, ast.AsyncFunctionDef,
                           ast.ClassDef)):
            return
        if isinstance(st, ast.If):
            self._observe_expr(st.test)
            t = self.g.eval(self.f, st.test, self.v, self.env)
            if t is True or (not isinstance(t, Unknown) and t):
                self._block(st.body)
            elif isinstance(t, Unknown):
                self._both(st.body, st.orelse)
            else:
                self._block(st.orelse)
            return
        if isinstance(st, ast.For):
            it = self.g.eval(self.f, st.iter, self.v, self.env)
            if isinstance(it, (list, tuple)) and not isinstance(
                    it, Unknown):
                for x in it:
                    self._bind(st.target, x)
                    self._block(st.body)
                    if self.res.returned:
                        return
                self._block(st.orelse)
            else:
                self._havoc(st)
                self._observe(st)
            return
        if isinstance(st, (ast.While, ast.With)):
            if isinstance(st, ast.With):
                self._block(st.body)
            else:
                self._havoc(st)
                self._observe(st)
            return
        if isinstance(st, ast.Try):
            self._block(st.body)
            # handlers do not select schemas in this code base; names they
            # assign become unknown
            for h in st.handlers:
                for s2 in h.body:
                    self._havoc(s2)
            self._block(st.orelse)
            self._block(st.finalbody)
            return
        if isinstance(st, ast.Return):
            self._observe(st)
            if st.value is not None:
                self.res.retval = self.g.eval(self.f, st.value, self.v,
                                              self.env)
            else:
                self.res.retval = None
            self.res.returned = True
            return
        if isinstance(st, ast.Raise):
            self.res.returned = True
            self.res.retval = UNK
            return
        self._observe(st)
        if isinstance(st, ast.Assign):
            val = self.g.eval(self.f, st.value, self.v, self.env)
            for t in st.targets:
                self._bind(t, val)
            return
        if isinstance(st, ast.AugAssign):
            self._bind(st.target, UNK)

    def _observe_expr(self, e):
        if self.watch is None:
            return
        for n in model.own_nodes_of(e):
            if isinstance(n, ast.Call):
                idx = self.watch(self.f, n)
                if idx is not None and len(n.args) > idx:
                    val = self.g.eval(self.f, n.args[idx], self.v, self.env)
                    self.res.observed.append((self.f, n, val))

    def _bind(self, target, val):
        if isinstance(target, ast.Name):
            self.env[target.id] = val
        elif isinstance(target, (ast.Tuple, ast.List)):
            if isinstance(val, (tuple, list)) and len(val) == len(
                    target.elts):
                for t, x in zip(target.elts, val):
                    self._bind(t, x)
            else:
                for t in target.elts:
                    self._bind(t, UNK)

    def _havoc(self, st):
        for n in ast.walk(st):
            if isinstance(n, ast.Name) and isinstance(n.ctx, ast.Store):
                self.env[n.id] = UNK

    def _both(self, a, b):
        env0 = dict(self.env)
        r0 = (self.res.returned, self.res.retval)
        self._block(a)
        env_a, ret_a = self.env, (self.res.returned, self.res.retval)
        self.env = dict(env0)
        self.res.returned, self.res.retval = r0
        self._block(b)
        env_b, ret_b = self.env, (self.res.returned, self.res.retval)
        merged = {}
        for k in set(env_a) | set(env_b):
            va, vb = env_a.get(k, UNK), env_b.get(k, UNK)
            merged[k] = va if _same(va, vb) else UNK
        self.env = merged
        if ret_a[0] and ret_b[0]:
            self.res.returned = True
            self.res.retval = ret_a[1] if _same(ret_a[1], ret_b[1]) else UNK
        else:
            self.res.returned = False
            self.res.retval = UNK


def _same(a, b):
    if isinstance(a, Unknown) or isinstance(b, Unknown):
        return False
    try:
        return a == b
    except Exception:
        return False
