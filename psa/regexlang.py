"""Regular-expression languages: anchoring, literal prefix, class inclusion.

Patterns are parsed with CPython's own ``re._parser``; no string is matched.
"""
import re._constants as sre_c
import re._parser as sre_p


class PatternFacts(object):
    def __init__(self, pattern):
        self.pattern = pattern
        self.items = list(sre_p.parse(pattern))
        self.begin_anchor = None     # 'AT_BEGINNING' | 'AT_BEGINNING_STRING'
        self.end_anchor = None       # 'AT_END' | 'AT_END_STRING'
        self.prefix = ''
        self.body = []               # remaining items between anchors
        self._analyse()

    def _analyse(self):
        items = list(self.items)
        if items and items[0][0] is sre_c.AT:
            self.begin_anchor = str(items[0][1])
            items = items[1:]
        if items and items[-1][0] is sre_c.AT:
            self.end_anchor = str(items[-1][1])
            items = items[:-1]
        pre = []
        while items and items[0][0] is sre_c.LITERAL:
            pre.append(chr(items[0][1]))
            items = items[1:]
        self.prefix = ''.join(pre)
        self.body = items

    @property
    def anchored_at_string_start(self):
        # without re.MULTILINE '^' is the start of the string
        return self.begin_anchor in ('AT_BEGINNING', 'AT_BEGINNING_STRING')

    @property
    def anchored_at_string_end(self):
        """True only for \\Z: '$' also matches before a trailing newline."""
        return self.end_anchor == 'AT_END_STRING'

    def single_class_repeat(self):
        """(min, max, set of chars or None) if the body is one repeated
        character class."""
        if len(self.body) != 1:
            return None
        op, av = self.body[0]
        if op not in (sre_c.MAX_REPEAT, sre_c.MIN_REPEAT):
            return None
        lo, hi, sub = av
        sub = list(sub)
        if len(sub) != 1:
            return None
        chars = _class_chars(sub[0])
        return lo, hi, chars

    def top_level_alternation(self):
        return any(op is sre_c.BRANCH for op, _ in self.items)


def _class_chars(item):
    op, av = item
    if op is sre_c.LITERAL:
        return {chr(av)}
    if op is sre_c.IN:
        out = set()
        for o2, a2 in av:
            if o2 is sre_c.LITERAL:
                out.add(chr(a2))
            elif o2 is sre_c.RANGE:
                lo, hi = a2
                if hi - lo > 512:
                    return None
                out.update(chr(c) for c in range(lo, hi + 1))
            else:
                return None      # negation, categories: not a finite class
        return out
    return None
