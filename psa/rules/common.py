"""Helpers shared by the rule modules."""
import ast

from psa import cfg as cfgmod
from psa import model
from psa.model import own_nodes, own_nodes_of, src, enclosing_stmt, Ref

CAN = 'placement.context:RequestContext.can'
WSGIFY = 'placement.wsgi_wrapper.PlacementWsgify'
VERSION_HANDLER = 'placement.microversion.version_handler'


def routes(ctx):
    """[(path, method, [Func variants])] from ROUTE_DECLARATIONS."""
    rd = ctx.prog.const('placement.handler', 'ROUTE_DECLARATIONS')
    if not isinstance(rd, dict) or len(rd) < 10:
        raise model.AnalysisError('ROUTE_DECLARATIONS not a constant dict')
    out = []
    for path, ms in rd.items():
        if not isinstance(ms, dict):
            raise model.AnalysisError('route %r: methods not constant' % path)
        for meth, ref in ms.items():
            if not isinstance(ref, Ref):
                raise model.AnalysisError('route %s %s: handler not a '
                                          'reference' % (meth, path))
            mod, name = ref.qname.rsplit('.', 1)
            fs = ctx.prog.by_qbase.get('%s:%s' % (mod, name))
            if not fs:
                raise model.AnalysisError('route %s %s: handler %s not '
                                          'found' % (meth, path, ref.qname))
            out.append((path, meth, list(fs)))
    return out


def handler_defs(ctx):
    """All distinct routed handler definitions (version variants apart)."""
    seen = []
    for path, meth, fs in routes(ctx):
        for f in fs:
            if f not in seen:
                seen.append(f)
    return seen


def routes_of(ctx, f):
    return [(p, m) for p, m, fs in routes(ctx) if f in fs]


def call_name(ctx, f, call):
    """Qualified name(s) a call resolves to: callee qbase list + dotted."""
    s = ctx.cg.site_of.get(call)
    names = []
    if s is not None:
        names.extend(g.qbase for g in s.callees)
        if s.dotted:
            names.append(s.dotted)
    return names


def calls_matching(ctx, f, pred):
    """Call nodes in f's own body whose resolved names satisfy pred."""
    out = []
    for n in own_nodes(f.node):
        if isinstance(n, ast.Call):
            if any(pred(x) for x in call_name(ctx, f, n)):
                out.append(n)
    return out


def calls_to(ctx, f, *targets):
    ts = set(targets)
    return calls_matching(ctx, f, lambda x: x in ts)


CAN = 'placement.context:RequestContext.can'


def _effect_free_prefix(ctx, f, stmts):
    """Straight-line statements that only authorise: the only call is
    RequestContext.can (subscripts / attribute reads to reach the context
    are allowed)."""
    for st in stmts:
        if not isinstance(st, (ast.Expr, ast.Assign)):
            return False
        if isinstance(st, ast.Assign) and not all(
                isinstance(t, ast.Name) for t in st.targets):
            return False
        for n in ast.walk(st):
            if isinstance(n, (ast.Lambda, ast.Yield, ast.YieldFrom,
                              ast.Await)):
                return False
            if isinstance(n, ast.Call):
                s = ctx.cg.site_of.get(n)
                if s is None or [c.qbase for c in s.callees] != [CAN]:
                    return False
    return True


def delegate_of(ctx, f):
    """A thin wrapper ``[authorise;] return g(req, ...)`` -> g (project
    function).  The statements before the return only run the policy
    check, so the logic of the handler is g's."""
    body = [s for s in f.node.body if not (
        isinstance(s, ast.Expr) and isinstance(s.value, ast.Constant))]
    if body and isinstance(body[-1], ast.Return) and isinstance(
            body[-1].value, ast.Call):
        s = ctx.cg.site_of.get(body[-1].value)
        if s is not None and len(s.callees) == 1 and (
                len(body) == 1 or _effect_free_prefix(ctx, f, body[:-1])):
            return s.callees[0], body[-1].value
    return None, None


def impl_of(ctx, f):
    """The function holding a handler's logic (itself or its delegate)."""
    g, call = delegate_of(ctx, f)
    return (g or f), call


def stmt_of(node):
    return enclosing_stmt(node)


def dominates(f, a_stmt, b_stmt):
    return cfgmod.cfg_of(f).dominates(a_stmt, b_stmt)


def raise_stmts(f, pred=None):
    out = []
    for n in own_nodes(f.node):
        if isinstance(n, ast.Raise) and (pred is None or pred(n)):
            out.append(n)
    return out


def raised_name(ctx, f, r):
    if r.exc is None:
        return None
    return ctx.raises.exc_name(f, r.exc)


def kwarg(call, name):
    for k in call.keywords:
        if k.arg == name:
            return k.value
    return None


def const_str(ctx, f, e):
    """Evaluate a string constant expression (module constant refs)."""
    if e is None:
        return None
    if isinstance(e, ast.Constant) and isinstance(e.value, str):
        return e.value
    d = ctx.prog.dotted(f.module, e, f)
    if d and '.' in d:
        head, last = d.rsplit('.', 1)
        try:
            v = ctx.prog.const(head, last)
        except model.AnalysisError:
            return None
        if isinstance(v, str):
            return v
    return None


class _NegIf(object):
    """View of ``if not X: A else: B`` as ``if X: B else: A``."""
    _fields = ()

    def __init__(self, node):
        self.node = node
        self.test = node.test.operand
        self.body = node.orelse
        self.orelse = node.body
        self.lineno = node.lineno
        self.col_offset = node.col_offset
        self._parent = getattr(node, '_parent', None)


def _norm_if(cur, branch):
    """Negated tests are presented in positive form with the branches
    swapped, so that rules see one shape for both spellings."""
    t = cur.test
    if isinstance(t, ast.UnaryOp) and isinstance(t.op, ast.Not) and \
            cur.orelse:
        v = getattr(cur, '_negview', None)
        if v is None:
            v = cur._negview = _NegIf(cur)
        return v, ('orelse' if branch == 'body' else 'body')
    return cur, branch


def guarding_ifs(node, stop):
    """(If node, branch) pairs enclosing ``node`` up to ``stop`` (a function
    node): branch is 'body' or 'orelse'.  ``if not X: .. else: ..`` is
    returned as its positive mirror image."""
    out = []
    child = node
    if isinstance(node, _NegIf):
        node = child = node.node
    cur = getattr(node, '_parent', None)
    while cur is not None and cur is not stop:
        if isinstance(cur, ast.If):
            if any(child is s for s in cur.body):
                out.append(_norm_if(cur, 'body'))
            elif any(child is s for s in cur.orelse):
                out.append(_norm_if(cur, 'orelse'))
        child = cur
        cur = getattr(cur, '_parent', None)
    return out


def enclosing_trys(node, stop):
    """Try statements whose *body* contains node (innermost first)."""
    out = []
    child = node
    cur = getattr(node, '_parent', None)
    while cur is not None and cur is not stop:
        if isinstance(cur, ast.Try) and any(child is s for s in cur.body):
            out.append(cur)
        child = cur
        cur = getattr(cur, '_parent', None)
    return out


def names_in(node):
    return {n.id for n in ast.walk(node) if isinstance(n, ast.Name)}


def dispatch(ctx, fs, v):
    """The definition microversion._find_method picks at version v: windows
    are tried highest minimum first. Returns (func, status): func is None
    when no window matches and status is the error code of the decorator
    that was applied last (404/405); unversioned handlers always match."""
    from psa.gates import parse_version
    versioned = [f for f in fs if f.version_window is not None]
    if not versioned:
        return (fs[-1], None)
    cands = []
    for f in versioned:
        lo, hi, st = f.version_window
        lo_t = parse_version(lo)
        hi_t = parse_version(hi) if hi else ctx.gates.max_version
        cands.append((lo_t, hi_t, st, f))
    cands.sort(key=lambda x: x[0], reverse=True)
    for lo_t, hi_t, st, f in cands:
        if lo_t <= v <= hi_t:
            return (f, None)
    # the module-level name is bound to the last definition's wrapper
    last = max(versioned, key=lambda f: f.node.lineno)
    return (None, last.version_window[2])


class Pipeline(object):
    """Value-based model of placement.deploy:deploy.

    app_var     the variable the function returns
    values      local name -> sorted dotted values assigned to it (the
                called function for call values, 'None' for None)
    assigns     local name -> Assign nodes
    base        Assign node 'app = PlacementHandler(...)'
    direct      [(Assign, callee values, Call)] for 'app = X(app, ...)'
                outside the loop, in source order
    loop        the For statement wrapping with a tuple of names
    order       [(name, values)] of the tuple, inside-out
    loop_ok     body is 'app = m(app)' guarded only by the truth of m
    ret_ok      single return of app_var dominated by the loop
    """

    def __init__(self, ctx):
        prog = self.prog = ctx.prog
        f = self.func = prog.func('placement.deploy:deploy')
        self.assigns = {}
        self.values = {}
        for n in own_nodes(f.node):
            if isinstance(n, ast.Assign) and len(n.targets) == 1 and \
                    isinstance(n.targets[0], ast.Name):
                self.assigns.setdefault(n.targets[0].id, []).append(n)
        for k, lst in self.assigns.items():
            vs = set()
            for a in lst:
                v = a.value
                if isinstance(v, ast.Constant) and v.value is None:
                    vs.add('None')
                    continue
                e = v.func if isinstance(v, ast.Call) else v
                vs.add(prog.dotted(f.module, e, f) or src(e))
            self.values[k] = sorted(vs)
        rets = [n for n in own_nodes(f.node) if isinstance(n, ast.Return)]
        self.app_var = rets[0].value.id if len(rets) == 1 and isinstance(
            rets[0].value, ast.Name) else None
        app = self.app_var
        self.base = None
        self.direct = []
        self.loop = None
        self.order = []
        self.loop_ok = False
        self.filtered = False
        # the application may start its life under another local name
        # (an expanded helper): app = Middleware(first_name, ...)
        chain = {app}
        for a in self.assigns.get(app, []):
            v = a.value
            if isinstance(v, ast.Call) and v.args and isinstance(
                    v.args[0], ast.Name) and v.args[0].id != app and \
                    self.assigns.get(v.args[0].id):
                chain.add(v.args[0].id)
        for nm in sorted(chain):
            for a in self.assigns.get(nm, []):
                v = a.value
                if not isinstance(v, ast.Call):
                    continue
                if any(isinstance(x, ast.Name) and x.id in chain
                       for x in v.args[:1]):
                    callee = self._vals(v.func)
                    self.direct.append((a, callee, v))
                elif self.base is None:
                    self.base = a
        for lp in [n for n in own_nodes(f.node) if isinstance(n, ast.For)]:
            # the tuple walked: a display, a local bound once to a display,
            # either possibly through filter(None, ...) (skip the Nones)
            it = lp.iter
            filtered = False
            if isinstance(it, ast.Call) and isinstance(
                    it.func, ast.Name) and it.func.id == 'filter' and len(
                        it.args) == 2 and isinstance(
                            it.args[0], ast.Constant) and \
                    it.args[0].value is None:
                it = it.args[1]
                filtered = True
            if isinstance(it, ast.Name) and len(
                    self.assigns.get(it.id, [])) == 1:
                it = self.assigns[it.id][0].value
            if not (isinstance(it, (ast.Tuple, ast.List)) and
                    isinstance(lp.target, ast.Name)):
                continue
            lp_elts = it.elts
            wraps = [a for a, _c, v in self.direct
                     if isinstance(v.func, ast.Name)
                     and v.func.id == lp.target.id and len(v.args) == 1
                     and not v.keywords and _inside(a, lp)]
            if not wraps:
                continue
            self.loop = lp
            # elements: local names (by the values they hold) or dotted
            # middleware classes written in place
            self.order = []
            for x in lp_elts:
                if isinstance(x, ast.Name) and x.id in self.values:
                    self.order.append((x.id, self.values[x.id]))
                else:
                    d = prog.dotted(f.module, x, f)
                    if d:
                        self.order.append((src(x), [d]))
            guards = [n for n in own_nodes_of(lp) if isinstance(n, ast.If)]
            self.loop_ok = len(self.order) == len(lp_elts) and all(
                isinstance(g.test, ast.Name) and g.test.id == lp.target.id
                for g in guards)
            self.filtered = filtered
            self.direct = [d for d in self.direct if d[0] not in wraps]
        g = cfgmod.cfg_of(f)
        self.ret_ok = bool(self.loop is not None and self.app_var and
                           g.dominates(self.loop, rets[0]))
        self.cfg = g

    def _vals(self, e):
        f = self.func
        if isinstance(e, ast.Name) and e.id in self.values:
            return self.values[e.id]
        return [self.prog.dotted(f.module, e, f) or src(e)]

    def position(self, value):
        """Index in the loop order of the middleware holding ``value``."""
        for i, (_n, vs) in enumerate(self.order):
            if value in vs:
                return i
        return None


def _inside(node, anc):
    cur = getattr(node, '_parent', None)
    while cur is not None:
        if cur is anc:
            return True
        cur = getattr(cur, '_parent', None)
    return False


def pipeline(ctx):
    p = getattr(ctx, '_pipeline', None)
    if p is None:
        p = ctx._pipeline = Pipeline(ctx)
    return p


_deps_cache = {}


def depends_on(f, expr, name, depth=3):
    """expr mentions ``name`` directly, through singly-defined locals, or
    through a collection filled from it (loops with add/append, keyed
    stores: common.Deps)."""
    if _depends_on_names(f, expr, name, depth):
        return True
    key = id(f.node)
    if key not in _deps_cache:
        _deps_cache[key] = (f.node, Deps(f))
    return _deps_cache[key][1].reaches(
        expr, lambda x: isinstance(x, ast.Name) and x.id == name)


def _depends_on_names(f, expr, name, depth=3):
    for x in ast.walk(expr):
        if isinstance(x, ast.Name):
            if x.id == name:
                return True
            if depth > 0:
                defs = [n for n in own_nodes(f.node)
                        if isinstance(n, ast.Assign) and any(
                            isinstance(t, ast.Name) and t.id == x.id
                            for t in n.targets)]
                if len(defs) == 1 and defs[0].value is not expr and \
                        _depends_on_names(f, defs[0].value, name, depth - 1):
                    return True
    return False


def ast_copy(node):
    """Copy of an AST subtree without the analysis annotations (_parent
    links would make copy.deepcopy walk the whole module)."""
    if isinstance(node, list):
        return [ast_copy(x) for x in node]
    if not isinstance(node, ast.AST):
        return node
    new = type(node)()
    for fld in node._fields:
        if hasattr(node, fld):
            setattr(new, fld, ast_copy(getattr(node, fld)))
    for a in ('lineno', 'col_offset', 'end_lineno', 'end_col_offset'):
        if hasattr(node, a):
            setattr(new, a, getattr(node, a))
    return new


def psrc(f, node, canon=('self', 'other')):
    """Source of node with f's leading parameters renamed to canonical
    names (position decides, not spelling)."""
    import copy
    m = dict(zip(f.params, canon))
    n2 = ast_copy(node)
    for x in ast.walk(n2):
        if isinstance(x, ast.Name) and x.id in m:
            x.id = m[x.id]
    return ast.unparse(n2)


def reuse_obligations(ctx, R, fn, new_rule, select=None):
    """Run rule function fn(ctx, recorder) on a scratch recorder and copy its
    obligations into R under new_rule (select: predicate on obligations)."""
    from psa import report
    scratch = report.Recorder('scratch')
    fn(ctx, scratch)
    n = 0
    for o in scratch.obs:
        if select is not None and not select(o):
            continue
        n += 1
        R.obs.append(report.Obligation(
            new_rule, o.construct, o.ok, o.expected, o.found, o.file,
            o.line, o.path, o.nontrivial))
    return n


def canon(f, e, depth=0, _seen=None):
    """Canonical, spelling-independent rendering of where a value comes
    from: parameters are argN, loop variables <iter>[], singly defined
    locals are replaced by their definition, calls keep the callee's last
    name.  Used to key reviewed tables by data flow instead of by names."""
    _seen = _seen or set()
    if depth > 10:
        return '?'
    if isinstance(e, ast.Constant):
        return repr(e.value)
    if isinstance(e, ast.Name):
        g = f
        while g is not None:
            if e.id in g.params:
                return '%sarg%d' % ('^' if g is not f else '',
                                    g.params.index(e.id))
            g = g.parent
        if e.id in _seen:
            return '@' + 'rec'
        def loop_binding(nodes):
            for n in nodes:
                pairs = []
                if isinstance(n, ast.For):
                    pairs = [(n.target, n.iter)]
                elif isinstance(n, (ast.ListComp, ast.SetComp, ast.DictComp,
                                    ast.GeneratorExp)):
                    pairs = [(g_.target, g_.iter) for g_ in n.generators]
                for tgt, it in pairs:
                    if e.id in [x.id for x in ast.walk(tgt)
                                if isinstance(x, ast.Name)]:
                        return it
            return None
        defs = [a.value for a in own_nodes(f.node)
                if isinstance(a, ast.Assign) and any(
                    isinstance(t, ast.Name) and t.id == e.id
                    for t in a.targets)]
        # a loop / comprehension that encloses this use binds the name ...
        enclosing = []
        cur = getattr(e, '_parent', None)
        while cur is not None and cur is not f.node:
            enclosing.append(cur)
            cur = getattr(cur, '_parent', None)
        it = loop_binding(enclosing)
        # ... unless the name is (re)assigned inside that same loop
        if it is not None and not any(
                any(a is x for x in ast.walk(enc))
                for enc in enclosing[:1] for a in []):
            inner = [a for a in own_nodes(f.node) if isinstance(a, ast.Assign)
                     and any(isinstance(t, ast.Name) and t.id == e.id
                             for t in a.targets)
                     and any(a is x for enc in enclosing
                             if isinstance(enc, ast.For)
                             for x in ast.walk(enc))]
            if not inner:
                return canon(f, it, depth + 1, _seen | {e.id}) + '[]'
            defs = [a.value for a in inner]
        elif it is None and not defs:
            it = loop_binding(list(ast.walk(f.node)))
            if it is not None:
                return canon(f, it, depth + 1, _seen | {e.id}) + '[]'
        defs = [d for d in defs if not (isinstance(d, ast.Constant)
                                        and d.value is None)]
        if len(defs) == 1:
            return canon(f, defs[0], depth + 1, _seen | {e.id})
        if defs:
            return '{%s}' % '|'.join(sorted(
                canon(f, d, depth + 1, _seen | {e.id}) for d in defs))
        d = None
        try:
            d = f.module and None
        except Exception:
            pass
        return 'global:' + e.id
    if isinstance(e, ast.Attribute):
        return canon(f, e.value, depth + 1, _seen) + '.' + e.attr
    if isinstance(e, ast.Subscript):
        if isinstance(e.slice, ast.Constant) and isinstance(
                e.slice.value, str):
            return canon(f, e.value, depth + 1, _seen) + '[%r]' % \
                e.slice.value
        return canon(f, e.value, depth + 1, _seen) + '[]'
    if isinstance(e, ast.Call):
        fn = e.func.attr if isinstance(e.func, ast.Attribute) else (
            e.func.id if isinstance(e.func, ast.Name) else '?')
        return '%s(%s)' % (fn, ','.join(canon(f, a, depth + 1, _seen)
                                        for a in e.args))
    if isinstance(e, ast.BinOp):
        return '(%s%s%s)' % (canon(f, e.left, depth + 1, _seen),
                             type(e.op).__name__,
                             canon(f, e.right, depth + 1, _seen))
    if isinstance(e, ast.Compare):
        parts = [canon(f, e.left, depth + 1, _seen)]
        for op, c in zip(e.ops, e.comparators):
            parts.append(type(op).__name__)
            parts.append(canon(f, c, depth + 1, _seen))
        return '(%s)' % ' '.join(parts)
    if isinstance(e, ast.BoolOp):
        return '(%s)' % (' %s ' % type(e.op).__name__).join(
            canon(f, v, depth + 1, _seen) for v in e.values)
    if isinstance(e, ast.UnaryOp):
        return '%s(%s)' % (type(e.op).__name__,
                           canon(f, e.operand, depth + 1, _seen))
    if isinstance(e, (ast.Tuple, ast.List, ast.Set)):
        return '[%s]' % ','.join(canon(f, x, depth + 1, _seen)
                                 for x in e.elts)
    if isinstance(e, ast.IfExp):
        return '{%s|%s}' % tuple(sorted([
            canon(f, e.body, depth + 1, _seen),
            canon(f, e.orelse, depth + 1, _seen)]))
    return type(e).__name__


def pos_if(node):
    """(test, body, orelse) of an if statement in positive form:
    ``if not X: A else: B`` is read as ``if X: B else: A``."""
    t = node.test
    if isinstance(t, ast.UnaryOp) and isinstance(t.op, ast.Not) and \
            node.orelse:
        return t.operand, node.orelse, node.body
    return t, node.body, node.orelse


def lits(e, pol, out):
    """Decompose a branch condition into literals: ``a and b`` taken true is
    a+ b+, ``a or b`` taken false is a- b-, ``not a`` flips."""
    if isinstance(e, ast.UnaryOp) and isinstance(e.op, ast.Not):
        lits(e.operand, not pol, out)
    elif isinstance(e, ast.BoolOp) and isinstance(e.op, ast.And) and pol:
        for v in e.values:
            lits(v, True, out)
    elif isinstance(e, ast.BoolOp) and isinstance(e.op, ast.Or) and not pol:
        for v in e.values:
            lits(v, False, out)
    else:
        out.append((e, pol))
    return out


def _terminates(stmts):
    """The statement list never falls through (ends in return / raise /
    continue / break, or an if whose both branches do)."""
    if not stmts:
        return False
    last = stmts[-1]
    if isinstance(last, (ast.Return, ast.Raise, ast.Continue, ast.Break)):
        return True
    if isinstance(last, ast.If) and last.orelse:
        return _terminates(last.body) and _terminates(last.orelse)
    return False


def implicit_guards(node, stop, raising=True):
    """(If, 'orelse') for every earlier sibling ``if c: <never falls
    through>`` without else, at any enclosing block level up to ``stop``:
    the statement only runs when c was false (guard-clause form of
    ``if c: ... else: <rest>``).  Loop bodies are included (continue)."""
    out = []
    child = node
    cur = getattr(node, '_parent', None)
    while cur is not None:
        for fld in ('body', 'orelse', 'finalbody'):
            blk = getattr(cur, fld, None)
            if isinstance(blk, list) and any(child is s for s in blk):
                for s in blk:
                    if s is child:
                        break
                    if isinstance(s, ast.If) and not s.orelse and \
                            _terminates(s.body):
                        if not raising and isinstance(s.body[-1],
                                                      ast.Raise):
                            # a raising guard aborts, it does not skip
                            continue
                        out.append((s, 'orelse'))
        if cur is stop:
            break
        child = cur
        cur = getattr(cur, '_parent', None)
    return out


def skip_conds(node, stop):
    """Literals under which ``node`` is *skipped or selected* inside
    ``stop``: enclosing ifs that do not raise in their other arm, and
    earlier guard clauses that continue / return / break (not those that
    raise: a rejection is not a skip)."""
    out = []
    for i, br in list(guarding_ifs(node, stop)) + implicit_guards(
            node, stop, raising=False):
        lits(i.test, br == 'body', out)
    return out


def conds(node, stop, implicit=False):
    """The branch literals under which ``node`` executes inside ``stop``:
    list of (expr, polarity).  Spelling-independent: nested ifs, merged
    ``and`` conditions, negated tests with swapped branches and (with
    implicit=True) guard clauses all give the same literals."""
    out = []
    pairs = list(guarding_ifs(node, stop))
    if implicit:
        pairs += implicit_guards(node, stop)
    for i, br in pairs:
        lits(i.test, br == 'body', out)
    return out


def outer_if(node, stop):
    """Outermost if statement enclosing node (below stop), or None."""
    ifs = guarding_ifs(node, stop)
    if not ifs:
        return None
    top = ifs[-1][0]
    return getattr(top, 'node', top)


class Deps(object):
    """Intra-procedural value dependencies of a function's local names,
    flow-insensitive: what expressions contribute to a name, through plain
    and tuple assignments, keyed stores (d[k] = v), augmented assignments,
    loop and comprehension targets, container-filling calls
    (append/add/update/extend/setdefault/insert) and with-targets.  Used to
    state data-flow obligations independently of whether a collection is
    built by a loop with stores or by a comprehension."""

    FILL = ('append', 'add', 'update', 'extend', 'setdefault', 'insert')

    def __init__(self, f):
        self.f = f
        self.contrib = {}
        for n in ast.walk(f.node):
            if isinstance(n, ast.Assign):
                for t in n.targets:
                    self._bind(t, n.value)
            elif isinstance(n, ast.AnnAssign) and n.value is not None:
                self._bind(n.target, n.value)
            elif isinstance(n, ast.AugAssign):
                self._bind(n.target, n.value)
            elif isinstance(n, (ast.For, ast.comprehension)):
                self._bind(n.target, n.iter)
            elif isinstance(n, ast.With):
                for it in n.items:
                    if it.optional_vars is not None:
                        self._bind(it.optional_vars, it.context_expr)
            elif isinstance(n, ast.Call) and isinstance(
                    n.func, ast.Attribute) and n.func.attr in self.FILL \
                    and isinstance(n.func.value, ast.Name):
                for a in list(n.args) + [k.value for k in n.keywords]:
                    self._add(n.func.value.id, a)
            elif isinstance(n, ast.NamedExpr):
                self._bind(n.target, n.value)

    def _add(self, name, e):
        self.contrib.setdefault(name, []).append(e)

    def _bind(self, t, v):
        if isinstance(t, ast.Name):
            self._add(t.id, v)
        elif isinstance(t, (ast.Tuple, ast.List)):
            for x in t.elts:
                self._bind(x, v)
        elif isinstance(t, ast.Starred):
            self._bind(t.value, v)
        elif isinstance(t, ast.Subscript) and isinstance(t.value, ast.Name):
            self._add(t.value.id, t.slice)
            self._add(t.value.id, v)

    def reaches(self, expr, pred, _seen=None, depth=0):
        """Some expression contributing to ``expr`` satisfies pred."""
        _seen = _seen if _seen is not None else set()
        if depth > 12:
            return False
        for x in ast.walk(expr):
            if pred(x):
                return True
        for x in ast.walk(expr):
            if isinstance(x, ast.Name) and x.id not in _seen:
                _seen.add(x.id)
                for c in self.contrib.get(x.id, ()):
                    if self.reaches(c, pred, _seen, depth + 1):
                        return True
        return False


RP_MUTATORS = {'add_inventory', 'delete_inventory', 'set_inventory',
               'update_inventory', 'set_aggregates', 'set_traits'}


def _direct_mutations(ctx, f):
    """[(call, receiver expr, method)] for ResourceProvider generation
    mutators called in f's own body."""
    out = []
    for s in ctx.cg.calls_in(f):
        if s.method in RP_MUTATORS and isinstance(
                s.node.func, ast.Attribute) and any(
                    g.cls is not None and g.cls.name == 'ResourceProvider'
                    for g in s.callees):
            out.append((s.node, s.node.func.value, s.method))
    return out


def mutator_sites(ctx, impl, depth=2):
    """[(call node in impl, receiver expression in impl, method name)] for
    the provider mutators impl applies: ``x.set_traits(...)`` directly, or
    through a thin same-package helper that applies the mutator to one of
    its parameters (``_set_traits(x, traits)``), up to ``depth`` levels."""
    out = list(_direct_mutations(ctx, impl))
    if depth <= 0:
        return out
    for s in ctx.cg.calls_in(impl):
        for g in s.callees:
            if g is impl or g.decorators or g.cls is not None or not \
                    g.module.name.startswith('placement.handlers'):
                continue
            for _c, recv, meth in mutator_sites(ctx, g, depth - 1):
                if not (isinstance(recv, ast.Name) and recv.id in g.params):
                    continue
                i = g.params.index(recv.id)
                a = kwarg(s.node, recv.id)
                if a is None and i < len(s.node.args):
                    a = s.node.args[i]
                if a is not None:
                    out.append((s.node, a, meth))
    return out


class _Subst(ast.NodeTransformer):
    def __init__(self, mapping):
        self.mapping = mapping

    def visit_Name(self, node):
        if isinstance(node.ctx, ast.Load) and node.id in self.mapping:
            import copy as _copy
            return ast_copy(self.mapping[node.id])
        return node


def _subst(e, mapping):
    import copy as _copy
    return _Subst(mapping).visit(ast_copy(e))


def builder_view(f, var, scope=None):
    """How the local collection ``var`` is built, independent of spelling:
    a comprehension assigned to it, or the loop idiom (empty initialiser,
    nested for loops, one append/add/keyed store, optional ``if c:
    continue`` guards or enclosing ifs).  Returns a dict with kind
    ('list'/'set'/'dict'), elem (expression; for dicts a (key, value)
    tuple), gens [(target, iter)], conds [(expr, polarity)], stmt (the
    outermost statement of the construction) - or None when the variable is
    not built by exactly one such construction.  Locals defined once inside
    the loops are inlined into elem and conds."""
    scope = scope if scope is not None else f.node
    assigns = [a for a in own_nodes(f.node) if isinstance(a, ast.Assign)
               and any(isinstance(t, ast.Name) and t.id == var
                       for t in a.targets)
               and any(a is x for x in ast.walk(scope))]
    if len(assigns) != 1:
        return None
    a = assigns[0]
    v = a.value
    # set(<genexp>) / list(<genexp>) / dict(<genexp of pairs>)
    if isinstance(v, ast.Call) and isinstance(v.func, ast.Name) and \
            v.func.id in ('set', 'list', 'sorted', 'tuple') and len(
                v.args) == 1 and not v.keywords and isinstance(
                    v.args[0], (ast.GeneratorExp, ast.ListComp,
                                ast.SetComp)):
        kind = 'set' if v.func.id == 'set' else 'list'
        comp = v.args[0]
        return _comp_view(kind, comp, a)
    if isinstance(v, (ast.ListComp, ast.SetComp, ast.DictComp)):
        kind = {'ListComp': 'list', 'SetComp': 'set',
                'DictComp': 'dict'}[type(v).__name__]
        return _comp_view(kind, v, a)
    # loop idiom
    empty = (isinstance(v, ast.List) and not v.elts) or (
        isinstance(v, ast.Dict) and not v.keys) or (
            isinstance(v, ast.Call) and isinstance(v.func, ast.Name)
            and v.func.id in ('set', 'list', 'dict') and not v.args
            and not v.keywords)
    if not empty:
        return None
    fills = []
    for n in own_nodes(f.node):
        if isinstance(n, ast.Call) and isinstance(
                n.func, ast.Attribute) and isinstance(
                    n.func.value, ast.Name) and n.func.value.id == var \
                and n.func.attr in ('append', 'add', 'extend', 'update',
                                    'insert', 'setdefault', 'remove', 'pop',
                                    'discard', 'clear'):
            fills.append(n)
        if isinstance(n, ast.Subscript) and isinstance(
                n.ctx, (ast.Store, ast.Del)) and isinstance(
                    n.value, ast.Name) and n.value.id == var:
            fills.append(n)
        if isinstance(n, ast.AugAssign) and isinstance(
                n.target, ast.Name) and n.target.id == var:
            fills.append(n)
    if len(fills) != 1:
        return None
    fill = fills[0]
    if isinstance(fill, ast.Call) and fill.func.attr in ('append', 'add') \
            and len(fill.args) == 1:
        elem = fill.args[0]
        kind = 'set' if fill.func.attr == 'add' else 'list'
    elif isinstance(fill, ast.AugAssign) and isinstance(
            fill.op, ast.Add) and isinstance(
                fill.value, ast.List) and len(fill.value.elts) == 1:
        # xs += [e]
        elem = fill.value.elts[0]
        kind = 'list'
    elif isinstance(fill, ast.AugAssign) and isinstance(
            fill.op, ast.BitOr) and isinstance(
                fill.value, ast.Set) and len(fill.value.elts) == 1:
        # s |= {e}
        elem = fill.value.elts[0]
        kind = 'set'
    elif isinstance(fill, ast.Subscript) and isinstance(
            fill.ctx, ast.Store) and isinstance(
                getattr(fill, '_parent', None), ast.Assign):
        elem = ast.Tuple(elts=[fill.slice, fill._parent.value],
                         ctx=ast.Load())
        kind = 'dict'
    else:
        return None
    st = fill if isinstance(fill, ast.stmt) else stmt_of(fill)
    loops = []
    cur = getattr(st, '_parent', None)
    while cur is not None and cur is not f.node:
        if isinstance(cur, ast.For):
            loops.append(cur)
        elif isinstance(cur, (ast.While, ast.Try, ast.With)):
            return None
        cur = getattr(cur, '_parent', None)
    if not loops:
        return None
    loops.reverse()
    outer = loops[0]
    for lp in loops:
        if lp.orelse:
            return None
    # breaks change what is collected
    if any(isinstance(x, ast.Break) for x in ast.walk(outer)):
        return None
    # what selects elements: enclosing tests and continue-guards; a guard
    # that raises aborts the whole construction, it filters nothing
    conds_ = skip_conds(st, outer)
    # single-assignment locals inside the loops
    local = {}
    for x in ast.walk(outer):
        if isinstance(x, ast.Assign) and len(x.targets) == 1 and isinstance(
                x.targets[0], ast.Name):
            nm = x.targets[0].id
            local[nm] = None if nm in local else x.value
    local = {k: v_ for k, v_ in local.items() if v_ is not None}
    for _i in range(3):
        local = {k: _subst(v_, {kk: vv for kk, vv in local.items()
                                if kk != k}) for k, v_ in local.items()}
    elem = _subst(elem, local)
    conds_ = [(_subst(e, local), pol) for e, pol in conds_]
    return {'kind': kind, 'elem': elem,
            'gens': [(lp.target, lp.iter) for lp in loops],
            'conds': conds_, 'stmt': outer, 'init': a}


def _comp_view(kind, comp, a):
    cs = []
    for g in comp.generators:
        for c in g.ifs:
            lits(c, True, cs)
    if isinstance(comp, ast.DictComp):
        elem = ast.Tuple(elts=[comp.key, comp.value], ctx=ast.Load())
    else:
        elem = comp.elt
    return {'kind': kind, 'elem': elem,
            'gens': [(g.target, g.iter) for g in comp.generators],
            'conds': cs, 'stmt': a, 'init': a}


def view_key(view, names=None):
    """Canonical text of a builder view: generator variables are renamed
    v0, v1, ... in order; ``names`` maps other local names to placeholders.
    ``kind{elem | v0 in iter; ... ; if cond; if not cond}``"""
    if view is None:
        return None
    ren = dict(names or {})
    k = 0
    for tgt, _it in view['gens']:
        for x in ast.walk(tgt):
            if isinstance(x, ast.Name) and x.id not in ren:
                ren[x.id] = 'v%d' % k
                k += 1

    def r(e):
        import copy as _copy
        e2 = ast_copy(e)
        for x in ast.walk(e2):
            if isinstance(x, ast.Name) and x.id in ren:
                x.id = ren[x.id]
        return ast.unparse(e2)
    gens = '; '.join('%s in %s' % (r(t), r(i)) for t, i in view['gens'])
    def pos(e, pol):
        # a not in b / a != b / a is not b  ->  positive operator, flipped
        flip = {ast.NotIn: ast.In, ast.NotEq: ast.Eq, ast.IsNot: ast.Is}
        if isinstance(e, ast.Compare) and len(e.ops) == 1 and type(
                e.ops[0]) in flip:
            e = ast.Compare(left=e.left, ops=[flip[type(e.ops[0])]()],
                            comparators=e.comparators)
            pol = not pol
        return e, pol
    cs = sorted(('if ' if pol else 'if not ') + r(e)
                for e, pol in (pos(e_, p_) for e_, p_ in view['conds']))
    return '%s{%s | %s%s}' % (view['kind'], r(view['elem']), gens,
                              ''.join('; ' + c for c in cs))


SA_PLAIN_TYPES = {'String', 'Integer', 'Unicode', 'Float', 'DateTime',
                  'Text', 'Boolean', 'BigInteger', 'SmallInteger',
                  'UnicodeText', 'Numeric', 'Enum'}


def plain_column_types(ctx, R, rule):
    """Stored value = bound value.  Every Column of the models module has a
    plain SQLAlchemy type, and no class of the service transforms bound or
    loaded values (TypeDecorator / process_bind_param / ...).  The rules
    that compare request text with stored identifiers in Python (loop
    check, uuid filters) rely on the statement binding exactly the value
    they compared."""
    prog = ctx.prog
    m = prog.module('placement.db.sqlalchemy.models')
    n = 0
    bad = []
    for node in ast.walk(m.tree):
        if isinstance(node, ast.Call) and isinstance(
                node.func, ast.Name) and node.func.id == 'Column' and \
                node.args:
            n += 1
            t = node.args[0]
            if isinstance(t, ast.Constant) and isinstance(t.value, str) \
                    and len(node.args) > 1:
                t = node.args[1]
            for _i in range(3):
                # a type handed through a (class- or module-level) name
                # bound once: what an expanded column helper leaves
                if isinstance(t, ast.Name) and not (
                        prog.dotted(m, t) or '').startswith('sqlalchemy.'):
                    ds = [a.value for a in ast.walk(m.tree)
                          if isinstance(a, ast.Assign) and any(
                              isinstance(x, ast.Name) and x.id == t.id
                              for x in a.targets)]
                    if len(ds) == 1:
                        t = ds[0]
                        continue
                break
            tn = t.func if isinstance(t, ast.Call) else t
            d = prog.dotted(m, tn) or ''
            if not (d.startswith('sqlalchemy.') and d.rsplit('.', 1)[-1]
                    in SA_PLAIN_TYPES):
                bad.append('line %d %s' % (node.lineno, src(t)))
    R.ob(rule, 'models:plain-column-types', not bad,
         'every column has a plain SQLAlchemy type (what a statement binds '
         'is what is stored and compared)', bad[:4] or '%d columns' % n,
         loc=(m.relpath, 1))
    hooks = []
    for mod in prog.modules.values():
        for node in ast.walk(mod.tree):
            if isinstance(node, ast.ClassDef):
                for b in node.bases:
                    if src(b).split('.')[-1] in ('TypeDecorator',
                                                 'UserDefinedType',
                                                 'TypeEngine'):
                        hooks.append('%s:%d class %s' % (
                            mod.relpath, node.lineno, node.name))
            if isinstance(node, ast.FunctionDef) and node.name in (
                    'process_bind_param', 'process_result_value',
                    'bind_processor', 'result_processor',
                    'process_literal_param', 'bind_expression',
                    'column_expression'):
                hooks.append('%s:%d def %s' % (mod.relpath, node.lineno,
                                               node.name))
    R.ob(rule, 'service:no-value-transforming-types', not hooks,
         'no class of the service rewrites bound or loaded column values',
         hooks[:4] or 'none')
    return n


def _defined_names(stmts):
    """Names assigned, augmented, filled or mutated by a method call whose
    result is discarded, anywhere inside the statements."""
    out = set()
    for st in stmts:
        for n in ast.walk(st):
            if isinstance(n, (ast.Assign, ast.AugAssign, ast.AnnAssign)):
                ts = n.targets if isinstance(n, ast.Assign) else [n.target]
                for t in ts:
                    for x in ast.walk(t):
                        if isinstance(x, ast.Name):
                            out.add(x.id)
            elif isinstance(n, ast.Expr) and isinstance(
                    n.value, ast.Call) and isinstance(
                        n.value.func, ast.Attribute) and isinstance(
                            n.value.func.value, ast.Name):
                out.add(n.value.func.value.id)
            elif isinstance(n, ast.For):
                for x in ast.walk(n.target):
                    if isinstance(x, ast.Name):
                        out.add(x.id)
            elif isinstance(n, (ast.Return, ast.Yield)):
                out.add('<ret>')
    return out


class FlowDeps(Deps):
    """Deps plus (a) mutation through a method call whose result is
    discarded (``x.filter(y)`` makes x depend on y), (b) control
    dependence (what is assigned under ``if t`` - or after ``if t:
    continue/return/raise`` in the same block - depends on t) and (c) the
    pseudo-name ``<ret>`` for what the function returns.  ``slice_of_result``
    lists every expression node in the backward slice of the result."""

    def __init__(self, f):
        Deps.__init__(self, f)
        for n in ast.walk(f.node):
            if isinstance(n, ast.Expr) and isinstance(
                    n.value, ast.Call) and isinstance(
                        n.value.func, ast.Attribute) and isinstance(
                            n.value.func.value, ast.Name):
                c = n.value
                for a in list(c.args) + [k.value for k in c.keywords]:
                    self._add(c.func.value.id, a)
            elif isinstance(n, (ast.Return, ast.Yield)) and \
                    n.value is not None:
                self._add('<ret>', n.value)
            elif isinstance(n, ast.If):
                names = _defined_names(n.body) | _defined_names(n.orelse)
                if not n.orelse and _terminates(n.body) or (
                        n.orelse and (_terminates(n.body)
                                      or _terminates(n.orelse))):
                    par = getattr(n, '_parent', None)
                    for fld in ('body', 'orelse', 'finalbody'):
                        blk = getattr(par, fld, None)
                        if isinstance(blk, list) and any(
                                n is x for x in blk):
                            i = [k for k, x in enumerate(blk) if x is n][0]
                            names |= _defined_names(blk[i + 1:])
                            # leaving a loop body early also affects what
                            # the loop computes afterwards in this function
                for nm in names:
                    self._add(nm, n.test)
            elif isinstance(n, (ast.For, ast.While)):
                src_e = n.iter if isinstance(n, ast.For) else n.test
                for nm in _defined_names(n.body):
                    self._add(nm, src_e)

    def slice_of_result(self):
        seen = []
        self.reaches(ast.Name(id='<ret>', ctx=ast.Load()),
                     lambda x: seen.append(x) and False)
        return seen


def arg_for_param(call, callee, pname):
    """The argument expression a call binds to the callee's parameter
    ``pname`` (positional or keyword; self/cls of methods skipped)."""
    kw = kwarg(call, pname)
    if kw is not None:
        return kw
    ps = list(callee.params)
    if callee.cls is not None and ps and ps[0] in ('self', 'cls') and \
            isinstance(call.func, ast.Attribute):
        ps = ps[1:]
    if pname in ps and ps.index(pname) < len(call.args):
        return call.args[ps.index(pname)]
    return None


def _in_handler(node, stop):
    cur = getattr(node, '_parent', None)
    while cur is not None and cur is not stop:
        if isinstance(cur, ast.ExceptHandler):
            return True
        cur = getattr(cur, '_parent', None)
    return False


def flag_gate(ctx, f, test):
    """The single positive version gate a test stands for: the test itself,
    or - through locals, helper parameters and fields of a record built
    from version predicates - what it was bound to.  None when it is not
    exactly one positive gate."""
    from psa.gates import Gate
    g = ctx.gates.gate_of(f, test)
    if g is not None:
        return g
    from psa.rules import c14
    gs = c14._gates_of_test(ctx, f, test)
    mins = {(m, p) for m, p in gs}
    if len(mins) == 1 and list(mins)[0][1]:
        return Gate(f, test, list(mins)[0][0], 'matches')
    return None


def inline_locals(f, e, depth=3):
    """A copy of e in which every local that is assigned exactly once in f
    (and is not a parameter or a comprehension / loop variable) is replaced
    by what it was assigned, repeatedly up to ``depth``: the expression as
    it reads without its intermediate names."""
    from psa import pathval
    bound = set(f.params)
    for n in own_nodes(f.node):
        if isinstance(n, (ast.For, ast.comprehension)):
            for x in ast.walk(n.target):
                if isinstance(x, ast.Name):
                    bound.add(x.id)
    counts = {}
    vals = {}
    for n in own_nodes(f.node):
        if isinstance(n, ast.Assign):
            for t in n.targets:
                for x in ast.walk(t):
                    if isinstance(x, ast.Name) and isinstance(
                            x.ctx, ast.Store):
                        counts[x.id] = counts.get(x.id, 0) + 1
                if isinstance(t, ast.Name):
                    vals[t.id] = n.value
        elif isinstance(n, (ast.AugAssign, ast.AnnAssign)) and isinstance(
                n.target, ast.Name):
            counts[n.target.id] = counts.get(n.target.id, 0) + 2
    env = {k: v for k, v in vals.items()
           if counts.get(k) == 1 and k not in bound}
    out = e
    for _i in range(depth):
        new = pathval.subst(out, env)
        if ast.dump(new) == ast.dump(out):
            break
        out = new
    return out


class _FuseComps(ast.NodeTransformer):
    """``{f(x) for x in [g(y) for y in ys]}`` is ``{f(g(y)) for y in ys}``
    (the inner comprehension has one generator, the outer target is a plain
    name; conditions of the inner one are kept in front)."""

    def _fuse(self, node):
        self.generic_visit(node)
        if len(node.generators) != 1:
            return node
        g = node.generators[0]
        inner = g.iter
        if not (isinstance(g.target, ast.Name) and isinstance(
                inner, (ast.ListComp, ast.GeneratorExp)) and len(
                    inner.generators) == 1):
            return node
        from psa import pathval
        env = {g.target.id: inner.elt}

        def sub(e):
            return pathval.subst(e, env)
        ig = inner.generators[0]
        # the inner conditions first (they decide which elements exist),
        # then the outer ones on the mapped element
        new_gen = ast.comprehension(target=ig.target, iter=ig.iter,
                                    ifs=list(ig.ifs) + [
                                        sub(c) for c in g.ifs],
                                    is_async=0)
        if isinstance(node, ast.DictComp):
            return ast.DictComp(key=sub(node.key), value=sub(node.value),
                                generators=[new_gen])
        return type(node)(elt=sub(node.elt), generators=[new_gen])

    visit_ListComp = visit_SetComp = visit_GeneratorExp = visit_DictComp = \
        _fuse


def fuse_comprehensions(e):
    return ast.fix_missing_locations(_FuseComps().visit(ast_copy(e)))
