"""C11 - reads report exactly the state produced by the successful writes
(writer/reader agreement clauses only)."""
import ast
import re

from psa import cfg as cfgmod
from psa import model
from psa.model import own_nodes, own_nodes_of, src
from psa.rules import common as C

EXPLANATION = (
    "C11 as a whole (every response equals a reference model of the API over "
    "all histories) quantifies over runtime values and is not decided. What "
    "is decided are the table-agreement clauses that are necessary for it and "
    "whose truth is in the shape of the code: R11.1 every column written by "
    "an INSERT/UPDATE .values(col=obj.attr) takes the same-named attribute "
    "(or an entry of a reviewed table for ids and generations); R11.2 every "
    "label of a reader SELECT that feeds API objects names its own column "
    "(consumer_generation <- consumers.generation ...); R11.3 every object "
    "built from such a record takes, for field k, the record key k or "
    "<entity>_k of its own entity; R11.4 the serialisers emit each response "
    "key from the reviewed attribute (frozen key <- attribute table) and the "
    "inventory field list accepted by the schema, defaulted, stored, "
    "selected and emitted is one and the same set; R11.5 the three usage "
    "views and the two allocation views are SUM(allocations.used) / rows of "
    "allocations joined on the reviewed keys (frozen SQL shapes); R11.6 the "
    "success status of every route is the api-ref 'Normal Response Codes'.")
ASSUMPTIONS = [
    "decides agreement of tables, labels and field names between the write "
    "path, the read path and the serialisers; it does not decide the values "
    "computed from them nor the order of histories",
]

OBJ = 'placement.objects.'
# (table, column) -> reviewed canonical sources (common.canon) for columns
# that do not take a same-named attribute
WRITE_TABLE = {
    ('allocations', 'resource_class_id'):
        {'id_from_string(arg1[].resource_class)'},
    ('allocations', 'consumer_id'): {'arg1[].consumer.uuid'},
    ('inventories', 'resource_provider_id'): {'arg1.id'},
    ('inventories', 'resource_class_id'): {'arg3[]'},
    ('consumers', 'generation'): {'(arg0.generationAdd1)'},
    ('resource_providers', 'generation'): {'(arg0.generationAdd1)'},
    ('placement_aggregates', 'uuid'): {'arg1'},
    ('resource_provider_aggregates', 'resource_provider_id'): {'arg1.id'},
    ('resource_provider_aggregates', 'aggregate_id'): {'items()[]'},
    ('resource_provider_traits', 'resource_provider_id'): {'arg1'},
    ('resource_provider_traits', 'trait_id'): {'arg2[]'},
    ('consumer_types', 'name'): {'arg1'},
    # online migration of rows from before nested providers: a provider
    # without a recorded root is its own root (the row's own id column)
    ('resource_providers', 'root_provider_id'): {'global:_RP_TBL.c.id'},
    ('projects', 'external_id'):
        {'arg0.config.placement.incomplete_consumer_project_id'},
    ('users', 'external_id'):
        {'arg0.config.placement.incomplete_consumer_user_id'},
}
# reader functions whose rows become API objects
READERS = [
    OBJ + 'allocation:_get_allocations_by_provider_id',
    OBJ + 'allocation:_get_allocations_by_consumer_uuid',
    OBJ + 'consumer:_get_consumer_by_uuid',
    OBJ + 'resource_provider:_get_provider_by_uuid',
    OBJ + 'resource_provider:_get_all_by_filters_from_db',
    OBJ + 'inventory:_get_inventory_by_provider_id',
]
# table -> entity prefixes a label may carry
ENTITY = {
    'consumers': ['consumer'],
    'projects': ['project'],
    'users': ['user'],
    'resource_providers': ['resource_provider', 'root_provider',
                           'parent_provider'],
    'allocations': [''],
    'inventories': [''],
}
CLASS_PREFIX = {
    'Consumer': 'consumer_', 'Project': 'project_', 'User': 'user_',
    'ResourceProvider': 'resource_provider_', 'Allocation': '',
    'Inventory': '',
}
SHAPES = [
    OBJ + 'usage:_get_all_by_resource_provider_uuid',
    OBJ + 'usage:_get_all_by_project_user',
    OBJ + 'usage:_get_by_consumer_type',
    OBJ + 'allocation:_get_allocations_by_provider_id',
    OBJ + 'allocation:_get_allocations_by_consumer_uuid',
    OBJ + 'inventory:_get_inventory_by_provider_id',
    OBJ + 'consumer:_get_consumer_by_uuid',
]
# routes the api-ref does not document (code is the reference; listed so that
# a new undocumented route is reported)
UNDOCUMENTED = {
    ('POST', '/resource_providers/{uuid}/inventories'):
        'legacy single-inventory creation, never documented upstream',
}


def _path(e):
    """a.b.c -> ['a', 'b', 'c'] for Name/Attribute chains, else None."""
    out = []
    while isinstance(e, ast.Attribute):
        out.append(e.attr)
        e = e.value
    if isinstance(e, ast.Name):
        out.append(e.id)
        return out[::-1]
    return None


# ---------------------------------------------------------------- R11.1
def r111(ctx, R):
    E = ctx.effects
    n = 0
    for f in ctx.prog.funcs:
        for e in E.direct.get(f, []):
            if e.op not in 'IU' or e.build is None:
                continue
            for c in ast.walk(e.build):
                kws = []
                if isinstance(c, ast.Call) and isinstance(
                        c.func, ast.Attribute) and c.func.attr == 'values':
                    kws = c.keywords
                elif isinstance(c, ast.Call) and (ctx.prog.dotted(
                        f.module, c.func, f) or '').startswith(
                            'placement.db.sqlalchemy.models.'):
                    kws = c.keywords
                for k in kws:
                    if k.arg is None:
                        continue
                    n += 1
                    got = C.canon(f, k.value)
                    m = re.search(r'((?:\.\w+)+)$', got)
                    same = m is not None and '_'.join(
                        m.group(1).strip('.').split('.')) == k.arg
                    want = WRITE_TABLE.get((e.table, k.arg))
                    if m is None and want is None and not re.search(
                            r'\.[A-Za-z_]', got):
                        # a bare value for a column without a reviewed
                        # source: nothing contradicts the column name
                        ok = True
                    elif m is None and want is None:
                        # computed from attributes of the object, but not
                        # the plain same-named attribute (x.a or default,
                        # x.a + 1 ...): what is stored is not what was given
                        ok = False
                    else:
                        # parameter positions are not part of the reviewed
                        # source (a private helper's parameters may be
                        # reordered): argN is compared as 'arg'
                        def _m(x):
                            return re.sub(r'arg\d+', 'arg', x)
                        ok = same or _m(got) in {_m(w) for w in
                                                 (want or set())}
                    want = want or set()
                    R.ob('R11.1', '%s:%s.%s' % (f.qbase, e.table, k.arg), ok,
                         'a stored column takes the same-named attribute of '
                         'the object being written (or the reviewed source)',
                         '%s <- %s%s' % (k.arg, got, '' if ok else
                                         ' (reviewed: %s)' % sorted(want)),
                         func=f, node=k.value)
    R.count('R11.1', n, 35)


# ---------------------------------------------------------------- R11.2
def _labels(ctx, f):
    """{label: (table, column)} of f's SELECT plus unlabelled columns."""
    out = {}
    E = ctx.effects
    for c in own_nodes(f.node):
        if isinstance(c, ast.Call) and isinstance(
                c.func, ast.Attribute) and c.func.attr == 'label' and \
                c.args and isinstance(c.args[0], ast.Constant):
            col = c.func.value
            if isinstance(col, ast.Attribute) and isinstance(
                    col.value, ast.Attribute) and col.value.attr == 'c':
                t = E.table_of(f, col.value.value)
                out[c.args[0].value] = (t, col.attr, c)
    return out


def r112(ctx, R):
    n = 0
    for q in READERS:
        f = ctx.prog.func(q)
        labs = _labels(ctx, f)
        for lab, (t, col, node) in sorted(labs.items()):
            n += 1
            prefixes = ENTITY.get(t)
            ok = False
            if prefixes is not None:
                for p in prefixes:
                    if lab == (p + '_' + col if p else col):
                        ok = True
                    # root_provider_uuid <- root.uuid: the entity prefix
                    # stands for the aliased provider row
                    if p and lab == p + '_' + col:
                        ok = True
            R.ob('R11.2', '%s:label:%s' % (f.qbase, lab), ok,
                 'a label of a reader query names the column it carries '
                 '(<entity>_<column> of the table the column belongs to)',
                 '%s <- %s.%s' % (lab, t, col), func=f, node=node)
    R.count('R11.2', n, 20)


# ---------------------------------------------------------------- R11.3
def r113(ctx, R):
    prog = ctx.prog
    all_labels = set()
    for q in READERS:
        all_labels |= set(_labels(ctx, prog.func(q)))
    n = 0
    for f in prog.funcs:
        if not f.module.name.startswith(OBJ):
            continue
        for c in own_nodes(f.node):
            if not (isinstance(c, ast.Call) and c.keywords):
                continue
            cls = src(c.func).rsplit('.', 1)[-1]
            if cls not in CLASS_PREFIX:
                continue
            for k in c.keywords:
                v = k.value
                if not (k.arg and isinstance(v, ast.Subscript) and isinstance(
                        v.slice, ast.Constant) and isinstance(
                            v.slice.value, str) and isinstance(
                                v.value, ast.Name)):
                    continue
                n += 1
                L = v.slice.value
                P = CLASS_PREFIX[cls]
                if P and (P + k.arg) in all_labels:
                    ok = L == P + k.arg
                else:
                    ok = L in (k.arg, P + k.arg)
                R.ob('R11.3', '%s:%s.%s' % (f.qbase, cls, k.arg), ok,
                     'an object built from a database record takes field k '
                     'from the record key k / <entity>_k of its own entity',
                     '%s(%s=%s[%r])' % (cls, k.arg, v.value.id, L), func=f,
                     node=k.value)
    R.count('R11.3', n, 30)


# ---------------------------------------------------------------- R11.4
SERIALISERS = {
    'placement.handlers.allocation:_serialize_allocations_for_consumer': {
        'resources[]': 'arg1[].used',
        'generation': 'arg1[].resource_provider.generation',
        'project_id': 'arg1[].consumer.project.external_id',
        'user_id': 'arg1[].consumer.user.external_id',
        'consumer_generation': 'arg1[].consumer.generation',
        'consumer_type':
            'string_from_id(arg1[].consumer.consumer_type_id)',
    },
    'placement.handlers.resource_provider:_serialize_provider': {
        'uuid': 'arg1.uuid',
        'name': 'arg1.name',
        'generation': 'arg1.generation',
        'parent_provider_uuid': 'arg1.parent_provider_uuid',
        'root_provider_uuid': 'arg1.root_provider_uuid',
        'links': '_serialize_links(arg0,arg1)',
    },
    'placement.handlers.usage:_serialize_usages': {
        'resource_provider_generation': 'arg0.generation',
    },
    'placement.handlers.allocation:'
    '_serialize_allocations_for_resource_provider': {
        'resources[]': 'arg0[].used',
        'consumer_generation': 'arg0[].consumer.generation',
        'resource_provider_generation': 'arg1.generation',
    },
}


def _resolve_attr(f, e, depth=0):
    """Attribute path an expression denotes, following singly-defined
    locals and calls that wrap one attribute argument."""
    if isinstance(e, ast.Name) and depth < 8:
        defs = [a.value for a in own_nodes(f.node) if isinstance(a, ast.Assign)
                and any(isinstance(t, ast.Name) and t.id == e.id
                        for t in a.targets)]
        vals = {_resolve_attr(f, d, depth + 1) for d in defs
                if not (isinstance(d, ast.Constant) and d.value is None)}
        vals.discard(None)
        if len(vals) == 1:
            return vals.pop()
        return e.id if not defs else None
    if isinstance(e, ast.Attribute):
        base = _resolve_attr(f, e.value, depth + 1) if isinstance(
            e.value, ast.Name) else _resolve_attr(f, e.value, depth)
        return '%s.%s' % (base, e.attr) if base else None
    if isinstance(e, ast.Subscript):
        return _resolve_attr(f, e.value, depth)
    if isinstance(e, ast.Call):
        for a in e.args:
            r = _resolve_attr(f, a, depth + 1)
            if r and '.' in r:
                return r
    return None


def r114(ctx, R):
    prog = ctx.prog
    n = 0
    for q, want in sorted(SERIALISERS.items()):
        f = prog.func(q)
        got = {}
        for a in own_nodes(f.node):
            if not isinstance(a, ast.Assign):
                continue
            for t in a.targets:
                if not isinstance(t, ast.Subscript):
                    continue
                if isinstance(t.slice, ast.Constant) and isinstance(
                        t.slice.value, str):
                    key = t.slice.value
                elif isinstance(t.value, ast.Subscript) and isinstance(
                        t.value.slice, ast.Constant):
                    key = '%s[]' % t.value.slice.value
                else:
                    continue
                if isinstance(a.value, (ast.Dict, ast.Constant)):
                    continue
                got.setdefault(key, set()).add(C.canon(f, a.value))
        # dict literals: {'k': expr}
        for d in own_nodes(f.node):
            if isinstance(d, ast.Dict):
                for k, v in zip(d.keys, d.values):
                    if isinstance(k, ast.Constant) and isinstance(
                            k.value, str) and not isinstance(
                                v, (ast.Dict, ast.Constant, ast.DictComp,
                                    ast.Name)):
                        got.setdefault(k.value, set()).add(C.canon(f, v))
        for key, attr in sorted(want.items()):
            n += 1
            R.ob('R11.4', '%s:%s' % (f.qbase.split(':')[1], key),
                 got.get(key) == {attr},
                 'response key %r is emitted from %s' % (key, attr),
                 sorted(got.get(key, [])), func=f)
        extra = sorted(k for k in got if k not in want and k != 'resources')
        R.ob('R11.4', '%s:no-other-keys' % f.qbase.split(':')[1], not extra,
             'no response key outside the reviewed table is emitted',
             extra, func=f, nontrivial=False)
    # inventory: one field list from schema to response
    sch = prog.const('placement.schemas.inventory', 'BASE_INVENTORY_SCHEMA')
    fields = set(sch['properties']) - {'resource_provider_generation'}
    required = set(sch['required']) - {'resource_provider_generation'}
    dflt = prog.const('placement.handlers.inventory', 'INVENTORY_DEFAULTS')
    outf = prog.const('placement.handlers.inventory',
                      'OUTPUT_INVENTORY_FIELDS')
    n += 1
    R.ob('R11.4', 'inventory:defaults-cover-optional-fields',
         set(dflt) == fields - required,
         'every optional inventory field has a default and nothing else has',
         'defaults %s optional %s' % (sorted(dflt), sorted(fields -
                                                            required)))
    R.ob('R11.4', 'inventory:output-fields', sorted(outf) == sorted(fields)
         and len(outf) == len(set(outf)),
         'the fields emitted are exactly the fields accepted',
         'emitted %s accepted %s' % (sorted(outf), sorted(fields)))
    for k, v in sorted(dflt.items()):
        p = sch['properties'][k]
        ok = isinstance(v, (int, float)) and v >= p.get(
            'minimum', v) and v <= p.get('maximum', v)
        R.ob('R11.4', 'inventory:default-%s-valid' % k, ok,
             'a default satisfies the schema bounds of its field',
             '%r within %s' % (v, {x: p.get(x) for x in ('minimum',
                                                         'maximum')}),
             nontrivial=False)
    ser = prog.func('placement.handlers.inventory:_serialize_inventory')
    comp = [d for d in own_nodes(ser.node) if isinstance(d, ast.DictComp)]
    okc = False
    if len(comp) == 1:
        d = comp[0]
        gen = d.generators[0]
        okc = src(gen.iter) == 'OUTPUT_INVENTORY_FIELDS' and not gen.ifs \
            and src(d.key) == src(gen.target) and isinstance(
                d.value, ast.Call) and src(d.value.func) == 'getattr' and \
            src(d.value.args[1]) == src(gen.target) and src(
                d.value.args[0]) == ser.params[0]
    # (the engine presents a comprehension over a literal table as the
    # display it builds)
    disp = [d for d in own_nodes(ser.node) if isinstance(d, ast.Dict)
            and d.keys and len(d.keys) == len(outf)]
    if not comp and len(disp) == 1:
        d = disp[0]
        okc = all(isinstance(k, ast.Constant) and isinstance(
            v, ast.Attribute) and v.attr == k.value and src(
                v.value) == ser.params[0]
            for k, v in zip(d.keys, d.values)) and sorted(
                k.value for k in d.keys) == sorted(outf)
    R.ob('R11.4', 'inventory:serialiser-is-identity', okc,
         'each emitted field is the same-named attribute of the inventory',
         [src(c)[:80] for c in comp], func=ser)
    # the selected columns cover the fields; the object keeps them verbatim
    rd = prog.func(OBJ + 'inventory:_get_inventory_by_provider_id')
    cols = set()
    for c in own_nodes(rd.node):
        if isinstance(c, ast.Attribute) and isinstance(
                c.value, ast.Attribute) and c.value.attr == 'c' and \
                isinstance(c.ctx, ast.Load):
            cols.add(c.attr)
    R.ob('R11.4', 'inventory:selected-columns', fields <= cols,
         'the inventory reader selects every API field',
         sorted(fields - cols) or 'all selected', func=rd)
    init = prog.func(OBJ + 'inventory:Inventory.__init__')
    kept = {}
    for a in own_nodes(init.node):
        if isinstance(a, ast.Assign) and isinstance(
                a.targets[0], ast.Attribute) and src(
                    a.targets[0].value) == init.params[0]:
            kept[a.targets[0].attr] = src(a.value)
    bad = sorted(k for k in fields if kept.get(k) != k)
    R.ob('R11.4', 'inventory:object-keeps-fields', not bad,
         'Inventory stores each constructor argument under its own name',
         bad or 'identity', func=init)
    # provider objects copy same-named record fields
    fdb = prog.func(OBJ + 'resource_provider:ResourceProvider._from_db_object')
    okp = False
    loops = [x for x in own_nodes(fdb.node) if isinstance(x, ast.For)]
    if len(loops) == 1 and isinstance(loops[0].iter, (ast.List, ast.Tuple)):
        lp = loops[0]
        names = [e.value for e in lp.iter.elts if isinstance(e, ast.Constant)]
        sets = [c for c in own_nodes_of(lp) if isinstance(c, ast.Call)
                and src(c.func) == 'setattr']
        okp = {'uuid', 'name', 'generation', 'root_provider_uuid',
               'parent_provider_uuid'} <= set(names) and len(sets) == 1 and \
            src(sets[0].args[1]) == src(lp.target) and isinstance(
                sets[0].args[2], ast.Subscript) and src(
                    sets[0].args[2].slice) == src(lp.target)
    R.ob('R11.4', 'provider:object-keeps-fields', okp,
         'a provider object takes uuid, name, generation, parent and root '
         'uuid from the same-named record keys', [src(x.iter)[:80]
                                                  for x in loops], func=fdb)
    # usages: class -> usage of the same Usage object
    su = prog.func('placement.handlers.usage:_serialize_usages')
    dc = [d for d in own_nodes(su.node) if isinstance(d, ast.DictComp)]
    oku = len(dc) == 1 and src(dc[0].key) == '%s.resource_class' % src(
        dc[0].generators[0].target) and src(dc[0].value) == '%s.usage' % src(
            dc[0].generators[0].target) and not dc[0].generators[0].ifs and \
        src(dc[0].generators[0].iter) == su.params[1]
    R.ob('R11.4', 'usages:class-to-usage', oku,
         'usages maps each Usage.resource_class to that object\'s usage, '
         'for every Usage', [src(d)[:80] for d in dc], func=su)
    R.count('R11.4', n, 10)


# ---------------------------------------------------------------- R11.5
def r115(ctx, R):
    from psa import sqlshape
    n = sqlshape.shape_rule(ctx, R, 'R11.5', SHAPES)
    # the usage value handed to Usage() is the aggregate column
    prog = ctx.prog
    for q in (OBJ + 'usage:_get_all_by_resource_provider_uuid',
              OBJ + 'usage:_get_all_by_project_user',
              OBJ + 'usage:_get_by_consumer_type'):
        f = prog.func(q)
        qcalls = [c for c in own_nodes(f.node) if isinstance(c, ast.Call)
                  and isinstance(c.func, ast.Attribute)
                  and c.func.attr == 'query' and len(c.args) >= 2]
        pos = None
        ok = bool(qcalls)
        for c in qcalls[:1]:
            for i, a in enumerate(c.args):
                if 'func.sum(' in src(a) and src(a).replace(
                        ' ', '').startswith('func.coalesce(func.sum(') \
                        and src(a).rstrip().endswith(', 0)'):
                    pos = i
        ok = ok and pos is not None
        uses = []
        for d in own_nodes(f.node):
            if isinstance(d, ast.Call) and src(d.func) == 'dict':
                for k in d.keywords:
                    if k.arg == 'usage':
                        uses.append(src(k.value))
        ok = ok and bool(uses) and all(
            re.match(r'^\w+\[%d\]$' % pos, u) for u in uses)
        R.ob('R11.5', '%s:usage-is-the-sum' % f.qbase, ok,
             "Usage.usage is COALESCE(SUM(allocations.used), 0), taken from "
             "its own position in the row", 'position %s, uses %s' % (
                 pos, uses), func=f)
    R.count('R11.5', n, 7)
    # sibling queries of one view restrict the same rows
    for q in (OBJ + 'usage:_get_all_by_project_user',
              OBJ + 'usage:_get_by_consumer_type'):
        _siblings(ctx, R, prog.func(q))


def _query_states(ctx, f):
    """{var: (defining stmt, {(conditions, atom)})} for query variables of
    f, in source order; a variable derived from another inherits what that
    one carried at the point of derivation."""
    from psa import sqlshape
    sh = sqlshape.Shape(ctx, f)
    state = {}
    first = {}
    # in execution (pre-)order of the statements - not by line number:
    # statements of an expanded helper keep the helper's positions
    order = []

    def walk(stmts):
        for st in stmts:
            if isinstance(st, (ast.FunctionDef, ast.AsyncFunctionDef,
                               ast.ClassDef)):
                continue
            order.append(st)
            for fld in ('body', 'orelse', 'finalbody'):
                walk(getattr(st, fld, None) or [])
            for h in getattr(st, 'handlers', None) or []:
                walk(h.body)
    walk(f.node.body)
    assigns = [a for a in order
               if isinstance(a, ast.Assign) and len(a.targets) == 1
               and isinstance(a.targets[0], ast.Name)]
    for a in assigns:
        v = a.value
        root = v
        while isinstance(root, (ast.Call, ast.Attribute)):
            root = root.func if isinstance(root, ast.Call) else root.value
        base = root.id if isinstance(root, ast.Name) and root.id in state \
            else None
        is_query = base is not None or '.query(' in src(v) or \
            'sa.select(' in src(v)
        if not is_query:
            continue
        conds = tuple(sorted(
            ('' if br == 'body' else 'not ') + C.canon(f, i.test)
            for i, br in C.guarding_ifs(a, f.node)))
        atoms = sh.atoms_of(list(ast.walk(v)))
        cur = set(state.get(base, (None, set()))[1]) if base else set()
        cur |= {(conds, x) for x in atoms}
        nm = a.targets[0].id
        state[nm] = (a, cur)
        first.setdefault(nm, a)
    return state, first


def _siblings(ctx, R, f):
    state, first = _query_states(ctx, f)
    names = sorted(state)
    if len(names) < 2:
        R.ob('R11.5', '%s:sibling-queries' % f.qbase, len(names) >= 1,
             'the view is computed by the queries found', names, func=f,
             nontrivial=False)
        return
    # the sibling queries are the ones the function executes (by whatever
    # names their construction passes through)
    EXEC = ('all', 'scalar', 'first', 'one', 'one_or_none', 'fetchall',
            'fetchone', 'count')
    ran = set()
    for c in own_nodes(f.node):
        if isinstance(c, ast.Call) and isinstance(
                c.func, ast.Attribute) and c.func.attr in EXEC and \
                isinstance(c.func.value, ast.Name) and \
                c.func.value.id in state:
            ran.add(c.func.value.id)
        if isinstance(c, ast.Call) and isinstance(
                c.func, ast.Attribute) and c.func.attr == 'execute':
            for a_ in c.args:
                if isinstance(a_, ast.Name) and a_.id in state:
                    ran.add(a_.id)
    if len(ran) >= 2:
        names = sorted(ran)
    # the reference is the query with the fewest restrictions of its own
    # (the totals), any other must restrict the same rows
    main = sorted(names, key=lambda nm: (len(state[nm][1]), nm))[0]
    def rows(nm, drop):
        out = set()
        for conds, a in state[nm][1]:
            if a.startswith(('group_by ', 'sum(', 'count(', 'distinct',
                             'limit')):
                continue
            out.add((tuple(c for c in conds if c not in drop), a))
        return out
    for nm in names:
        if nm == main:
            continue
        enclosing = set(
            ('' if br == 'body' else 'not ') + C.canon(f, i.test)
            for q_ in (nm, main)
            for i, br in C.guarding_ifs(first[q_], f.node))
        a, b = rows(main, enclosing), rows(nm, enclosing)
        R.ob('R11.5', '%s:%s-restricts-like-%s' % (f.qbase, nm, main),
             a == b,
             'the sibling queries of one view (totals and consumer count) '
             'join and filter the same rows under the same conditions',
             'only in %s: %s; only in %s: %s' % (
                 main, sorted(x[1] for x in a - b), nm,
                 sorted(x[1] for x in b - a)), func=f, node=first[nm])


# ---------------------------------------------------------------- R11.6
def _doc_codes(ctx):
    prog = ctx.prog
    idx = prog.read_text('api-ref/source/index.rst')
    incs = re.findall(r'^\.\. include:: (\S+\.inc)', idx, flags=re.M)
    out = {}
    for inc in incs:
        text = prog.read_text('api-ref/source/' + inc)
        ms = list(re.finditer(r'^\.\. rest_method:: *(\S+) +(\S+) *$', text,
                              flags=re.M))
        for i, m in enumerate(ms):
            end = ms[i + 1].start() if i + 1 < len(ms) else len(text)
            sect = text[m.end():end]
            nc = re.search(r'Normal [Rr]esponse [Cc]odes: *((?:[^\n]+\n)+?)'
                           r'\s*\n', sect)
            codes = set()
            if nc:
                # "201 (microversions 1.0 - 1.19), 200 (microversions ..."
                body = re.sub(r'\([^)]*\)', ' ', nc.group(1))
                codes = {int(x) for x in re.findall(r'\b([1-5]\d\d)\b',
                                                    body)}
            out.setdefault((m.group(1), m.group(2)), set()).update(codes)
    return out


def _status_consts(ctx, f, binds, depth, seen):
    out = set()
    if f in seen or depth > 3:
        return out, True
    seen = seen | {f}
    a = f.node.args
    defaults = dict(zip([x.arg for x in a.args][-len(a.defaults):],
                        a.defaults)) if a.defaults else {}
    for x, d in zip(a.kwonlyargs, a.kw_defaults):
        if d is not None:
            defaults[x.arg] = d
    g = cfgmod.cfg_of(f)
    setters = []

    def resolve(v):
        if isinstance(v, ast.Constant):
            return {v.value}
        if isinstance(v, ast.Name):
            if binds.get(v.id):
                return set(binds[v.id])
            ds = [n.value for n in own_nodes(f.node)
                  if isinstance(n, ast.Assign) and any(
                      isinstance(t, ast.Name) and t.id == v.id
                      for t in n.targets)]
            if ds:
                o = set()
                for d in ds:
                    o |= resolve(d)
                return o
            if v.id in defaults:
                return resolve(defaults[v.id])
        if isinstance(v, ast.IfExp):
            return resolve(v.body) | resolve(v.orelse)
        return {'?' + src(v)}
    for n in own_nodes(f.node):
        if isinstance(n, ast.Assign) and any(
                isinstance(t, ast.Attribute) and t.attr == 'status'
                for t in n.targets):
            out |= resolve(n.value)
            setters.append(n)
        if isinstance(n, ast.Call):
            s = ctx.cg.site_of.get(n)
            if s and len(s.callees) == 1 and s.callees[0].module is \
                    f.module and s.callees[0] is not f:
                callee = s.callees[0]
                b2 = {}
                for p, arg in zip(callee.params, n.args):
                    b2[p] = resolve(arg)
                for k in n.keywords:
                    if k.arg:
                        b2[k.arg] = resolve(k.value)
                sub, sub_all = _status_consts(ctx, callee, b2, depth + 1,
                                              seen)
                out |= sub
                if sub and sub_all:
                    setters.append(C.stmt_of(n))
    every = bool(setters) and g.must_pass(cfgmod.ENTRY, cfgmod.EXIT,
                                          set(setters), normal_only=True)
    return out, every


def r116(ctx, R):
    doc = _doc_codes(ctx)
    n = 0
    by_route = {}
    for path, meth, fs in C.routes(ctx):
        if path == '':
            continue
        codes = set()
        for f in fs:
            impl, _ = C.impl_of(ctx, f)
            got, every = _status_consts(ctx, impl, {}, 0, set())
            codes |= got
            if not every:
                codes.add(200)       # webob's default
        by_route[(meth, path)] = (codes, fs[0])
    for key, (codes, f0) in sorted(by_route.items()):
        n += 1
        if key in UNDOCUMENTED:
            R.ob('R11.6', 'status:%s %s' % key, key not in doc,
                 'route listed as undocumented is still undocumented',
                 UNDOCUMENTED[key], func=f0, nontrivial=False)
            continue
        want = doc.get(key)
        R.ob('R11.6', 'status:%s %s' % key,
             want is not None and codes == want,
             "the success statuses a handler can answer are the api-ref's "
             "Normal Response Codes", 'code %s, documented %s' % (
                 sorted(map(str, codes)), sorted(want) if want else None),
             func=f0)
    R.count('R11.6', n, 36)


def r117(ctx, R):
    """Defaults are applied per record: every dict that a request record
    is merged into starts, in that same loop iteration, as a fresh copy of
    INVENTORY_DEFAULTS; the defaults table itself is never written."""
    prog = ctx.prog
    DEF = 'placement.handlers.inventory.INVENTORY_DEFAULTS'
    n = 0

    def is_defaults(f, e):
        return prog.dotted(f.module, e, f) == DEF

    def fresh_copy(f, v):
        return isinstance(v, ast.Call) and src(v.func) in (
            'copy.copy', 'copy.deepcopy', 'dict') and len(
                v.args) == 1 and is_defaults(f, v.args[0])
    for f in prog.funcs:
        if not f.module.name.startswith('placement.handlers.'):
            continue
        # names bound to a copy of the defaults
        copies = [a for a in own_nodes(f.node) if isinstance(a, ast.Assign)
                  and isinstance(a.targets[0], ast.Name)
                  and fresh_copy(f, a.value)]
        for a in copies:
            nm = a.targets[0].id
            n += 1
            ups = [c for c in own_nodes(f.node) if isinstance(c, ast.Call)
                   and isinstance(c.func, ast.Attribute)
                   and c.func.attr == 'update'
                   and src(c.func.value) == nm]
            bad = []
            for u in ups:
                lp = getattr(C.stmt_of(u), '_parent', None)
                while lp is not None and not isinstance(
                        lp, (ast.For, ast.While, ast.FunctionDef)):
                    lp = getattr(lp, '_parent', None)
                if isinstance(lp, (ast.For, ast.While)):
                    # the copy must be made inside that same loop, before
                    # the merge
                    inside = any(a is x for x in own_nodes_of(lp))
                    if not inside or not cfgmod.cfg_of(f).dominates(
                            a, C.stmt_of(u)):
                        bad.append(u)
            R.ob('R11.7', '%s:%s-fresh-per-record' % (f.qbase, nm), not bad,
                 'a record is merged into a copy of the defaults made for '
                 'that record (not into one copy shared by all records)',
                 ['line %d' % b.lineno for b in bad] or 'fresh', func=f,
                 node=a)
        # every other use of the table either builds a fresh mapping from
        # it ({**DEFAULTS, **record} / dict(DEFAULTS, **record)), only
        # reads it, or is a violation (the table escapes uncopied or is
        # written)
        for x in own_nodes(f.node):
            if not (isinstance(x, (ast.Name, ast.Attribute)) and isinstance(
                    getattr(x, 'ctx', None), ast.Load)
                    and is_defaults(f, x)):
                continue
            par = getattr(x, '_parent', None)
            if isinstance(par, ast.Attribute) and par.value is x:
                # DEFAULTS.<method>: handled through the call below
                gp = getattr(par, '_parent', None)
                if isinstance(gp, ast.Call) and gp.func is par:
                    okm = par.attr in ('get', 'items', 'keys', 'values',
                                       'copy')
                    if not okm:
                        R.ob('R11.7', '%s:defaults-table-written' % f.qbase,
                             False, 'INVENTORY_DEFAULTS is never modified',
                             src(gp)[:60], func=f, node=gp)
                continue
            if isinstance(par, ast.Call) and x in par.args:
                if fresh_copy(f, par):
                    if not any(a.value is par for a in copies):
                        n += 1     # a fresh copy used in place
                    continue       # else counted with the named copies
                if src(par.func) == 'dict' and par.args[0] is x:
                    n += 1         # dict(DEFAULTS, **record): fresh
                    continue
            if isinstance(par, ast.Dict) and any(
                    k is None and v is x
                    for k, v in zip(par.keys, par.values)):
                n += 1             # {**DEFAULTS, **record}: fresh
                continue
            if isinstance(par, ast.Subscript) and par.value is x:
                if isinstance(par.ctx, ast.Load):
                    continue
                R.ob('R11.7', '%s:defaults-table-written' % f.qbase, False,
                     'INVENTORY_DEFAULTS is never modified', src(par)[:60],
                     func=f, node=par)
                continue
            if isinstance(par, ast.Compare) or isinstance(
                    par, (ast.For, ast.comprehension)):
                continue
            R.ob('R11.7', '%s:defaults-table-escapes' % f.qbase, False,
                 'the defaults table is only copied or read, never aliased '
                 'or handed on (a later merge would write the table)',
                 src(par)[:60] if par is not None else src(x), func=f,
                 node=x)
    R.count('R11.7', n, 3)
    # the reshaper stores the requested inventory of every listed provider
    from psa.rules import c01
    C.reuse_obligations(ctx, R, c01.r14, 'R11.7')


def r1110(ctx, R):
    """A name filter given as an empty collection selects nothing, not
    everything: PUT .../traits with an empty list resolves the body's names
    through Trait.get_all(filters={'name_in': []}) and stores what comes
    back.  In the filtered trait query every IN (...) clause fed from the
    filters is applied whenever its key is present - the only tests on the
    way to it are tests of presence, never of the value's truth."""
    prog = ctx.prog
    f = prog.func('placement.objects.trait:_get_all_filtered_from_db')
    filt = (f.params + [None, None])[1]
    deps = C.Deps(f)
    n = 0
    for c in own_nodes(f.node):
        if not (isinstance(c, ast.Call) and isinstance(
                c.func, ast.Attribute) and c.func.attr == 'in_' and c.args):
            continue
        keys = set()

        def visit(x, keys=keys):
            if isinstance(x, ast.Subscript) and isinstance(
                    x.value, ast.Name) and x.value.id == filt and \
                    isinstance(x.slice, ast.Constant):
                keys.add(x.slice.value)
            if isinstance(x, ast.Call) and isinstance(
                    x.func, ast.Attribute) and x.func.attr in (
                        'get', 'pop') and isinstance(
                            x.func.value, ast.Name) and \
                    x.func.value.id == filt and x.args and isinstance(
                        x.args[0], ast.Constant):
                keys.add(x.args[0].value)
            return False
        deps.reaches(c.args[0], visit)
        if not keys:
            continue
        n += 1
        st = C.stmt_of(c)
        bad = []
        for e, pol in C.conds(st, f.node, implicit=True):
            e2 = C.inline_locals(f, e)
            pres = isinstance(e2, ast.Compare) and len(e2.ops) == 1 and \
                isinstance(e2.ops[0], (ast.In, ast.NotIn)) and isinstance(
                    e2.left, ast.Constant) and src(
                        e2.comparators[0]) == filt
            nonnull = isinstance(e2, ast.Compare) and len(
                e2.ops) == 1 and isinstance(
                    e2.ops[0], (ast.Is, ast.IsNot)) and src(
                        e2.comparators[0]) == 'None'
            if not (pres or nonnull):
                bad.append(('' if pol else 'not ') + src(e))
        R.ob('R11.10', '%s:%s-applied-when-present' % (
            f.qbase.split(':')[1], '/'.join(sorted(keys))), not bad,
            'the IN clause is applied whenever the filter key is present '
            '(an empty collection then matches no row); nothing on the way '
            'tests the truth of the value', bad or 'presence tests only',
            func=f, node=st)
    R.count('R11.10', n, 1)


def r1111(ctx, R):
    """A write that is refused changes nothing a read reports: the consumer
    attributes (project, user, type), the allocations and the generations
    of one allocation write are stored by one transaction, so a rejection of
    the allocations takes the attribute change with it (the
    one-core-transaction obligations of R4.2, read for the allocation
    writers)."""
    from psa.rules import c04
    n = C.reuse_obligations(
        ctx, R, lambda c, r: c04.check_roots(c, r, 'R4'), 'R11.11',
        select=lambda o: o.construct.endswith(':one-core-transaction') and (
            'handlers.allocation:' in o.construct or
            'handlers.reshaper:' in o.construct))
    R.count('R11.11', n, 6)


def run(ctx, R):
    r1110(ctx, R)
    r1111(ctx, R)
    r111(ctx, R)
    r112(ctx, R)
    r113(ctx, R)
    r114(ctx, R)
    r115(ctx, R)
    r116(ctx, R)
    r117(ctx, R)
    # R11.8: a write that does not mention a consumer attribute leaves the
    # stored one alone (the update_consumers conditions of R12.7): otherwise
    # a read reports a project / user / consumer type no write asked for
    from psa.rules import c12
    n8 = C.reuse_obligations(ctx, R, c12.r127, 'R11.8')
    R.count('R11.8', n8, 2)
    # R11.9: what a provider read reports as its root is the top of its
    # parent chain: the subtree-root rewrite and the move guards of C09
    from psa.rules import c09
    n9 = C.reuse_obligations(
        ctx, R, c09._run_c09, 'R11.9',
        select=lambda o: o.rule in ('R9.1', 'R9.2'))
    R.count('R11.9', n9, 5)


def r1112(ctx, R):
    """Replacing a consumer's allocations means: what it held before does
    not count against what it asks for now.  The write deletes the
    consumer's current rows before the capacity check sums the usage (the
    ordering obligations of R1.2): checked the other way round, a
    replacement that fits is refused and the reads keep reporting the old
    state where the history prescribes the new one."""
    from psa.rules import c01
    n = C.reuse_obligations(
        ctx, R, lambda c, r: c01.r12(c, r), 'R11.12',
        select=lambda o: o.construct.startswith('_set_allocations:'))
    R.count('R11.12', n, 1)


_run_c11b = run


def run(ctx, R):
    _run_c11b(ctx, R)
    r1112(ctx, R)


_DICT_WRITERS = ('update', 'setdefault', 'pop', 'popitem', 'clear',
                 '__setitem__', '__delitem__')


def _writes_into(ctx, f, name, depth=2):
    """Statements of f that store into the mapping held by local / parameter
    ``name`` - directly, or by handing it to a project function that writes
    into the parameter it arrives in."""
    out = []
    for n in own_nodes(f.node):
        if isinstance(n, ast.Subscript) and isinstance(
                n.ctx, (ast.Store, ast.Del)) and isinstance(
                    n.value, ast.Name) and n.value.id == name:
            out.append(n)
        elif isinstance(n, ast.Call) and isinstance(
                n.func, ast.Attribute) and n.func.attr in _DICT_WRITERS \
                and isinstance(n.func.value, ast.Name) and \
                n.func.value.id == name:
            out.append(n)
    if depth > 0:
        for s in ctx.cg.calls_in(f):
            for g in s.callees:
                for pn in g.params:
                    a = C.arg_for_param(s.node, g, pn)
                    if isinstance(a, ast.Name) and a.id == name and \
                            _writes_into(ctx, g, pn, depth - 1):
                        out.append(s.node)
    return out


def r1113(ctx, R):
    """A field the request leaves out stays as it is: where a handler tells
    "given" from "omitted" by asking whether the key is in the parsed body,
    the body is what the client sent - nothing has written keys into it
    (a default filled in for an omitted parent reads as "parent: null": a
    rename moves the provider out of its tree)."""
    n = 0
    for f in ctx.prog.funcs:
        if not f.module.name.startswith('placement.handlers.'):
            continue
        tests = [t for t in own_nodes(f.node) if isinstance(t, ast.Compare)
                 and len(t.ops) == 1 and isinstance(
                     t.ops[0], (ast.In, ast.NotIn))
                 and isinstance(t.comparators[0], ast.Name)]
        seen = set()
        for t in tests:
            d = t.comparators[0].id
            v = C.inline_locals(f, t.comparators[0])
            if d in seen or not (isinstance(v, ast.Call) and (
                    ctx.prog.dotted(f.module, v.func, f) or '').endswith(
                        'util.extract_json')):
                continue
            seen.add(d)
            n += 1
            w = _writes_into(ctx, f, d)
            R.ob('R11.13', '%s:body-as-sent:%s' % (f.qname, d), not w,
                 'the parsed body whose keys decide what the request '
                 'changes is not written to', [
                     'line %d: %s' % (x.lineno, src(x)[:50])
                     for x in w][:3] or 'never written', func=f, node=t)
    R.count('R11.13', n, 1)


_run_c11c = run


def run(ctx, R):
    _run_c11c(ctx, R)
    r1113(ctx, R)
