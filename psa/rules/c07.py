"""C07 - concurrent claims are serializable and never jointly over-commit
(composite necessary condition only)."""
import ast

from psa import cfg as cfgmod
from psa.model import own_nodes, own_nodes_of, src
from psa.rules import common as C
from psa.rules import c01, c04, c10

EXPLANATION = (
    "Claimed only through the composite necessary condition: one allocation "
    "write = one writer scope containing (R7.1) the capacity check on "
    "committed usage after the consumers' old rows were deleted, dominating "
    "the INSERTs; (R7.2) the compare-and-swap of every provider in the "
    "check's return map and of every visited consumer on every normal path; "
    "(R7.3) cleanup of consumers created by a failing request; (R7.4) the "
    "server-side retry catches only the provider conflict, is bounded and "
    "re-raises when exhausted, and nothing else in the write path catches; "
    "(R7.5) generation-guarded inventory/trait/aggregate updates increment "
    "in the scope of their data change; (R7.8) of two requests racing to "
    "create one consumer the loser is answered 409 from 1.28 and is never "
    "told it created the record; (R7.9) the generation compared with the "
    "client's is the one the guarded write checks (no server-side retry or "
    "re-read in between) and a lost race is a 409. If any of these is "
    "missing two "
    "concurrent claims can both pass the check and jointly over-commit. "
    "Serializability over schedules itself is not decided.")
ASSUMPTIONS = ["each transaction is atomic and isolated (serializable DBMS), "
               "as the property's quantifier states"]

RPCUD = 'placement.exception.ResourceProviderConcurrentUpdateDetected'


def r74(ctx, R):
    prog = ctx.prog
    f = prog.func('placement.objects.allocation:replace_all')
    g = cfgmod.cfg_of(f)
    calls = C.calls_to(ctx, f, 'placement.objects.allocation:_set_allocations')
    if not R.ob('R7.4', 'replace_all:write-call', len(calls) == 1,
                'one call of _set_allocations', len(calls), func=f):
        return
    trys = C.enclosing_trys(calls[0], f.node)
    ok = len(trys) == 1
    types = []
    if ok:
        for h in trys[0].handlers:
            types.append(ctx.raises.handler_types(f, h))
        ok = types == [[RPCUD]]
    R.ob('R7.4', 'replace_all:catches-only-provider-conflict', ok,
         'the retry catches exactly ResourceProviderConcurrentUpdateDetected '
         '(a consumer conflict or a capacity rejection is never retried or '
         'absorbed)', types, func=f, node=calls[0])
    # bounded loop with re-raise on exhaustion
    loops = [n for n in own_nodes(f.node) if isinstance(n, ast.While)]
    okl = False
    why = '%d while loops' % len(loops)
    if len(loops) == 1:
        lp = loops[0]
        cnt = lp.test.id if isinstance(lp.test, ast.Name) else None
        dec = [n for n in own_nodes_of(lp) if isinstance(n, ast.AugAssign)
               and isinstance(n.op, ast.Sub) and src(n.target) == cnt]
        # success leaves the loop at once (break, or return from inside it)
        brk = [n for n in own_nodes_of(lp)
               if isinstance(n, (ast.Break, ast.Return))
               and not C._in_handler(n, lp)]
        # exhaustion raises the provider conflict: in the loop's else, or
        # in the statement that follows the loop
        els = [n for n in lp.orelse if isinstance(n, ast.Raise)]
        if not els:
            par = getattr(lp, '_parent', None)
            blk = getattr(par, 'body', [])
            if any(lp is x for x in blk):
                i_ = [k for k, x in enumerate(blk) if x is lp][0]
                tail = blk[i_ + 1:]
                if not any(isinstance(n, ast.Return) for n in tail):
                    els = [n for n in tail if isinstance(n, ast.Raise)]
        exc = ctx.raises.exc_name(f, els[-1].exc) if els and \
            els[-1].exc is not None else None
        okl = cnt is not None and len(dec) == 1 and g.dominates(
            dec[0], C.stmt_of(calls[0])) and len(brk) == 1 and \
            g.dominates(C.stmt_of(calls[0]), brk[0]) and exc == RPCUD
        why = 'counter=%s decrements=%d breaks=%d else-raises=%s' % (
            cnt, len(dec), len(brk), exc)
    R.ob('R7.4', 'replace_all:bounded-retry', okl,
         'while <counter>: counter -= 1; try write; break ... else: raise '
         'the provider conflict', why, func=f)
    # reload happens in an independent reader (reported; liveness only)
    indep = [n for n in own_nodes(f.node) if isinstance(n, ast.With)
             and 'independent' in src(n.items[0].context_expr)]
    R.note('replace_all reloads providers in %d reader.independent block(s) '
           '(liveness, not an obligation)' % len(indep))
    # nothing in the write function catches
    w = prog.func('placement.objects.allocation:_set_allocations')
    trys = [n for n in own_nodes(w.node) if isinstance(n, ast.Try)]
    R.ob('R7.4', '_set_allocations:no-try', not trys,
         'failures inside the write propagate out of its scope',
         '%d try statements' % len(trys), func=w)
    R.count('R7.4', 1, 1)


def run(ctx, R):
    c01.r12(ctx, R, 'R7.1')
    R.count('R7.1', 1, 1)
    c10._r10_2(ctx, R, 'R7.2')
    n3 = c04.r43(ctx, R, 'R7.3')
    R.count('R7.3', n3, 3)
    r74(ctx, R)
    c10.r101(ctx, R, 'R7.5')
    from psa import sqlshape
    n = sqlshape.shape_rule(ctx, R, 'R7.6', [
        'placement.objects.allocation:_check_capacity_exceeded'])
    n += sqlshape.shape_rule(ctx, R, 'R7.6', [
        'placement.objects.consumer:_delete_consumer',
        'placement.objects.consumer:Consumer.increment_generation',
        'placement.objects.resource_provider:ResourceProvider.increment_generation'])
    from psa.rules import genstate
    genstate.generation_writers(ctx, R, 'R7.7')
    R.count('R7.6', n, 4)
    # R7.8: two requests racing to create the same consumer
    from psa.rules import c06, c12
    n8 = C.reuse_obligations(ctx, R, c06.r62, 'R7.8')
    n8 += C.reuse_obligations(ctx, R, c12.r128, 'R7.8')
    R.count('R7.8', n8, 2)
    # R7.9: the generation a guarded update compares is the one its write
    # checks - no server-side retry or re-read between the comparison with
    # the client's generation and the mutator, and a lost race is answered
    # 409 (the obligations of R5.2 / R5.3)
    from psa.rules import c05
    n9 = C.reuse_obligations(ctx, R, c05.run, 'R7.9',
                             select=lambda o: o.rule in ('R5.2', 'R5.3'))
    R.count('R7.9', n9, 20)
    # R7.10: the consumer whose generation is compared-and-swapped inside
    # the write is the one the request's generation was compared with (the
    # obligations of R6.4): otherwise two writes based on one generation can
    # both be accepted
    n10 = C.reuse_obligations(ctx, R, c06.r64, 'R7.10')
    n10 += C.reuse_obligations(ctx, R, c06.r68, 'R7.10')
    R.count('R7.10', n10, 4)
