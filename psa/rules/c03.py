"""C03 - allocation candidates are exactly the combinations the request
describes (structural clauses only).

The statement is an extensional equality between a multi-path search and a
declarative specification over all database states; that equality is not
decided here.  What is decided are the clauses whose truth is in the shape
of the code and whose failure is a spurious or an omitted candidate:

* every filter a request group can carry is looked at by *both* search
  paths (the single-provider path and the tree/sharing path are siblings
  that must agree on which filters they apply);
* every request-wide parameter reaches the place where it filters;
* a combination is only added to the result after the group-policy,
  same_subtree and capacity filters and only when every group contributed;
* the per-combination trait check guards every combination of the tree
  path, and every provider of the single-provider path is offered anchored
  at its own root under the anchor filter alone;
* the pre-1.29 restriction is bound to the 1.29 gate and runs after the
  merge; de-duplication is by (resources, mappings);
* the SQL of the candidate queries has its reviewed shape.
"""
import ast

from psa import cfg as cfgmod
from psa import model
from psa.model import own_nodes, own_nodes_of, src
from psa.rules import common as C

EXPLANATION = (
    "Structural necessary conditions only (the set equality itself is not "
    "decided). R3.1 filter consumption: every attribute RequestGroup "
    "carries is read by RequestGroupSearchContext and what is derived from "
    "it is read on both search paths selected in _get_by_one_request "
    "(single-provider and tree/sharing are siblings); every "
    "RequestWideParams attribute is read by RequestWideSearchContext and "
    "the derived attribute is read by the merge / filter / limit code. "
    "R3.2: in _merge_candidates a combination reaches the result set only "
    "under _satisfies_group_policy, _satisfies_same_subtree, not "
    "exceeds_capacity(<the consolidated request>) and only for anchors that "
    "have every suffix. R3.3: in the tree path every product combination "
    "is guarded by _check_traits_for_alloc_request on that same combination "
    "with the group's required and forbidden traits, and the check returns "
    "false under a forbidden-trait and a missing-required-trait condition. "
    "R3.4: in the single-provider path every provider tuple yields the "
    "request anchored at its own root under the anchor filter alone; every "
    "other append is under the anchor filter of its anchor; "
    "in_filtered_anchors is 'no filter or member'. R3.5: nested_aware is "
    "bound to the 1.29 gate, exclude_nested_providers passes everything "
    "through exactly when nested_aware or no trees, keeps a request iff its "
    "providers have pairwise different roots, and runs after the merge. "
    "R3.6: candidates are de-duplicated by (resource requests, mappings). "
    "R3.7: reviewed SQL shapes of the candidate queries.")
ASSUMPTIONS = [
    "the set equality of the search result with the specification over all "
    "database states is NOT decided (no static argument in reach); each "
    "clause is a necessary condition of it",
    "itertools.product enumerates every combination; set semantics of "
    "Python sets",
]

RC = 'placement.objects.research_context'
AC = 'placement.objects.allocation_candidate'
LIB = 'placement.lib'
RGSC = RC + ':RequestGroupSearchContext'
RWSC = RC + ':RequestWideSearchContext'
FALSY = ('[]', 'None', 'False', 'set()', '()', '{}')


def _self_fields(init):
    """attr -> [value expressions] for ``self.attr = v`` in a constructor
    (including keyed stores and filling calls on self.attr)."""
    me = init.params[0]
    out = {}
    for n in own_nodes(init.node):
        if isinstance(n, ast.Assign):
            for t in n.targets:
                if isinstance(t, ast.Attribute) and isinstance(
                        t.value, ast.Name) and t.value.id == me:
                    out.setdefault(t.attr, []).append(n.value)
                if isinstance(t, ast.Subscript) and isinstance(
                        t.value, ast.Attribute) and isinstance(
                            t.value.value, ast.Name) and \
                        t.value.value.id == me:
                    out.setdefault(t.value.attr, []).extend(
                        [t.slice, n.value])
        if isinstance(n, ast.Call) and isinstance(
                n.func, ast.Attribute) and n.func.attr in C.Deps.FILL and \
                isinstance(n.func.value, ast.Attribute) and isinstance(
                    n.func.value.value, ast.Name) and \
                n.func.value.value.id == me:
            out.setdefault(n.func.value.attr, []).extend(n.args)
    return out


def _derived(init, src_param):
    """field of <src_param> -> set of self attributes whose value depends
    on it (directly, through locals, or through another such attribute)."""
    me = init.params[0]
    deps = C.Deps(init)
    fields = _self_fields(init)
    direct = {}     # attr -> set of source fields
    via = {}        # attr -> set of other self attrs it is computed from
    for a, vals in fields.items():
        fs, vs = set(), set()
        for v in vals:
            def visit(x, fs=fs, vs=vs):
                if isinstance(x, ast.Attribute) and isinstance(
                        x.value, ast.Name):
                    if x.value.id == src_param:
                        fs.add(x.attr)
                    elif x.value.id == me and x.attr != a:
                        vs.add(x.attr)
                return False
            deps.reaches(v, visit)
        direct[a] = fs
        via[a] = vs
    for _i in range(4):
        for a in fields:
            for b in via[a]:
                direct[a] |= direct.get(b, set())
    out = {}
    for a, fs in direct.items():
        for f_ in fs:
            out.setdefault(f_, set()).add(a)
    return out, set(fields)


def _attr_reads(ctx, funcs, cls_dotted, attrs):
    """Attributes of the search-context class that *matter* in funcs: the
    read (on a receiver typed as the class, or inside one of the class's own
    methods / properties that is used that way) lies in the backward slice
    of what the function returns - data flow, mutation through method calls
    and control dependence (common.FlowDeps).  A read that only feeds a log
    message, or a value nothing uses, does not count."""
    prog = ctx.prog
    cls = prog.classes.get(cls_dotted)
    meth_reads = {}
    if cls is not None:
        for name, fs in cls.methods.items():
            if name == '__init__':
                continue
            rd = set()
            for f in fs:
                me = f.params[0] if f.params else None
                for x in C.FlowDeps(f).slice_of_result():
                    if isinstance(x, ast.Attribute) and isinstance(
                            x.value, ast.Name) and x.value.id == me and \
                            isinstance(x.ctx, ast.Load):
                        rd.add(x.attr)
            meth_reads[name] = rd
    for _i in range(3):
        for name in meth_reads:
            for a in list(meth_reads[name]):
                if a in meth_reads:
                    meth_reads[name] |= meth_reads[a]
    reads = set()
    for f in funcs:
        for x in C.FlowDeps(f).slice_of_result():
            if not (isinstance(x, ast.Attribute) and isinstance(
                    x.ctx, ast.Load)):
                continue
            ts = ctx.cg.expr_types(f, x.value)
            if cls_dotted not in ts:
                continue
            if x.attr in attrs:
                reads.add(x.attr)
            if x.attr in meth_reads:
                reads |= (meth_reads[x.attr] & attrs) | {x.attr}
    return reads


def r31(ctx, R):
    prog = ctx.prog
    one = prog.func(AC + ':AllocationCandidates._get_by_one_request')
    gbr = prog.func(AC + ':AllocationCandidates._get_by_requests')
    rg_init = prog.func(LIB + ':RequestGroup.__init__')
    sc_init = prog.func(RGSC + '.__init__')
    rg_fields = [a for a in _self_fields(rg_init)]
    R.ob('R3.1', 'RequestGroup:fields', len(rg_fields) >= 7,
         'the request group carries resources, required/forbidden traits, '
         'member_of, forbidden aggregates, in_tree and use_same_provider',
         sorted(rg_fields), func=rg_init, nontrivial=False)
    group_param = sc_init.params[2] if len(sc_init.params) > 2 else None
    derived, sc_attrs = _derived(sc_init, group_param)
    # the two search paths: calls under the first if of _get_by_one_request
    # and calls after it
    ifs = [n for n in one.node.body if isinstance(n, ast.If)]
    if not R.ob('R3.1', '_get_by_one_request:two-paths', len(ifs) >= 1,
                'a branch selects between the tree/sharing path and the '
                'single-provider path', '%d top-level ifs' % len(ifs),
                func=one):
        return 0
    # the first top-level if is the selector; with an else both arms are
    # explicit, without one the rest of the function is the other arm
    sel = ifs[0]
    test, body, orelse = C.pos_if(sel)
    rest = orelse or [s for s in one.node.body
                      if s.lineno > sel.lineno and s is not sel]

    def callees_in(stmts):
        out = []
        for s in stmts:
            for x in ast.walk(s):
                if isinstance(x, ast.Call):
                    site = ctx.cg.site_of.get(x)
                    if site is not None:
                        out.extend(site.callees)
        return out
    paths = {}
    for name, stmts in (('branch-1', body), ('branch-2', rest)):
        roots = [g for g in callees_in(stmts)
                 if g.module.name in (RC, AC)]
        reach = [g for g in ctx.cg.reachable(roots)
                 if g.module.name in (RC, AC,
                                      'placement.objects.rp_candidates')]
        paths[name] = reach
    ok2 = all(paths.values())
    R.ob('R3.1', '_get_by_one_request:paths-resolved', ok2,
         'both branches call search functions of the candidate modules',
         {k: len(v) for k, v in paths.items()}, func=one)
    n = 0
    selector_reads = _attr_reads(ctx, [one, gbr], RGSC.replace(':', '.'),
                                 sc_attrs)
    _rd_cache = {}
    for fld in sorted(rg_fields):
        n += 1
        das = derived.get(fld, set())
        R.ob('R3.1', 'group.%s:read-by-search-context' % fld, bool(das) or
             _read_elsewhere(ctx, gbr, fld),
             'RequestGroupSearchContext (or _get_by_requests) reads the '
             'group attribute', sorted(das) or 'not read', func=sc_init)
        if not das:
            continue
        for pname, funcs in sorted(paths.items()):
            if pname not in _rd_cache:
                _rd_cache[pname] = _attr_reads(
                    ctx, funcs, RGSC.replace(':', '.'), sc_attrs)
            rd = _rd_cache[pname]
            hit = das & (rd | selector_reads)
            R.ob('R3.1', 'group.%s:applied-on-%s' % (fld, pname), bool(hit),
                 'something derived from the group attribute (%s) is read '
                 'on this search path: a filter that one path never looks '
                 'at lets through what the sibling path refuses'
                 % sorted(das), sorted(hit) or 'not read on this path '
                 '(reads: %s)' % sorted(rd), func=funcs[0] if funcs else one)
    # R3.1c: a group may be resourceless (1.36): on the single-provider
    # path a filter whose only application is bound up with the group's
    # resources (the per-class capacity queries) is then never applied.
    # Every other filter must have something derived from it alone read on
    # that path.
    res_derived = derived.get('resources', set())
    single = paths.get('branch-2', [])
    rd2 = _rd_cache.get('branch-2') or _attr_reads(
        ctx, single, RGSC.replace(':', '.'), sc_attrs)
    for fld in sorted(rg_fields):
        if fld in ('resources', 'use_same_provider'):
            continue
        own = derived.get(fld, set()) - res_derived
        hit = own & rd2
        n += 1
        R.ob('R3.1', 'group.%s:applied-to-resourceless-group' % fld,
             bool(hit),
             'on the single-provider path the filter is applied through '
             'something that does not depend on the group having resources '
             '(a resourceless group is filtered too)', sorted(hit) or
             'only through %s' % sorted(derived.get(fld, set())),
             func=single[0] if single else one)
    # request-wide parameters
    rw_init_p = prog.func(LIB + ':RequestWideParams.__init__')
    rw_fields = [a for a in _self_fields(rw_init_p)]
    rw_init = prog.func(RWSC + '.__init__')
    rw_cls_funcs = [f for f in prog.funcs if f.cls is not None and
                    f.cls.dotted == RWSC.replace(':', '.')]
    # the constructor hands rqparams to helpers of the class: fold them in
    rq_param = rw_init.params[2] if len(rw_init.params) > 2 else None
    rw_derived, rw_attrs = _derived(rw_init, rq_param)
    # (bound through the call sites, whatever the helpers call the
    # parameter)
    handed = {}
    for site in ctx.cg.calls_in(rw_init):
        for cal in site.callees:
            if cal in rw_cls_funcs and cal is not rw_init:
                for pn in cal.params:
                    a = C.arg_for_param(site.node, cal, pn)
                    if isinstance(a, ast.Name) and a.id == rq_param:
                        handed[cal] = pn
    for f in rw_cls_funcs:
        if f is rw_init or f not in handed:
            continue
        d2, a2 = _derived(f, handed[f])
        for k, v in d2.items():
            rw_derived.setdefault(k, set()).update(v)
        rw_attrs |= a2
    users = [f for f in prog.funcs if f.module.name in (RC, AC)
             and f is not rw_init]
    rw_reads = _attr_reads(ctx, users, RWSC.replace(':', '.'), rw_attrs)
    # reads through self inside the class's own methods
    for f in rw_cls_funcs:
        if f is rw_init:
            continue
        me = f.params[0] if f.params else None
        for x in own_nodes(f.node):
            if isinstance(x, ast.Attribute) and isinstance(
                    x.value, ast.Name) and x.value.id == me and isinstance(
                        x.ctx, ast.Load) and x.attr in rw_attrs:
                rw_reads.add(x.attr)
    for fld in sorted(rw_fields):
        n += 1
        das = rw_derived.get(fld, set())
        hit = das & rw_reads
        R.ob('R3.1', 'rqparams.%s:reaches-its-filter' % fld, bool(hit),
             'the request-wide parameter is stored by '
             'RequestWideSearchContext and what is stored is read by the '
             'merge / filter / limit code', sorted(hit) or
             'derived %s, none read' % sorted(das), func=rw_init)
    R.count('R3.1', n, 17)
    return n


def _read_elsewhere(ctx, f, fld):
    for x in own_nodes(f.node):
        if isinstance(x, ast.Attribute) and x.attr == fld and isinstance(
                x.ctx, ast.Load):
            return True
    return False


def _callee_names(ctx, f, e):
    out = set()
    for x in ast.walk(e):
        if isinstance(x, ast.Call):
            s = ctx.cg.site_of.get(x)
            if s is not None:
                out |= {g.qbase for g in s.callees}
    return out


def _lit_calls(ctx, f, conds):
    """[(callee qbase, polarity, call node)] for literals that are calls
    (directly or through a singly assigned local)."""
    from psa.rules.c05 import single_def
    out = []
    for e, pol in conds:
        if isinstance(e, ast.Name):
            d = single_def(f, e.id)
            if d is not None:
                e = d.value
        if isinstance(e, ast.Call):
            s = ctx.cg.site_of.get(e)
            for g in (s.callees if s is not None else []):
                out.append((g.qbase, pol, e))
    return out


def r32(ctx, R):
    prog = ctx.prog
    from psa.rules import c20
    m = prog.func(AC + ':_merge_candidates')
    sv = c20.merged_set_var(m)
    adds = [x for x in own_nodes(m.node) if isinstance(x, ast.Call)
            and isinstance(x.func, ast.Attribute) and x.func.attr == 'add'
            and sv and src(x.func.value) == sv]
    if not R.ob('R3.2', '_merge_candidates:add-site', len(adds) == 1,
                'one place adds a merged combination to the result set',
                '%d (result set %s)' % (len(adds), sv), func=m):
        R.count('R3.2', 0, 1)
        return
    add = adds[0]
    st = C.stmt_of(add)
    conds = C.conds(st, m.node, implicit=True)
    calls = _lit_calls(ctx, m, conds)
    want = {AC + ':_satisfies_group_policy': True,
            AC + ':_satisfies_same_subtree': True,
            RWSC + '.exceeds_capacity': False}
    got = {}
    for q, pol, node in calls:
        if q in want:
            got[q] = (pol, node)
    for q, pol in sorted(want.items()):
        ok = q in got and got[q][0] == pol
        R.ob('R3.2', 'add-under:%s' % q.split(':')[1], ok,
             'a combination is added only when %s%s holds' % (
                 '' if pol else 'not ', q.split(':')[1]),
             'guards: %s' % sorted('%s%s' % ('' if p else 'not ',
                                             q2.split(':')[1])
                                   for q2, p, _n in calls), func=m, node=add)
    # the filtered list is the product element; the capacity test and the
    # add see the consolidated request of that same list
    from psa.rules.c05 import single_def
    prod_loops = [lp for lp in own_nodes(m.node) if isinstance(lp, ast.For)
                  and isinstance(lp.iter, ast.Call) and prog.dotted(
                      m.module, lp.iter.func, m) == 'itertools.product'
                  and any(st is x for x in ast.walk(lp))]
    okp = len(prod_loops) == 1 and isinstance(prod_loops[0].target, ast.Name)
    why = 'product loops around the add: %d' % len(prod_loops)
    if okp:
        lv = prod_loops[0].target.id
        a0 = add.args[0] if add.args else None
        d = single_def(m, a0.id) if isinstance(a0, ast.Name) else None
        cons = d is not None and isinstance(d.value, ast.Call) and \
            AC + ':_consolidate_allocation_requests' in C.call_name(
                ctx, m, d.value) and d.value.args and src(
                    d.value.args[0]) == lv
        samearg = all(node.args and src(node.args[0]) == (
            a0.id if q.endswith('exceeds_capacity') else lv)
            for q, (_p, node) in got.items())
        okp = bool(cons and samearg)
        why = 'added=%s consolidated-from-loop-element=%s filters-on-same=' \
            '%s' % (src(a0) if a0 is not None else None, bool(cons), samearg)
    R.ob('R3.2', '_merge_candidates:same-combination', okp,
         'the filters test the product element that is consolidated and '
         'added (group policy and same_subtree on the list, capacity on its '
         'consolidation)', why, func=m, node=add)
    # only anchors that have a request for every group
    okall = False
    for e, pol in conds:
        if isinstance(e, ast.Compare) and len(e.ops) == 1 and isinstance(
                e.ops[0], (ast.NotEq, ast.Eq)):
            pos = isinstance(e.ops[0], ast.Eq)
            if pos != pol:      # literal says "set(...) == all suffixes"
                continue
            sides = [e.left, e.comparators[0]]
            txt = [src(x) for x in sides]
            # one side is set(<per-anchor dict>), the other derives from
            # set(candidates)
            deps = C.Deps(m)
            cand = m.params[0]
            if any(deps.reaches(x, lambda y: isinstance(y, ast.Name)
                                and y.id == cand) for x in sides) and any(
                    t.startswith('set(') for t in txt):
                okall = True
    R.ob('R3.2', '_merge_candidates:every-group-present', okall,
         'combinations are formed only for anchors that have at least one '
         'request of every group', [ast.unparse(e) + ('' if p else ' [neg]')
                                    for e, p in conds][:6], func=m, node=add)
    # requests are grouped by their anchor
    R.count('R3.2', 1, 1)


def r33(ctx, R):
    prog = ctx.prog
    f = prog.func(AC + ':_alloc_candidates_multiple_providers')
    chk = AC + ':_check_traits_for_alloc_request'
    prod_loops = [lp for lp in own_nodes(f.node) if isinstance(lp, ast.For)
                  and isinstance(lp.iter, ast.Call) and prog.dotted(
                      f.module, lp.iter.func, f) == 'itertools.product']
    ok = len(prod_loops) == 1 and isinstance(prod_loops[0].target, ast.Name)
    R.ob('R3.3', 'tree-path:product-loop', ok,
         'one loop over the product of per-class provider lists',
         '%d' % len(prod_loops), func=f)
    if ok:
        lp = prod_loops[0]
        lv = lp.target.id
        mk = [x for x in own_nodes_of(lp) if isinstance(x, ast.Call)
              and prog.dotted(f.module, x.func, f) ==
              AC + '.AllocationRequest'.replace(':', '.')
              or isinstance(x, ast.Call) and src(x.func) ==
              'AllocationRequest']
        mk = [x for x in mk if any(x is y for y in ast.walk(lp))]
        okm = bool(mk)
        why = []
        for x in mk:
            conds = C.conds(C.stmt_of(x), lp, implicit=True)
            calls = [(q, pol, node) for q, pol, node in _lit_calls(
                ctx, f, conds) if q == chk]
            g_ok = any(pol and node.args and src(node.args[0]) == lv
                       for _q, pol, node in calls)
            uses = any(isinstance(y, ast.Name) and y.id == lv
                       for y in ast.walk(x))
            # the trait arguments come from the group's search context
            t_ok = False
            for _q, pol, node in calls:
                txt = ' '.join(src(a) for a in node.args[2:]) + ' '.join(
                    src(k.value) for k in node.keywords)
                t_ok = 'required_trait' in txt and 'forbidden_traits' in txt
                deps = C.Deps(f)
                reads = set()
                for a in list(node.args[2:]) + [k.value
                                                for k in node.keywords]:
                    deps.reaches(a, lambda y: reads.add(y.attr) if
                                 isinstance(y, ast.Attribute) else False)
                t_ok = any(r.startswith('required_trait') for r in reads) \
                    and 'forbidden_traits' in reads
            why.append('guarded=%s uses-element=%s traits=%s' % (
                g_ok, uses, t_ok))
            okm = okm and g_ok and uses and t_ok
        R.ob('R3.3', 'tree-path:combination-checked', okm,
             'every combination becomes a request only when '
             '_check_traits_for_alloc_request accepts that same '
             'combination with the group\'s required and forbidden traits',
             why or 'no AllocationRequest built in the loop', func=f,
             node=lp)
    # the check itself refuses on both conditions
    c = prog.func(chk)
    req_p = c.params[2] if len(c.params) > 2 else None
    forb_p = c.params[3] if len(c.params) > 3 else None
    deps = C.Deps(c)
    refusals = {'required': False, 'forbidden': False}
    rets = [r for r in own_nodes(c.node) if isinstance(r, ast.Return)]
    for r in rets:
        if r.value is not None and src(r.value) not in FALSY:
            continue
        for e, pol in C.conds(r, c.node, implicit=True):
            for nm, p in (('required', req_p), ('forbidden', forb_p)):
                if p and deps.reaches(e, lambda y, p=p: isinstance(
                        y, ast.Name) and y.id == p):
                    refusals[nm] = True
    truthy = [r for r in rets if r.value is not None
              and src(r.value) not in FALSY]
    R.ob('R3.3', '_check_traits_for_alloc_request:refuses', all(
        refusals.values()) and bool(truthy),
        'the check answers false under a condition on the forbidden traits '
        'and under a condition on the required traits, and true otherwise',
        refusals, func=c)
    R.count('R3.3', 1, 1)


def r34(ctx, R):
    prog = ctx.prog
    f = prog.func(AC + ':_alloc_candidates_single_provider')
    inf = RWSC + '.in_filtered_anchors'
    rets = [r for r in own_nodes(f.node) if isinstance(r, ast.Return)
            and isinstance(r.value, ast.Name)]
    res = rets[-1].value.id if rets else None
    apps = [x for x in own_nodes(f.node) if isinstance(x, ast.Call)
            and isinstance(x.func, ast.Attribute)
            and x.func.attr in ('append', 'add')
            and res and src(x.func.value) == res]
    R.ob('R3.4', 'single-path:appends', len(apps) >= 1,
         'the path appends requests to the list it returns',
         '%d' % len(apps), func=f)
    loops = [lp for lp in f.node.body if isinstance(lp, ast.For)]
    tup_loops = [lp for lp in loops if src(lp.iter) == (f.params + [None] * 3)[
        2]]
    own_ok = False
    why = 'no loop over the provider tuples'
    all_guarded = True
    if len(tup_loops) == 1 and isinstance(tup_loops[0].target, ast.Tuple) \
            and len(tup_loops[0].target.elts) == 2:
        lp = tup_loops[0]
        root_v = src(lp.target.elts[1])
        why = []
        for ap in apps:
            st = C.stmt_of(ap)
            if not any(st is y for y in ast.walk(lp)):
                continue
            conds = C.conds(st, lp, implicit=True)
            calls = _lit_calls(ctx, f, conds)
            anchors = [node for q, pol, node in calls if q == inf and pol]
            if not anchors:
                all_guarded = False
            # nested loops between the tuple loop and the append
            inner = []
            cur = getattr(st, '_parent', None)
            while cur is not None and cur is not lp:
                if isinstance(cur, (ast.For, ast.While)):
                    inner.append(cur)
                cur = getattr(cur, '_parent', None)
            only_anchor = len(conds) == 1 and len(anchors) == 1 and \
                anchors[0].args and src(anchors[0].args[0]) == root_v
            if only_anchor and not inner:
                own_ok = True
            why.append('append@%d guards=%d own-root-only=%s inner-loops=%d'
                       % (ap.lineno, len(conds), only_anchor, len(inner)))
    R.ob('R3.4', 'single-path:own-root-candidate', own_ok,
         'every matching provider is offered anchored at its own root, '
         'under the anchor filter on that root and nothing else', why,
         func=f)
    R.ob('R3.4', 'single-path:anchor-filter-on-every-append', all_guarded,
         'every request the path produces passed in_filtered_anchors', why,
         func=f)
    g = prog.func(inf)
    me = g.params[0]
    rets = [r for r in own_nodes(g.node) if isinstance(r, ast.Return)]
    # the function as a disjunction: each return contributes (its branch
    # literals AND its value); "a or (not a and b)" is "a or b".  Both the
    # two-return spelling and "return X is None or p in X" give the same
    # two disjuncts.
    disj = []
    found = []
    for r in rets:
        cs = C.conds(r, g.node, implicit=True)
        lit = [(ast.unparse(e), pol) for e, pol in cs]
        found.append('%s under %s' % (
            src(r.value) if r.value is not None else None, lit))
        v = r.value
        if isinstance(v, ast.Constant) and v.value is True:
            disj.append(list(lit))
        elif isinstance(v, ast.Constant) and v.value in (False, None):
            continue
        elif v is not None:
            alts = v.values if isinstance(v, ast.BoolOp) and isinstance(
                v.op, ast.Or) else [v]
            for a_ in alts:
                disj.append(list(lit) + [(ast.unparse(x), p) for x, p in
                                         C.lits(a_, True, [])])
    units = {d[0] for d in disj if len(d) == 1}
    simp = set()
    for d in disj:
        d2 = tuple(sorted(x for x in d if (x[0], not x[1]) not in units))
        simp.add(d2)
    param = g.params[1] if len(g.params) > 1 else None
    attrs = {t for d in simp for t, _p in d}
    oki = False
    for x in sorted(attrs):
        if x.endswith(' is None') and x.startswith(me + '.'):
            X = x[:-len(' is None')]
            oki = simp == {((x, True),), (('%s in %s' % (param, X), True),)}
    R.ob('R3.4', 'in_filtered_anchors:none-or-member', oki,
         'no anchor filter means every anchor; otherwise membership in the '
         'filtered roots', found, func=g)
    R.count('R3.4', 1, 1)


def r35(ctx, R):
    prog = ctx.prog
    # nested_aware bound to the 1.29 gate at the handler
    h = prog.func('placement.handlers.allocation_candidate:'
                  'list_allocation_candidates')
    impl, _c = C.impl_of(ctx, h)
    gb = AC + ':AllocationCandidates.get_by_requests'
    calls = C.calls_to(ctx, impl, gb)
    okg = False
    why = '%d get_by_requests calls' % len(calls)
    for c in calls:
        a = C.kwarg(c, 'nested_aware')
        if a is None and len(c.args) > 3:
            a = c.args[3]
        if a is None:
            continue
        from psa.rules.c05 import single_def
        e = a
        if isinstance(a, ast.Name):
            d = single_def(impl, a.id)
            e = d.value if d is not None else a
        g = ctx.gates.gate_of(impl, e)
        okg = g is not None and g.minv == (1, 29)
        why = 'nested_aware=%s gate=%s' % (src(a), g.minv if g else None)
    R.ob('R3.5', 'nested_aware:bound-to-1.29', okg,
         'the handler passes nested_aware = want_version.matches((1, 29))',
         why, func=impl)
    f = prog.func(RWSC + '.exclude_nested_providers')
    me = f.params[0]
    P = f.params[1]
    rets = [r for r in own_nodes(f.node) if isinstance(r, ast.Return)
            and isinstance(r.value, ast.Tuple) and r.value.elts]
    passthru = [r for r in rets if src(r.value.elts[0]) == P]
    okp = False
    whyp = '%d pass-through returns' % len(passthru)
    if len(passthru) == 1:
        cs = C.conds(passthru[0], f.node, implicit=True)
        # one literal (a or b, positive) or its De Morgan form
        lit = [ast.unparse(e) + ('' if p else ' [neg]') for e, p in cs]
        whyp = lit
        if len(cs) == 1 and cs[0][1] and isinstance(
                cs[0][0], ast.BoolOp) and isinstance(cs[0][0].op, ast.Or):
            vs = cs[0][0].values
            txt = sorted(ast.unparse(v) for v in vs)
            okp = txt == sorted(['%s._nested_aware' % me,
                                 'not %s.has_trees' % me])
    R.ob('R3.5', 'exclude_nested_providers:pass-through', okp,
         'everything passes exactly when the request is nested-aware or the '
         'deployment has no trees', whyp, func=f)
    # the filter: a request is kept iff its providers have pairwise
    # different roots
    filt = None
    for r in rets:
        if r in passthru:
            continue
        if isinstance(r.value.elts[0], ast.Name):
            filt = C.builder_view(f, r.value.elts[0].id)
    okf = False
    whyf = C.view_key(filt) if filt else 'no filtered list'
    if filt is not None and len(filt['gens']) == 1 and src(
            filt['gens'][0][1]) == P and len(filt['conds']) == 1:
        e, pol = filt['conds'][0]
        e = C.fuse_comprehensions(e)
        lv = src(filt['gens'][0][0])
        if pol and isinstance(e, ast.Compare) and isinstance(
                e.ops[0], ast.Eq):
            # len(M) == len(set(M.values())), M = {provider uuid: root uuid
            # for each resource request of the element}  (either order)
            for a, b in ((e.left, e.comparators[0]),
                         (e.comparators[0], e.left)):
                if not (isinstance(a, ast.Call) and src(a.func) == 'len'
                        and len(a.args) == 1 and isinstance(
                            a.args[0], ast.DictComp)):
                    continue
                dc = a.args[0]
                want_b = 'len(set(%s.values()))' % ast.unparse(dc)
                okf = ast.unparse(b) == want_b and src(dc.key).endswith(
                    '.resource_provider.uuid') and src(dc.value).endswith(
                        '.resource_provider.root_provider_uuid') and \
                    ast.unparse(dc.generators[0].iter) == \
                    '%s.resource_requests' % lv and not \
                    dc.generators[0].ifs and len(dc.generators) == 1
                if okf:
                    break
    R.ob('R3.5', 'exclude_nested_providers:one-provider-per-tree', okf,
         'below 1.29 a request is kept iff no two of its providers share a '
         'root', whyf, func=f)
    from psa.rules import c20
    n = C.reuse_obligations(ctx, R, c20._run_c20, 'R3.5',
                            select=lambda o: o.rule == 'R20.3')
    R.count('R3.5', 1 + n, 3)


def r38(ctx, R):
    """The per-combination predicates of the merge cannot be bypassed."""
    prog = ctx.prog
    f = prog.func(AC + ':_satisfies_same_subtree')
    chk = AC + ':_check_same_subtree'
    loops = [lp for lp in f.node.body if isinstance(lp, ast.For)]
    rets_true = [r for r in own_nodes(f.node) if isinstance(r, ast.Return)
                 and isinstance(r.value, ast.Constant)
                 and r.value.value is True]
    ok = len(loops) == 1 and src(loops[0].iter).endswith('.same_subtrees')
    why = '%d top-level loops' % len(loops)
    if ok:
        lp = loops[0]
        calls = [x for x in own_nodes_of(lp) if isinstance(x, ast.Call)
                 and chk in C.call_name(ctx, f, x)]
        ok = len(calls) == 1
        why = '%d _check_same_subtree calls in the loop' % len(calls)
        if ok:
            st = C.stmt_of(calls[0])
            sk = C.skip_conds(st, lp)
            # a false check ends the function with False
            falses = [r for r in own_nodes_of(lp)
                      if isinstance(r, ast.Return) and isinstance(
                          r.value, ast.Constant) and r.value.value is False
                      and any(e is calls[0] and not pol for e, pol in
                              C.conds(r, lp, implicit=True))]
            inside_true = [r for r in rets_true
                           if any(r is y for y in ast.walk(lp))]
            # the False answer depends on the failed check alone (a further
            # literal would let a failing constraint pass)
            extra = [ast.unparse(e) for r in falses
                     for e, pol in C.conds(r, lp, implicit=True)
                     if e is not calls[0]]
            ok = not sk and bool(falses) and not inside_true and bool(
                [r for r in rets_true if r not in inside_true]) and not \
                extra
            sk = sk + [(ast.parse(x, mode='eval').body, True)
                       for x in extra]
            why = 'check skipped under %s; false->False %s; True inside ' \
                'the loop %d' % ([ast.unparse(e) for e, _p in sk],
                                 bool(falses), len(inside_true))
    R.ob('R3.8', '_satisfies_same_subtree:every-constraint-checked', ok,
         'every same_subtree set of the request is tested by '
         '_check_same_subtree on every combination (no set is skipped), a '
         'failing test answers False, True only after all passed', why,
         func=f)
    g = prog.func(AC + ':_satisfies_group_policy')
    pol_p = g.params[1] if len(g.params) > 1 else None
    oke = True
    found = []
    for r in own_nodes(g.node):
        if not (isinstance(r, ast.Return) and isinstance(
                r.value, ast.Constant) and r.value.value is True):
            continue
        ls = C.conds(r, g.node, implicit=True)
        txt = [(ast.unparse(e), p) for e, p in ls]
        found.append(txt)
        not_isolate = any(("%s != 'isolate'" % pol_p, True) == t or (
            "%s == 'isolate'" % pol_p, False) == t for t in txt)
        counted = any(isinstance(e, ast.Compare) and isinstance(
            e.ops[0], (ast.Eq, ast.NotEq)) and pol_p not in C.names_in(e)
            for e, _p in ls)
        # True either because the policy is not isolate, or through the
        # count comparison
        if not (not_isolate or counted):
            oke = False
    R.ob('R3.8', '_satisfies_group_policy:isolate-is-counted', oke and
         bool(found),
         'a combination passes at once only when the policy is not '
         '"isolate"; under isolate it passes only through the comparison of '
         'the provider count with the number of granular groups', found,
         func=g)
    R.count('R3.8', 2, 2)


def r39(ctx, R):
    """Every occurrence of a repeatable request-wide parameter contributes:
    the list of same_subtree sets is one set per occurrence, none skipped
    or merged."""
    prog = ctx.prog
    f = prog.func(LIB + ':RequestWideParams.from_request')
    # the name passed as same_subtrees= to the constructor
    var = None
    for r in own_nodes(f.node):
        if isinstance(r, ast.Return) and isinstance(r.value, ast.Call):
            a = C.kwarg(r.value, 'same_subtrees')
            if isinstance(a, ast.Name):
                var = a.id
    view = C.builder_view(f, var) if var else None
    ok = False
    why = C.view_key(view) if view else 'same_subtrees=%s is not built ' \
        'by one accumulation' % var
    if view is not None and len(view['gens']) == 1:
        it = view['gens'][0][1]
        deps = C.Deps(f)
        from_getall = deps.reaches(it, lambda x: isinstance(x, ast.Call)
                                   and isinstance(x.func, ast.Attribute)
                                   and x.func.attr == 'getall' and x.args
                                   and isinstance(x.args[0], ast.Constant)
                                   and x.args[0].value == 'same_subtree')
        lv = view['gens'][0][0]
        uses_el = isinstance(lv, ast.Name) and any(
            isinstance(x, ast.Name) and x.id == lv.id
            for x in ast.walk(view['elem']))
        ok = view['kind'] == 'list' and from_getall and uses_el and not \
            view['conds']
    R.ob('R3.9', 'from_request:same_subtree-accumulation', ok,
         'each same_subtree occurrence of the query string becomes one set '
         'of the list handed to the search (no occurrence is dropped, '
         'merged or filtered)', why, func=f)
    R.count('R3.9', 1, 1)


def r310(ctx, R):
    """Sets the search narrows in place belong to the group.  The
    single-provider path aliases rg_ctx.<attr> and applies &= / -= to it;
    that is harmless only while the attribute holds an object made for this
    group (a call of a function that builds its result, or a literal) - not
    one looked up in a structure other groups share."""
    prog = ctx.prog
    cls_d = RGSC.replace(':', '.')
    narrowed = {}
    for f in prog.funcs:
        if f.module.name != RC:
            continue
        alias = {}
        for n in own_nodes(f.node):
            if isinstance(n, ast.Assign) and len(n.targets) == 1 and \
                    isinstance(n.targets[0], ast.Name) and isinstance(
                        n.value, ast.Attribute) and isinstance(
                            n.value.value, ast.Name):
                ts = ctx.cg.expr_types(f, n.value.value)
                if cls_d in ts or (f.cls is not None and f.cls.dotted ==
                                   cls_d and n.value.value.id ==
                                   f.params[0]):
                    alias.setdefault(n.targets[0].id, set()).add(
                        n.value.attr)
        for n in own_nodes(f.node):
            if isinstance(n, ast.AugAssign) and isinstance(
                    n.target, ast.Name) and n.target.id in alias:
                for a in alias[n.target.id]:
                    narrowed.setdefault(a, []).append((f, n))
    init = prog.func(RGSC + '.__init__')
    fields = _self_fields(init)
    REVIEWED = {
        '_sharing_providers':
            'the set of all sharing providers is handed to every group; it '
            'is narrowed by get_rps_with_shared_capacity, which only the '
            'one group on the tree path (the unsuffixed one) calls',
    }
    n_ = 0
    for a, sites in sorted(narrowed.items()):
        n_ += 1
        bad = []
        for v in fields.get(a, []):
            fresh = isinstance(v, (ast.Set, ast.List, ast.Dict, ast.SetComp,
                                   ast.ListComp, ast.DictComp)) or (
                isinstance(v, ast.Call) and isinstance(
                    v.func, ast.Name) and (
                        v.func.id in ('set', 'list', 'dict', 'frozenset')
                        or v.func.id in init.module.functions))
            if not fresh:
                bad.append(src(v)[:60])
        ok = not bad or a in REVIEWED
        R.ob('R3.10', 'narrowed-in-place:%s' % a, ok,
             'an attribute of the group\'s search context that the search '
             'narrows in place holds an object built for this group',
             bad and ('assigned from %s%s' % (
                 bad, ' (reviewed: %s)' % REVIEWED[a] if a in REVIEWED
                 else '')) or 'fresh', func=sites[0][0], node=sites[0][1])
    R.count('R3.10', n_, 1)


def r313(ctx, R):
    """get_provider_ids_for_traits_and_aggs tells its caller "a filter left
    nothing" (None) apart from "no filter was applied" (the empty set): the
    caller starts from *all* providers with the resources when it gets the
    empty set.  So after every step that narrows or replaces the set under
    a filter, an empty result must leave with None before the set can be
    returned."""
    prog = ctx.prog
    f = prog.func(RC + ':get_provider_ids_for_traits_and_aggs')
    g = cfgmod.cfg_of(f)
    rets = [r for r in own_nodes(f.node) if isinstance(r, ast.Return)
            and isinstance(r.value, ast.Tuple) and len(r.value.elts) == 2]
    finals = [r for r in rets if isinstance(r.value.elts[0], ast.Name)]
    if not R.ob('R3.13', 'traits-and-aggs:result', len(finals) == 1,
                'one return of (filtered set, forbidden set)',
                [src(r) for r in rets][:4], func=f, nontrivial=False):
        return
    fin = finals[0]
    var = fin.value.elts[0].id
    guards = set()
    for x in own_nodes(f.node):
        if isinstance(x, ast.If) and x.body and isinstance(
                x.body[-1], ast.Return) and isinstance(
                    x.body[-1].value, ast.Tuple) and x.body[-1].value.elts \
                and isinstance(x.body[-1].value.elts[0], ast.Constant) and \
                x.body[-1].value.elts[0].value is None:
            ls = C.lits(x.test, True, [])
            if len(ls) == 1 and not ls[0][1] and isinstance(
                    ls[0][0], ast.Name) and ls[0][0].id == var:
                guards.add(x)
    writes = []
    for x in own_nodes(f.node):
        if isinstance(x, ast.AugAssign) and isinstance(
                x.target, ast.Name) and x.target.id == var:
            writes.append(x)
        elif isinstance(x, ast.Assign) and any(
                isinstance(t, ast.Name) and t.id == var
                for t in x.targets) and C.guarding_ifs(x, f.node):
            writes.append(x)
    bad = [w for w in writes if not g.must_pass(w, fin, guards,
                                                normal_only=True)]
    R.ob('R3.13', 'traits-and-aggs:empty-means-none',
         bool(writes) and bool(guards) and not bad,
         'after every filter step on the result set an empty set leaves '
         'with None (the empty set means "no filter" to the caller, which '
         'then starts from every provider)',
         ['line %d: %s' % (w.lineno, src(w)[:50]) for w in bad] or
         '%d filter steps, %d exits' % (len(writes), len(guards)), func=f)
    R.count('R3.13', len(writes), 3)


def r314(ctx, R):
    """_check_same_subtree answers from the ancestors of every provider in
    the set: apart from the singleton set (trivially one subtree) no path
    returns a value that was not computed from _get_ancestors_by_one_uuid -
    a shortcut over roots or counts is wrong as soon as a sharing provider
    (its own root) is among them."""
    from psa import pathval
    prog = ctx.prog
    f = prog.func(AC + ':_check_same_subtree')
    P = f.params[0]
    paths = [p for p in pathval.paths_of(f) if p.end == 'return']

    def singleton(a, pol):
        return pol and isinstance(a, ast.Compare) and isinstance(
            a.ops[0], ast.Eq) and src(a.left).replace(' ', '') == \
            'len(%s)' % P and src(a.comparators[0]) == '1'
    bad = []
    n = 0
    for p in paths:
        ret = p.stmts[-1]
        v = p.value_at(ret, ret.value) if ret.value is not None else None
        n += 1
        uses = v is not None and any(
            isinstance(x, ast.Call) and src(x.func).endswith(
                '_get_ancestors_by_one_uuid') for x in ast.walk(v))
        if uses:
            continue
        if pathval.holds(p, singleton) and isinstance(
                v, ast.Constant) and v.value is True:
            continue
        bad.append('returns %s when %s' % (
            src(v)[:40] if v is not None else None,
            [t for t, pl in p.cond_srcs()][-2:]))
    R.ob('R3.14', '_check_same_subtree:answers-from-ancestors',
         bool(paths) and not bad,
         'every answer other than the singleton case is computed from the '
         'ancestors of each provider of the set', bad[:3] or
         '%d returning paths' % n, func=f)
    R.count('R3.14', n, 2)


def run(ctx, R):
    r313(ctx, R)
    r314(ctx, R)
    r31(ctx, R)
    r32(ctx, R)
    r33(ctx, R)
    r34(ctx, R)
    r35(ctx, R)
    r38(ctx, R)
    r39(ctx, R)
    r310(ctx, R)
    # R3.11 (nothing omitted) and the R2.6 exits of the per-class
    # intersection of trees (nothing returned that lacks a class)
    from psa.rules import c02
    c02.r26(ctx, R, 'R3.11', premature=True)
    c02.r26(ctx, R, 'R3.12')
    from psa.rules import c20
    n6 = C.reuse_obligations(ctx, R, c20.r205, 'R3.6')
    R.count('R3.6', n6, 3)
    from psa import sqlshape
    n7 = sqlshape.shape_rule(ctx, R, 'R3.7', [
        RC + ':get_providers_with_resource', RC + ':_usage_select',
        RC + ':provider_ids_matching_aggregates',
        RC + ':provider_ids_matching_required_traits',
        RC + ':get_provider_ids_having_any_trait',
        RC + ':get_sharing_providers',
        RC + ':anchors_for_sharing_providers',
        RC + ':_get_trees_with_traits', RC + ':_get_roots_with_traits',
        RC + ':get_providers_with_root',
        RC + ':get_usages_by_provider_trees'])
    R.count('R3.7', n7, 11)
    # the aggregate filter of a candidate search: an any-of group ignores
    # uuids never recorded and empties the result only when wholly unknown
    # (the listing's R13.7, on the function both share)
    from psa.rules import c13
    n15 = C.reuse_obligations(ctx, R, c13.r137, 'R3.15')
    R.count('R3.15', n15, 1)
    n16 = C.reuse_obligations(ctx, R, c13.r139, 'R3.16')
    R.count('R3.16', n16, 1)
