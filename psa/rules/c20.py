"""C20 - limit and randomisation only select from the full candidate set."""
import ast

from psa import cfg as cfgmod
from psa import model
from psa import normform
from psa.model import own_nodes, own_nodes_of, src
from psa.rules import common as C
from psa.rules import c05

EXPLANATION = (
    "R20.1 provenance: in RequestWideSearchContext.limit_results the "
    "returned request list is the parameter, parameter[:self._limit] or "
    "random.sample(parameter, self._limit), the latter two only under "
    "self._limit and self._limit < len(parameter); random.shuffle is the "
    "only other operation on it. R20.2: every random.* call in the service "
    "is control-dependent on config.placement."
    "randomize_allocation_candidates. R20.3: _get_by_requests runs merge -> "
    "exclude_nested_providers -> limit_results and returns the latter's "
    "result unchanged. R20.4: the kept summaries are all summaries whose "
    "root is the root of a provider named by a kept request (both loops "
    "cover every element).")
ASSUMPTIONS = ["random.sample(xs, k) returns k distinct positions of xs; "
               "xs[:k] returns min(k, len(xs)) leading elements",
               "order determinism across processes (hash seeds) is not "
               "decided"]

RC = 'placement.objects.research_context'
LIMIT = RC + ':RequestWideSearchContext.limit_results'


def run(ctx, R):
    prog = ctx.prog
    f = prog.func(LIMIT)
    g = cfgmod.cfg_of(f)
    P, S = f.params[1], f.params[2]
    # limit attribute comes from the request
    init = prog.func(RC + ':RequestWideSearchContext.__init__')
    sets = [n for n in own_nodes(init.node) if isinstance(n, ast.Assign)
            and any(src(t) == 'self._limit' for t in n.targets)]
    R.ob('R20.1', 'limit-source', len(sets) == 1 and src(
        sets[0].value).endswith('.limit'),
        'self._limit is the request\'s limit', [src(s) for s in sets],
        func=init, nontrivial=False)
    assigns = [n for n in own_nodes(f.node) if isinstance(n, ast.Assign)
               and any(isinstance(t, ast.Name) and t.id == P
                       for t in n.targets)]
    nz = normform.Normalizer(None, lambda e: None, inline=False)
    want_guard = nz.cmp(ast.parse('self._limit < len(%s)' % P,
                                  mode='eval').body)
    def defs_of(name):
        return [x for x in own_nodes(f.node) if isinstance(x, ast.Assign)
                and any(isinstance(t, ast.Name) and t.id == name
                        for t in x.targets)]

    def kind_of(v, depth=0):
        """'slice' / 'sample' when v is P[:self._limit] or
        random.sample(P, self._limit), possibly through local aliases."""
        if isinstance(v, ast.Subscript) and src(v.value) == P and isinstance(
                v.slice, ast.Slice) and v.slice.lower is None and \
                v.slice.step is None and v.slice.upper is not None and src(
                    v.slice.upper) == 'self._limit':
            return 'slice'
        if isinstance(v, ast.Call) and prog.dotted(
                f.module, v.func, f) == 'random.sample' and len(
                    v.args) == 2 and src(v.args[0]) == P and src(
                        v.args[1]) == 'self._limit' and not v.keywords:
            return 'sample'
        if isinstance(v, ast.Name) and v.id != P and depth < 3:
            ks = {kind_of(d.value, depth + 1) for d in defs_of(v.id)}
            if ks and None not in ks:
                return '+'.join(sorted(ks))
        return None

    # assignments that produce the limited list: to P or to a local alias
    # that is later stored into P
    aliases = {a.value.id for a in assigns if isinstance(a.value, ast.Name)}
    producing = [a for a in assigns if not isinstance(a.value, ast.Name)]
    for al in sorted(aliases):
        producing += defs_of(al)
    n = 0
    for a in assigns:
        n += 1
        v = a.value
        kind = kind_of(v)
        R.ob('R20.1', 'assign@%s' % src(v)[:40], kind is not None,
             'the request list is only replaced by %s[:self._limit] or '
             'random.sample(%s, self._limit)' % (P, P), src(v), func=f,
             node=a)
    for a in producing:
        v = a.value
        ifs = C.guarding_ifs(a, f.node)
        # branch literals (explicit tests and guard clauses alike): the
        # limit is set, and it is smaller than the number of requests
        ls = C.conds(a, f.node, implicit=True)
        truthy = any(pol and src(e) == 'self._limit' for e, pol in ls)
        cmps = []
        for e, pol in ls:
            c = nz.cmp(e)
            if c is not None:
                cmps.append(c if pol else c.negate())
        okg = truthy and want_guard in cmps
        R.ob('R20.1', 'guard@%s' % src(v)[:40], okg,
             'limiting happens only when self._limit and self._limit < '
             'len(%s)' % P, [src(i.test) for i, _b in ifs], func=f, node=a)
    R.count('R20.1', n, 1)
    # other operations on P
    bad = []
    for c in own_nodes(f.node):
        if isinstance(c, ast.Call):
            d = prog.dotted(f.module, c.func, f)
            if isinstance(c.func, ast.Attribute) and src(
                    c.func.value) == P and c.func.attr in (
                        'append', 'extend', 'pop', 'remove', 'insert',
                        'sort', 'reverse', 'clear', '__setitem__'):
                bad.append(c)
            elif d and d.startswith('random.') and d not in (
                    'random.sample', 'random.shuffle'):
                bad.append(c)
            elif d == 'random.shuffle' and not (len(c.args) == 1 and src(
                    c.args[0]) == P):
                bad.append(c)
        if isinstance(c, (ast.Subscript,)) and isinstance(
                c.ctx, (ast.Store, ast.Del)) and src(c.value) == P:
            bad.append(c)
        if isinstance(c, ast.AugAssign) and src(c.target) == P:
            bad.append(c)
    R.ob('R20.1', 'no-other-mutation', not bad,
         'nothing else adds, removes or replaces elements of the request '
         'list', [src(b)[:50] for b in bad], func=f)
    rets = [n for n in own_nodes(f.node) if isinstance(n, ast.Return)]
    okr = bool(rets) and all(isinstance(r.value, ast.Tuple) and [
        src(x) for x in r.value.elts] == [P, S] for r in rets)
    R.ob('R20.1', 'returns-list', okr,
         'limit_results returns (requests, summaries)', [src(r.value)
                                                         for r in rets],
         func=f)
    # ---- R20.2 ----------------------------------------------------------
    n2 = 0
    for h in prog.funcs:
        for c in own_nodes(h.node):
            if not isinstance(c, ast.Call):
                continue
            d = prog.dotted(h.module, c.func, h)
            if not (d and (d.startswith('random.') or d == 'random')):
                continue
            n2 += 1
            ifs = C.guarding_ifs(C.stmt_of(c), h.node)
            def _is_flag(t):
                if isinstance(t, ast.Name):
                    d = c05.single_def(h, t.id)
                    t = d.value if d is not None else t
                return src(t).endswith(
                    'config.placement.randomize_allocation_candidates')
            ok = any(br == 'body' and _is_flag(i.test) for i, br in ifs)
            R.ob('R20.2', '%s:%s' % (h.qbase, d), ok,
                 'random.* is called only under '
                 'config.placement.randomize_allocation_candidates',
                 [src(i.test)[:60] for i, _b in ifs], func=h, node=c)
    for m in prog.modules.values():
        for imp in ast.walk(m.tree):
            if isinstance(imp, ast.ImportFrom) and imp.module == 'random':
                R.ob('R20.2', '%s:from-random-import' % m.name, False,
                     'random is used through the module name only (so that '
                     'every use is visible to this rule)',
                     [a.name for a in imp.names])
    R.count('R20.2', n2, 2)
    # ---- R20.3 -------------------------------------------------------------
    gb = prog.func('placement.objects.allocation_candidate:'
                   'AllocationCandidates._get_by_requests')
    mer = C.calls_to(ctx, gb, 'placement.objects.allocation_candidate:'
                     '_merge_candidates')
    exc = C.calls_to(ctx, gb, RC + ':RequestWideSearchContext.'
                     'exclude_nested_providers')
    lim = C.calls_to(ctx, gb, LIMIT)
    ok = len(mer) == 1 and len(exc) == 1 and len(lim) == 1
    R.ob('R20.3', 'pipeline:sites', ok,
         'one merge, one exclude_nested_providers, one limit_results',
         '%d/%d/%d' % (len(mer), len(exc), len(lim)), func=gb)
    if ok:
        def targets(call):
            st = C.stmt_of(call)
            if isinstance(st, ast.Assign) and isinstance(
                    st.targets[0], ast.Tuple):
                return [src(x) for x in st.targets[0].elts]
            return None
        mt, et = targets(mer[0]), targets(exc[0])
        okm = mt is not None and [src(a) for a in exc[0].args] == mt
        oke = et is not None and [src(a) for a in lim[0].args] == et
        lst = C.stmt_of(lim[0])
        okret = isinstance(lst, ast.Return) and lst.value is lim[0]
        gg = cfgmod.cfg_of(gb)
        order = gg.dominates(C.stmt_of(mer[0]), C.stmt_of(exc[0])) and \
            gg.dominates(C.stmt_of(exc[0]), lst)
        # no reassignment of the intermediate names in between
        R.ob('R20.3', 'pipeline:order', okm and oke and okret and order,
             'limit_results(exclude_nested_providers(_merge_candidates())) '
             'and its result is returned unchanged',
             'merge->exclude %s, exclude->limit %s, returned %s' % (
                 okm, oke, okret), func=gb, node=lim[0])
        # the only other returns are the empty short-cuts
        others = [r for r in own_nodes(gb.node) if isinstance(r, ast.Return)
                  and r is not lst]
        oko = all(src(r.value).replace(' ', '').strip('()') == '[],[]'
                  for r in others)
        R.ob('R20.3', 'pipeline:other-returns', oko,
             'every other return is the empty result', [src(r.value)
                                                        for r in others],
             func=gb, nontrivial=False)
    R.count('R20.3', 1, 1)
    # ---- R20.4 ----------------------------------------------------------------
    # Stated over builder views (common.builder_view), so loops with
    # append/add/continue and comprehensions are one shape.
    kept = [n for n in own_nodes(f.node) if isinstance(n, ast.Assign)
            and any(isinstance(t, ast.Name) and t.id == S
                    for t in n.targets)]
    ok4 = False
    why = '%d assignments to the summaries' % len(kept)
    if len(kept) == 1:
        kv = kept[0].value
        if isinstance(kv, ast.Name):
            kview = C.builder_view(f, kv.id)
        else:
            kview = C.builder_view(f, S)
        roots_name = None
        if kview is not None:
            for e, _pol in kview['conds']:
                if isinstance(e, ast.Compare) and len(e.ops) == 1 and \
                        isinstance(e.comparators[0], ast.Name):
                    roots_name = e.comparators[0].id
        rview = C.builder_view(f, roots_name) if roots_name else None
        why = 'kept=%s roots=%s' % (C.view_key(kview), C.view_key(rview))
        if kview is not None and rview is not None:
            L = src(rview['gens'][0][1]) if rview['gens'] else None
            want_roots = 'set{v1.resource_provider.root_provider_uuid | ' \
                'v0 in LIST; v1 in v0.resource_requests}'
            want_kept = 'list{v0 | v0 in SUMS; if v0.resource_provider.' \
                'root_provider_uuid in ROOTS}'
            okr = (L == P or L in aliases) and C.view_key(
                rview, {L: 'LIST'}) == want_roots
            oks = C.view_key(kview, {S: 'SUMS', roots_name: 'ROOTS'}) == \
                want_kept
            rl, sl = rview['stmt'], kview['stmt']
            # the roots are collected from the limited list ...
            okdom = bool(producing) and g.must_pass(
                cfgmod.ENTRY, rl, set(producing))
            # ... and that very list is what is returned: after the roots
            # were collected nothing rebinds the list they were taken from,
            # and the returned name is it (directly, or by a plain copy of
            # the alias)
            after = g.reachable_from([rl]) - set(own_nodes_of(rl))
            for x in after:
                if not isinstance(x, ast.Assign):
                    continue
                for t in x.targets:
                    if isinstance(t, ast.Name) and t.id == L:
                        okdom = False
                    if isinstance(t, ast.Name) and t.id == P and L != P \
                            and src(x.value) != L:
                        okdom = False
            if L != P:
                copies = [x for x in after if isinstance(x, ast.Assign)
                          and any(isinstance(t, ast.Name) and t.id == P
                                  for t in x.targets)
                          and src(x.value) == L]
                okdom = okdom and bool(copies) and g.must_pass(
                    rl, cfgmod.EXIT, set(copies), normal_only=True)
            ok4 = okr and oks and okdom and g.dominates(rl, sl) and (
                sl is kept[0] or g.dominates(sl, kept[0]))
            why = 'roots-view %s, summaries-view %s, list %s; %s' % (
                okr, oks, okdom, why)
    R.ob('R20.4', 'kept-summaries', ok4,
         'kept summaries = every summary whose root is the root of a '
         'provider named by a kept request', why, func=f)
    R.count('R20.4', 1, 1)


def _conj(test):
    if isinstance(test, ast.BoolOp) and isinstance(test.op, ast.And):
        out = []
        for v in test.values:
            out.extend(_conj(v))
        return out
    return [test]


def r205(ctx, R):
    """Distinctness: candidates are collected in a set, so __eq__/__hash__
    of the request objects must agree on what 'the same candidate' is."""
    prog = ctx.prog
    AC = 'placement.objects.allocation_candidate'
    for cls, fields in (('AllocationRequestResource',
                         ['resource_provider.id', 'resource_class',
                          'amount']),):
        eq = prog.func('%s:%s.__eq__' % (AC, cls))
        hs = prog.func('%s:%s.__hash__' % (AC, cls))
        cmpn = [c for c in own_nodes(eq.node) if isinstance(c, ast.Compare)
                and isinstance(c.ops[0], ast.Eq)]
        eq_fields = sorted(
            C.psrc(eq, c.left).replace('self.', '') for c in cmpn
            if C.psrc(eq, c.left).startswith('self.') and C.psrc(
                eq, c.comparators[0]) == C.psrc(eq, c.left).replace(
                    'self.', 'other.'))
        hcall = [c for c in own_nodes(hs.node) if isinstance(c, ast.Call)
                 and src(c.func) == 'hash']
        h_fields = []
        if len(hcall) == 1 and isinstance(hcall[0].args[0], ast.Tuple):
            h_fields = sorted(C.psrc(hs, x).replace('self.', '')
                              for x in hcall[0].args[0].elts)
        R.ob('R20.5', '%s:eq-hash-agree' % cls,
             eq_fields == sorted(fields) and h_fields == sorted(fields),
             'equality and hash are both over %s' % fields,
             'eq %s hash %s' % (eq_fields, h_fields), func=eq)
    eq = prog.func(AC + ':AllocationRequest.__eq__')
    hs = prog.func(AC + ':AllocationRequest.__hash__')
    body = C.psrc(eq, eq.node.body[-1]) if eq.node.body else ''
    ok_eq = 'set(self.resource_requests) == set(other.resource_requests)' \
        in body and 'self.mappings == other.mappings' in body and isinstance(
            eq.node.body[-1], ast.Return) and isinstance(
                eq.node.body[-1].value, ast.BoolOp) and isinstance(
                    eq.node.body[-1].value.op, ast.And) and len(
                        eq.node.body[-1].value.values) == 2
    hb = ' '.join(C.psrc(hs, s) for s in hs.node.body)
    ok_h = 'self.resource_requests' in hb and 'hash(tuple(' in hb and \
        'sorted(' in hb and 'mappings' not in hb
    R.ob('R20.5', 'AllocationRequest:eq-hash-agree', ok_eq and ok_h,
         'two requests are equal iff they hold the same resource requests '
         'and mappings; the hash is order-independent over the resource '
         'requests (equal objects hash equally)',
         'eq-ok=%s hash-ok=%s' % (ok_eq, ok_h), func=eq)
    # the merge collects into a set and returns every element
    m = prog.func(AC + ':_merge_candidates')
    sv = merged_set_var(m)
    inits = [n for n in own_nodes(m.node) if isinstance(n, ast.Assign)
             and sv and src(n.targets[0]) == sv and src(n.value) == 'set()']
    rets = [r for r in own_nodes(m.node) if isinstance(r, ast.Return)
            and isinstance(r.value, ast.Tuple) and sv and src(
                r.value.elts[0]) == 'list(%s)' % sv]
    R.ob('R20.5', '_merge_candidates:set-of-candidates',
         len(inits) == 1 and len(rets) == 1,
         'merged candidates are de-duplicated through a set and all of them '
         'are returned', 'inits=%d returns=%d' % (len(inits), len(rets)),
         func=m)
    R.count('R20.5', 1, 1)


def merged_set_var(m):
    """The name _merge_candidates returns as list(<name>) in the first
    position of its result tuple."""
    for r in own_nodes(m.node):
        if isinstance(r, ast.Return) and isinstance(
                r.value, ast.Tuple) and r.value.elts:
            e = r.value.elts[0]
            if isinstance(e, ast.Call) and isinstance(
                    e.func, ast.Name) and e.func.id == 'list' and len(
                        e.args) == 1 and isinstance(e.args[0], ast.Name):
                return e.args[0].id
    return None


_run_c20 = run


def r206(ctx, R):
    """What limit_results selected is what the response carries: the
    serialisers render exactly one element per allocation request (nothing
    is skipped, merged or added after the limit was applied)."""
    prog = ctx.prog
    HC = 'placement.handlers.allocation_candidate'
    n = 0
    for q in (HC + ':_transform_allocation_requests_dict',
              HC + ':_transform_allocation_requests_list'):
        f = prog.func(q)
        n += 1
        g = cfgmod.cfg_of(f)
        rets = [r for r in own_nodes(f.node) if isinstance(r, ast.Return)]
        res = rets[0].value.id if len(rets) == 1 and isinstance(
            rets[0].value, ast.Name) else None
        loops = [x for x in own_nodes(f.node) if isinstance(x, ast.For)
                 and src(x.iter) == f.params[0]]
        ok = res is not None and len(loops) == 1
        why = 'returns %s, %d loops over the requests' % (res, len(loops))
        if ok:
            lp = loops[0]
            apps = [c for c in own_nodes_of(lp) if isinstance(c, ast.Call)
                    and isinstance(c.func, ast.Attribute)
                    and c.func.attr in ('append', 'extend', 'insert')
                    and src(c.func.value) == res]
            skips = [x for x in own_nodes_of(lp)
                     if isinstance(x, (ast.Continue, ast.Break))
                     and _innermost_loop(x, f.node) is lp]
            one = len(apps) == 1 and apps[0].func.attr == 'append' and \
                any(C.stmt_of(apps[0]) is st for st in lp.body)
            # nothing else touches the result list
            other = [c for c in own_nodes(f.node) if isinstance(c, ast.Call)
                     and isinstance(c.func, ast.Attribute)
                     and src(c.func.value) == res and c not in apps]
            init = c05.single_def(f, res)
            ok = one and not skips and not other and init is not None and \
                isinstance(init.value, ast.List) and not init.value.elts
            why = 'appends=%d (top level of the loop: %s), skips=%d, ' \
                'other uses=%d' % (len(apps), one, len(skips), len(other))
        R.ob('R20.6', '%s:one-element-per-request' % f.qbase.split(':')[1],
             ok, 'the serialiser appends exactly one element for every '
             'allocation request it is given', why, func=f)
    # and the handler hands it the limited list unchanged: the serialisers
    # are given <candidates>.allocation_requests of the object that
    # get_by_requests returned, nothing in between filters or rebuilds it
    import re
    sers = {HC + ':_transform_allocation_requests_dict',
            HC + ':_transform_allocation_requests_list'}
    for h in prog.funcs:
        if h.module.name != HC:
            continue
        for s_ in ctx.cg.calls_in(h):
            if not any(c.qbase in sers for c in s_.callees):
                continue
            a0 = s_.node.args[0] if s_.node.args else None
            cn = C.canon(h, a0) if a0 is not None else None
            ok = bool(cn and re.match(r'^arg\d+\.allocation_requests$', cn))
            src_ok = False
            if ok:
                # ... and that parameter is bound to get_by_requests(...)
                i = int(re.match(r'^arg(\d+)', cn).group(1))
                src_ok = True
                for g_ in prog.funcs:
                    for s2 in ctx.cg.calls_in(g_):
                        if h in s2.callees and i < len(s2.node.args):
                            c2 = C.canon(g_, s2.node.args[i])
                            if not c2.startswith('get_by_requests('):
                                src_ok = False
            R.ob('R20.6', '%s:serialises-the-limited-list' % h.qbase.split(
                ':')[1], ok and src_ok,
                'the serialiser is handed the allocation_requests of the '
                'object get_by_requests returned, unchanged', cn, func=h,
                node=s_.node)
    # ... and nothing in the handler module rebinds or edits the result's
    # lists after the limit was applied (dropping "duplicates", re-sorting,
    # appending): what is serialised is what limit_results selected
    touched = []
    MUT = ('remove', 'pop', 'clear', 'sort', 'reverse', 'append', 'extend',
           'insert', 'discard', 'add', 'update')
    ATTRS = ('allocation_requests', 'provider_summaries')
    n_fn = 0
    for h in prog.funcs:
        if h.module.name != HC:
            continue
        n_fn += 1
        for x in own_nodes(h.node):
            tg = []
            if isinstance(x, ast.Assign):
                tg = x.targets
            elif isinstance(x, (ast.AugAssign, ast.AnnAssign)):
                tg = [x.target]
            elif isinstance(x, ast.Delete):
                tg = x.targets
            for t in tg:
                for y in ast.walk(t):
                    if isinstance(y, ast.Attribute) and y.attr in ATTRS \
                            and not isinstance(y.ctx, ast.Load):
                        touched.append((h, x))
                    if isinstance(y, ast.Subscript) and isinstance(
                            y.value, ast.Attribute) and \
                            y.value.attr in ATTRS and not isinstance(
                                y.ctx, ast.Load):
                        touched.append((h, x))
            if isinstance(x, ast.Call) and isinstance(
                    x.func, ast.Attribute) and x.func.attr in MUT and \
                    isinstance(x.func.value, ast.Attribute) and \
                    x.func.value.attr in ATTRS:
                touched.append((h, x))
    R.ob('R20.6', 'handler:result-lists-untouched', not touched,
         'the handler module never rebinds or edits allocation_requests / '
         'provider_summaries of the candidates it was given (the limit has '
         'already been applied to them)',
         ['%s line %d: %s' % (h.name, x.lineno, src(x)[:60])
          for h, x in touched] or '%d functions scanned' % n_fn,
         func=touched[0][0] if touched else None,
         node=touched[0][1] if touched else None)
    R.count('R20.6', n, 2)


def _innermost_loop(node, stop):
    cur = getattr(node, '_parent', None)
    while cur is not None and cur is not stop:
        if isinstance(cur, (ast.For, ast.While)):
            return cur
        cur = getattr(cur, '_parent', None)
    return None


def r207(ctx, R):
    """The search does not know the limit: RequestWideSearchContext._limit
    (the attribute the request's limit is stored in) is read by
    limit_results only.  A merge that stops early truncates before the
    nested-provider exclusion and the de-duplication have run."""
    prog = ctx.prog
    init = prog.func(RC + ':RequestWideSearchContext.__init__')
    attr = None
    for n in own_nodes(init.node):
        if isinstance(n, ast.Assign) and isinstance(
                n.targets[0], ast.Attribute) and src(n.value).endswith(
                    '.limit'):
            attr = n.targets[0].attr
    readers = []
    for f in prog.funcs:
        if f.module.name not in (RC, 'placement.objects.'
                                 'allocation_candidate'):
            continue
        for x in own_nodes(f.node):
            if isinstance(x, ast.Attribute) and x.attr == attr and \
                    isinstance(x.ctx, ast.Load):
                readers.append(f.qbase)
    ok = attr is not None and set(readers) == {LIMIT}
    R.ob('R20.7', 'limit-read-only-by-limit_results', ok,
         'the stored limit (%s) is read by limit_results only: the search '
         'and the merge produce the full set' % attr, sorted(set(readers)),
         func=init)
    # ... and the request's limit reaches the search through that attribute
    # only: RequestWideParams.limit is read by the search context's
    # constructor and nowhere else (a copy handed to a request group or to a
    # query would cut before the request-wide filters have run)
    fld_readers = []
    for f in prog.funcs:
        if not f.module.name.startswith('placement.') or \
                f.module.name.startswith('placement.tests'):
            continue
        for x in own_nodes(f.node):
            if isinstance(x, ast.Attribute) and x.attr == 'limit' and \
                    isinstance(x.ctx, ast.Load) and not (
                        isinstance(x.value, ast.Name) and x.value.id in (
                            'sa', 'query', 'sel', 'subq')):
                par = getattr(x, '_parent', None)
                if isinstance(par, ast.Call) and par.func is x:
                    continue        # <query>.limit(n): the SQL method
                fld_readers.append(f.qbase)
    okf = set(fld_readers) == {init.qbase}
    R.ob('R20.7', 'request-limit-read-only-by-search-context', okf,
         'RequestWideParams.limit is read only where the search context '
         'stores it', sorted(set(fld_readers)), func=init)
    R.count('R20.7', 1, 1)


def run(ctx, R):
    _run_c20(ctx, R)
    r205(ctx, R)
    r206(ctx, R)
    r207(ctx, R)
