"""C12 - consumers exist exactly while they hold allocations."""
import ast

from psa import cfg as cfgmod
from psa import model
from psa.model import own_nodes, own_nodes_of, src
from psa.rules import common as C
from psa.rules import c04, c05

EXPLANATION = (
    "R12.1: consumer rows are inserted only by Consumer.create <- "
    "_create_consumer <- ensure_consumer (and the CLI migration) and deleted "
    "only by the two listed helpers. R12.2: the allocation write ends, on "
    "every normal path and inside its scope, with "
    "delete_consumers_if_no_allocations on (visited - with positive "
    "amount); delete_all calls it after the row delete. R12.3: consumers "
    "created by a failing request are deleted (R4.3). R12.4: on every normal "
    "path of an allocation-writing handler a consumer created by the request "
    "flows into an Allocation handed to the write, or the writer closure "
    "removes it again when it ends up without allocations. R12.5: "
    "placeholders come from the registered incomplete_consumer_* options, "
    "update_consumers runs inside the writer closure before the write, the "
    "consumer type is handled under the 1.38 gate.")
ASSUMPTIONS = []

ENSURE = 'placement.handlers.util:ensure_consumer'
CREATE = 'placement.handlers.util:_create_consumer'
DCINA = 'placement.objects.consumer:delete_consumers_if_no_allocations'
NEW_ALLOCS = 'placement.handlers.allocation:_new_allocations'
CONS_CREATE = 'placement.objects.consumer:Consumer.create'


def r121(ctx, R):
    n = 0
    allowed_i = {'placement.objects.consumer:Consumer.create>_create_in_db',
                 'placement.objects.consumer:create_incomplete_consumers'}
    for f in ctx.prog.funcs:
        for e in ctx.effects.direct[f]:
            if e.table == 'consumers' and e.op == 'I':
                n += 1
                R.ob('R12.1', 'insert:consumers in %s' % f.qbase,
                     f.qbase in allowed_i,
                     'consumer rows are inserted only by Consumer.create '
                     '(and the CLI migration)', f.qname, func=f, node=e.node)
    who = {
        CONS_CREATE: {CREATE},
        CREATE: {ENSURE},
        'placement.objects.consumer:create_incomplete_consumers':
            {'placement.cmd.manage:DbCommands.online_data_migrations',
             'placement.cmd.manage:online_migrations'},
    }
    for q, allowed in sorted(who.items()):
        f = ctx.prog.func(q)
        cs = {c.qbase for c in ctx.cg.callers.get(f, ())}
        if q.endswith('create_incomplete_consumers'):
            ok = all(c.startswith('placement.cmd.') for c in cs)
        else:
            ok = cs <= allowed
        R.ob('R12.1', 'callers:%s' % q.split(':')[1], ok,
             'called only from %s' % sorted(x.split(':')[1]
                                            for x in allowed), sorted(cs),
             func=f)
    # handlers reach ensure_consumer only from the three writers
    ens = ctx.prog.func(ENSURE)
    cs = {c.qbase for c in ctx.cg.callers.get(ens, ())}
    R.ob('R12.1', 'callers:ensure_consumer', cs <= {
        'placement.handlers.allocation:_set_allocations_for_consumer',
        'placement.handlers.allocation:inspect_consumers'},
        'ensure_consumer is called only by the allocation writers',
        sorted(cs), func=ens)
    R.count('R12.1', n, 2)


def r122(ctx, R):
    prog = ctx.prog
    f = prog.func('placement.objects.allocation:_set_allocations')
    g = cfgmod.cfg_of(f)
    calls = C.calls_to(ctx, f, DCINA)
    if R.ob('R12.2', '_set_allocations:cleanup-call', len(calls) == 1,
            'one delete_consumers_if_no_allocations call', len(calls),
            func=f):
        st = C.stmt_of(calls[0])
        ok = g.must_pass(cfgmod.ENTRY, cfgmod.EXIT, {st}) and not \
            C.guarding_ifs(st, f.node)
        R.ob('R12.2', '_set_allocations:cleanup-on-all-paths', ok,
             'every normal path of the write ends with the removal of '
             'consumers left without allocations', 'ok' if ok else
             'a path skips it', func=f, node=st)
        ins = [e for e in ctx.effects.direct[f]
               if e.op == 'I' and e.table == 'allocations']
        oka = all(g.must_pass(e.stmt, cfgmod.EXIT, {st}) for e in ins)
        R.ob('R12.2', '_set_allocations:cleanup-after-inserts', oka,
             'the removal follows the INSERTs', 'order', func=f, node=st,
             nontrivial=False)
        # argument = visited - with_positive
        arg = calls[0].args[1] if len(calls[0].args) > 1 else None
        okarg = False
        why = src(arg) if arg is not None else None
        # the difference itself, or a local bound to it
        dv = None
        if isinstance(arg, ast.Name):
            d = c05.single_def(f, arg.id)
            dv = d.value if d is not None else None
        elif arg is not None:
            dv = arg
        if dv is not None:
            # a - b, or a.difference(b)
            dl = dr = None
            if isinstance(dv, ast.BinOp) and isinstance(dv.op, ast.Sub):
                dl, dr = dv.left, dv.right
            elif isinstance(dv, ast.Call) and isinstance(
                    dv.func, ast.Attribute) and \
                    dv.func.attr == 'difference' and len(
                        dv.args) == 1 and not dv.keywords:
                dl, dr = dv.func.value, dv.args[0]
            if dl is not None:
                left = c05.single_def(f, src(dl))
                right = c05.single_def(f, src(dr))
                why = '%s' % src(dv)
                if left is not None and right is not None:
                    lv = C.fuse_comprehensions(
                        C.inline_locals(f, left.value))
                    rv = C.fuse_comprehensions(
                        C.inline_locals(f, right.value))
                    ls = src(lv)
                    rs = src(rv)
                    ok_l = '.uuid' in ls and '.values()' in ls and not \
                        _has_filter(lv)
                    ok_r = '.consumer.uuid' in rs and f.params[1] in rs and \
                        _filter_is_positive(rv)
                    okarg = ok_l and ok_r
                    why += '; %s; %s' % (ls[:50], rs[:60])
        R.ob('R12.2', '_set_allocations:cleanup-argument', okarg,
             'candidates = all visited consumers minus those with an amount '
             '> 0 in the written list', why, func=f, node=calls[0])
    d = prog.func('placement.objects.allocation:delete_all')
    g2 = cfgmod.cfg_of(d)
    dc = C.calls_to(ctx, d, DCINA)
    dl = C.calls_to(ctx, d, 'placement.objects.allocation:'
                    '_delete_allocations_by_ids')
    ok = len(dc) == 1 and len(dl) == 1 and g2.dominates(
        C.stmt_of(dl[0]), C.stmt_of(dc[0])) and g2.must_pass(
            cfgmod.ENTRY, cfgmod.EXIT, {C.stmt_of(dc[0])})
    okarg = False
    if len(dc) == 1 and len(dc[0].args) > 1 and isinstance(
            dc[0].args[1], ast.Name):
        dd = c05.single_def(d, dc[0].args[1].id)
        okarg = dd is not None and '.consumer.uuid' in src(dd.value) and \
            d.params[1] in src(dd.value) and not _has_filter(dd.value)
    R.ob('R12.2', 'delete_all:cleanup', ok and okarg,
         'DELETE /allocations removes the consumers of the deleted rows '
         'once they hold nothing', 'calls=%d/%d arg-ok=%s' % (
             len(dl), len(dc), okarg), func=d)
    R.count('R12.2', 1, 1)


def _has_filter(e):
    for n in ast.walk(e):
        if isinstance(n, ast.comprehension) and n.ifs:
            return True
    return False


def _filter_is_positive(e):
    for n in ast.walk(e):
        if isinstance(n, ast.comprehension):
            if len(n.ifs) != 1:
                return False
            t = src(n.ifs[0]).replace(' ', '')
            return t.endswith('.used>0') or t.startswith('0<')
    return False


def _is_path_uuid(ctx, f, name, depth=0):
    """Every definition of name is util.wsgi_path_item(req.environ,
    'consumer_uuid'), or a normalisation of name itself or of another local
    that is the path uuid."""
    defs = [n for n in own_nodes(f.node) if isinstance(n, ast.Assign)
            and any(isinstance(t, ast.Name) and t.id == name
                    for t in n.targets)]
    base = 0
    for d in defs:
        v = d.value
        if isinstance(v, ast.Call) and 'placement.util:wsgi_path_item' in \
                C.call_name(ctx, f, v) and len(v.args) > 1 and isinstance(
                    v.args[1], ast.Constant) and \
                v.args[1].value == 'consumer_uuid':
            base += 1
            continue
        used = C.names_in(v)
        if name in used:
            continue
        # str(uuid.UUID(<other local that is the path uuid>))
        loc = {x for x in used if any(
            isinstance(n, ast.Assign) and any(
                isinstance(t, ast.Name) and t.id == x for t in n.targets)
            for n in own_nodes(f.node))}
        if depth < 3 and len(loc) == 1 and not (
                used & set(f.params)) and _is_path_uuid(
                    ctx, f, next(iter(loc)), depth + 1):
            base += 1
            continue
        return False
    return base >= 1


def _in_handler_names(ctx, impl, c, names, depth=0):
    """The names ``names`` of module-level function c, read in the names of
    handler impl: parameters of c are replaced by the names in the
    arguments its callers (the handler, its closures, its module-level
    transaction helpers) bind to them, locals of those callers resolved
    through their one definition."""
    if depth > 3:
        return names
    tr = set()
    callers = [impl] + [h_ for h_ in c04.s_closures(ctx, impl) if h_ is not c]
    for g_ in callers:
        for s_ in ctx.cg.calls_in(g_):
            if c not in s_.callees:
                continue
            for pn in names & set(c.params):
                a_ = C.arg_for_param(s_.node, c, pn)
                if a_ is None:
                    continue
                got = C.names_in(C.inline_locals(g_, a_))
                if g_ is not impl and g_.parent is None:
                    got = _in_handler_names(ctx, impl, g_, got, depth + 1)
                tr |= got
    return (names - set(c.params)) | tr


def r124(ctx, R):
    prog = ctx.prog
    n = 0
    # functions that may leave a created consumer without an Allocation
    put = prog.func('placement.handlers.allocation:'
                    '_set_allocations_for_consumer')
    cal = prog.func('placement.handlers.allocation:create_allocation_list')

    def bypass(f, scope_loop=None):
        g = cfgmod.cfg_of(f)
        sts = {C.stmt_of(c) for c in C.calls_to(ctx, f, NEW_ALLOCS)}
        # a loop containing the call counts as passing it only if the loop
        # cannot be empty -> treat the enclosing branch statement instead
        via = set()
        for st in sts:
            cur = st
            while getattr(cur, '_parent', None) is not None and not \
                    isinstance(cur._parent, (ast.If, ast.FunctionDef)) and \
                    cur._parent is not scope_loop:
                cur = cur._parent
            via.add(st)
            via.add(cur)
        if scope_loop is None:
            return not g.must_pass(cfgmod.ENTRY, cfgmod.EXIT, via), via
        first = scope_loop.body[0]
        return not (first in via or g.must_pass(first, scope_loop, via)), via

    need = {}
    b, _ = bypass(put)
    need[put] = b
    loops = [x for x in own_nodes(cal.node) if isinstance(x, ast.For)
             and src(x.iter) == cal.params[1]]
    b2 = True
    if len(loops) == 1:
        b2, _ = bypass(cal, loops[0])
    for impl_q in c04.ALLOC_WRITERS:
        for impl in prog.funcs_named(impl_q):
            n += 1
            needs = need.get(impl)
            if needs is None:
                uses = bool(C.calls_to(ctx, impl, cal.qbase))
                needs = b2 if uses else True
            closures = [c for c in c04.s_closures(ctx, impl)
                        if ctx.effects.scope_kind(c) == 'writer']
            if not needs:
                R.ob('R12.4', '%s:created-consumer-consumed' % impl.qname,
                     True, 'every path builds an Allocation for the '
                     'created consumer', 'no bypass', func=impl)
                continue
            ok = False
            why = 'a path builds no Allocation for a consumer created by ' \
                'this request (empty allocations) and nothing removes it'
            for c in closures:
                g = cfgmod.cfg_of(c)
                dc = C.calls_to(ctx, c, DCINA)
                wr = [s.node for s in ctx.cg.calls_in(c) if any(
                    x.qbase in ('placement.objects.allocation:replace_all',
                                'placement.objects.reshaper:reshape')
                    for x in s.callees)]
                if len(dc) == 1 and len(wr) == 1 and g.dominates(
                        C.stmt_of(wr[0]), C.stmt_of(dc[0])):
                    arg = dc[0].args[1] if len(dc[0].args) > 1 else None
                    acq = [s.node for s in ctx.cg.calls_in(impl) if any(
                        x.qbase in (c04.ENSURE, c04.INSPECT)
                        for x in s.callees)]
                    names = set()
                    for a in acq:
                        st = C.stmt_of(a)
                        if isinstance(st, ast.Assign):
                            names |= {x.id for x in ast.walk(st.targets[0])
                                      if isinstance(x, ast.Name)}
                        # the uuid the consumer was acquired for
                        names |= {x.id for x in a.args
                                  if isinstance(x, ast.Name)
                                  and _is_path_uuid(ctx, impl, x.id)}
                    argn = C.names_in(arg) if arg is not None else set()
                    # a transaction function that is not nested in the
                    # handler receives the handler's values as parameters:
                    # read the argument in the handler's names
                    if c.parent is None and argn & set(c.params):
                        argn = _in_handler_names(ctx, impl, c, argn)
                    ifs = C.guarding_ifs(C.stmt_of(dc[0]), c.node)
                    cond_ok = all(isinstance(i.test, ast.Name)
                                  and i.test.id in names and br == 'body'
                                  for i, br in ifs)
                    if argn & names and cond_ok:
                        ok = True
                        why = 'closure removes %s after the write' % src(arg)
                    else:
                        why = 'cleanup argument %s / condition %s' % (
                            src(arg) if arg is not None else None,
                            [src(i[0].test) for i in ifs])
            R.ob('R12.4', '%s:created-consumer-consumed' % impl.qname, ok,
                 'a consumer created by the request either receives an '
                 'Allocation or is removed inside the writer closure when it '
                 'ends up without allocations', why, func=impl)
    R.count('R12.4', n, 3)


def r125(ctx, R):
    prog = ctx.prog
    f = prog.func(ENSURE)
    # placeholders
    # positions, not spellings: ensure_consumer(ctx, consumer_uuid,
    # project_id, user_id, ...)
    pj = f.params[2] if len(f.params) > 3 else None
    us = f.params[3] if len(f.params) > 3 else None
    ifs = [n for n in own_nodes(f.node) if isinstance(n, ast.If)
           and isinstance(n.test, ast.Compare) and len(n.test.ops) == 1
           and isinstance(n.test.ops[0], ast.Is) and src(n.test.left) == pj
           and src(n.test.comparators[0]) == 'None']
    ok = False
    why = 'no "<project id parameter> is None" branch'
    if len(ifs) == 1:
        vals = {}
        for st in ifs[0].body:
            if isinstance(st, ast.Assign) and isinstance(
                    st.targets[0], ast.Name):
                vals[st.targets[0].id] = src(st.value)
        why = vals
        ok = vals.get(pj, '').endswith(
            'config.placement.incomplete_consumer_project_id') and \
            vals.get(us, '').endswith(
                'config.placement.incomplete_consumer_user_id')
        # the placeholder assignment precedes every use of the two values
        # as an argument (the project / user lookups, whatever they are
        # called)
        g = cfgmod.cfg_of(f)
        look = [s.node for s in ctx.cg.calls_in(f) if any(
            isinstance(a, ast.Name) and a.id in (pj, us)
            for a in list(s.node.args) + [k.value for k in s.node.keywords])]
        used = {a.id for x in look for a in list(x.args) + [
            k.value for k in x.keywords] if isinstance(a, ast.Name)}
        ok = ok and {pj, us} <= used and all(
            g.dominates(ifs[0], C.stmt_of(x)) for x in look)
    R.ob('R12.5', 'ensure_consumer:placeholders', ok,
         'a request without project_id uses the configured '
         'incomplete_consumer_project_id / incomplete_consumer_user_id',
         why, func=f)
    opts = prog.const('placement.conf.placement', 'placement_opts')
    names = set()
    for o in opts if isinstance(opts, list) else []:
        if isinstance(o, model.CallRec) and o.args:
            names.add(o.args[0])
    R.ob('R12.5', 'conf:options-registered',
         {'incomplete_consumer_project_id',
          'incomplete_consumer_user_id'} <= names,
         'both placeholder options are registered in [placement]',
         sorted(names))
    # consumer type under the 1.38 gate
    from psa.rules.c06 import _flag_name
    flag = _flag_name(ctx, f, (1, 38))
    gts = [s.node for s in ctx.cg.calls_in(f) if any(
        x.qbase == 'placement.handlers.util:get_or_create_consumer_type_id'
        for x in s.callees)]
    okt = flag is not None and bool(gts)
    for c in gts:
        gi = C.guarding_ifs(C.stmt_of(c), f.node)
        if not any(isinstance(i.test, ast.Name) and i.test.id == flag
                   and br == 'body' for i, br in gi):
            okt = False
    R.ob('R12.5', 'ensure_consumer:type-under-1.38', okt,
         'the consumer type is looked up / created only under '
         'matches((1, 38))', 'flag=%s sites=%d' % (flag, len(gts)), func=f)
    # update_consumers inside the writer closure, before the write
    n = 0
    for impl_q in c04.ALLOC_WRITERS:
        for impl in prog.funcs_named(impl_q):
            n += 1
            ok = False
            why = 'no writer closure calls update_consumers'
            for c in c04.s_closures(ctx, impl):
                if ctx.effects.scope_kind(c) != 'writer':
                    continue
                up = C.calls_to(ctx, c, 'placement.handlers.util:'
                                'update_consumers')
                wr = [s.node for s in ctx.cg.calls_in(c) if any(
                    x.qbase in ('placement.objects.allocation:replace_all',
                                'placement.objects.reshaper:reshape')
                    for x in s.callees)]
                if len(up) == 1 and len(wr) == 1:
                    ok = cfgmod.cfg_of(c).dominates(C.stmt_of(up[0]),
                                                    C.stmt_of(wr[0]))
                    why = 'update before write: %s' % ok
            # and nowhere outside a writer closure
            outside = list(C.calls_to(ctx, impl, 'placement.handlers.util:'
                                      'update_consumers'))
            for c in c04.s_closures(ctx, impl):
                if ctx.effects.scope_kind(c) != 'writer':
                    outside += C.calls_to(ctx, c, 'placement.handlers.util:'
                                          'update_consumers')
            R.ob('R12.5', '%s:update_consumers-in-closure' % impl.qname,
                 ok and not outside,
                 'project/user/type updates of existing consumers happen '
                 'inside the write transaction, before the write',
                 why + ('; also called outside the closure' if outside
                        else ''), func=impl)
    R.count('R12.5', n, 3)


def run(ctx, R):
    r121(ctx, R)
    r122(ctx, R)
    n3 = c04.r43(ctx, R, 'R12.3')
    R.count('R12.3', n3, 3)
    r124(ctx, R)
    r125(ctx, R)
    from psa import sqlshape
    n = sqlshape.shape_rule(ctx, R, 'R12.6', [
        'placement.objects.consumer:delete_consumers_if_no_allocations'])
    n += sqlshape.shape_rule(ctx, R, 'R12.6', [
        'placement.objects.consumer:_delete_consumer'])
    R.count('R12.6', n, 2)


def r127(ctx, R):
    """update_consumers: when are the consumer's attributes rewritten."""
    prog = ctx.prog
    f = prog.func('placement.handlers.util:update_consumers')
    loops = [x for x in own_nodes(f.node) if isinstance(x, ast.For)
             and src(x.iter) == f.params[0]]
    if not R.ob('R12.7', 'update_consumers:loop', len(loops) == 1 and not [
            x for x in own_nodes_of(loops[0]) if isinstance(
                x, (ast.Continue, ast.Break))] if loops else False,
            'every consumer passed in is examined', len(loops), func=f):
        return
    lp = loops[0]
    c = src(lp.target)

    def resolve(e):
        if isinstance(e, ast.Name):
            d = c05.single_def(f, e.id)
            if d is not None:
                return resolve(d.value)
        return src(e)
    ifs = [x for x in lp.body if isinstance(x, ast.If)]
    pu = [x for x in ifs if any(
        isinstance(n, ast.Assign) and any(
            src(t) in ('%s.project' % c, '%s.user' % c) for t in n.targets)
        for n in own_nodes_of(x))]
    ok = False
    why = '%d project/user blocks' % len(pu)
    if len(pu) == 1:
        t = pu[0].test
        disj = t.values if isinstance(t, ast.BoolOp) and isinstance(
            t.op, ast.Or) else [t]
        pairs = set()
        for d in disj:
            if isinstance(d, ast.Compare) and isinstance(
                    d.ops[0], ast.NotEq):
                a = resolve(d.left.value) if isinstance(
                    d.left, ast.Attribute) else src(d.left)
                b = src(d.comparators[0])
                pairs.add((src(d.left).rsplit('.', 1)[-1],
                           a.rsplit('.', 1)[-1], b))
        want = {('external_id', 'project', '%s.project.external_id' % c),
                ('external_id', 'user', '%s.user.external_id' % c)}
        sets = {src(t_): src(n.value) for n in own_nodes_of(pu[0])
                if isinstance(n, ast.Assign) for t_ in n.targets}
        upd = [x for x in own_nodes_of(pu[0]) if isinstance(x, ast.Call)
               and src(x.func) == '%s.update' % c]
        ok = pairs == want and len(disj) == 2 and len(upd) == 1 and \
            '%s.project' % c in sets and '%s.user' % c in sets and \
            not pu[0].orelse
        why = 'condition %s; sets %s; update calls %d' % (
            src(t)[:90], sorted(sets), len(upd))
    R.ob('R12.7', 'update_consumers:project-or-user-differs', ok,
         'project and user of an existing consumer are rewritten when the '
         'request names a different project OR a different user', why,
         func=f)
    ty = [x for x in ifs if any(
        isinstance(n, ast.Assign) and any(
            src(t) == '%s.consumer_type_id' % c for t in n.targets)
        for n in own_nodes_of(x))]
    ok = False
    why = '%d type blocks' % len(ty)
    if len(ty) == 1:
        t = ty[0].test
        conj = t.values if isinstance(t, ast.BoolOp) and isinstance(
            t.op, ast.And) else [t]
        names = set()
        neq = False
        for d in conj:
            if isinstance(d, (ast.Name, ast.Attribute)):
                names.add(src(d))
            if isinstance(d, ast.Compare) and isinstance(
                    d.ops[0], ast.NotEq) and src(
                        d.comparators[0]) == '%s.consumer_type_id' % c:
                neq = True
                names.add(src(d.left))
        upd = [x for x in own_nodes_of(ty[0]) if isinstance(x, ast.Call)
               and src(x.func) == '%s.update' % c]
        ok = neq and len(names) == 1 and len(conj) <= 2 and len(upd) == 1
        if ok:
            # the requested type: a local bound to, or directly, the
            # consumer_type_id of the request attributes
            nm = list(names)[0]
            if '.' in nm:
                ok = nm.endswith('.consumer_type_id') and not nm.startswith(
                    c + '.')
            else:
                d = c05.single_def(f, nm)
                ok = d is not None and src(d.value).endswith(
                    '.consumer_type_id')
        why = 'condition %s' % src(t)
    R.ob('R12.7', 'update_consumers:type-differs', ok,
         'the consumer type is rewritten when the request carries a type '
         'that differs from the stored one', why, func=f)
    R.count('R12.7', 1, 1)


_run_c12 = run


def run(ctx, R):
    _run_c12(ctx, R)
    r127(ctx, R)
    r128(ctx, R)


def flag_truthful(ctx, f, pos, depth=0):
    """(ok, why): on every path through f that returns, element ``pos`` of
    the returned tuple is False, or True on a path that passed a
    Consumer.create() of this function (and is not in a handler around it),
    or the truthful flag of a callee.  Decided per path with the values
    propagated along it: a flag variable, literal returns per branch and a
    flag handed up from a helper are the same thing."""
    from psa import pathval
    if depth > 3:
        return False, 'recursion'
    creates = [C.stmt_of(s_.node) for s_ in ctx.cg.calls_in(f)
               if any(c.qbase == CONS_CREATE for c in s_.callees)]
    sites = {(s_.node.lineno, s_.node.col_offset): s_
             for s_ in ctx.cg.calls_in(f)}
    paths = [p for p in pathval.paths_of(f) if p.end == 'return']
    if not paths:
        return False, '%s returns nothing' % f.qbase
    for p in paths:
        ret = p.stmts[-1]
        if not (isinstance(ret.value, ast.Tuple) and len(
                ret.value.elts) > pos):
            # a tuple built earlier and returned by name
            whole = p.value_at(ret, ret.value)
            if not (isinstance(whole, ast.Tuple) and len(whole.elts) > pos):
                return False, 'line %d: %s does not return a tuple with a ' \
                    'flag at position %d' % (ret.lineno, f.qbase, pos)
            v = whole.elts[pos]
        else:
            v = p.value_at(ret, ret.value.elts[pos])
        if isinstance(v, ast.Constant) and v.value is False:
            continue
        if isinstance(v, ast.Constant) and v.value is True:
            if not any(p.passed(cs) for cs in creates):
                return False, 'line %d reports the consumer as created on ' \
                    'a path without a Consumer.create() of this request ' \
                    'having succeeded' % ret.lineno
            continue
        if isinstance(v, ast.Subscript) and isinstance(
                v.slice, ast.Constant) and isinstance(v.value, ast.Call):
            s_ = sites.get((v.value.lineno, v.value.col_offset))
            if s_ is None or len(s_.callees) != 1:
                return False, 'line %d: flag from an unresolved call' % \
                    ret.lineno
            ok, why = flag_truthful(ctx, s_.callees[0], v.slice.value,
                                    depth + 1)
            if not ok:
                return False, '%s: %s' % (
                    s_.callees[0].qbase.split(':')[1], why)
            continue
        return False, 'line %d: flag is %s' % (ret.lineno, src(v)[:40])
    return True, 'False, or True only after a successful create()'


def r128(ctx, R, rule='R12.8'):
    """The flag that licenses the removal of an auto-created consumer is
    true only when this request's Consumer.create() succeeded."""
    f = ctx.prog.func(ENSURE)
    ok, why = flag_truthful(ctx, f, 1)
    R.ob(rule, 'ensure_consumer:created-flag-truthful', ok,
         'the created-new-consumer flag (which licenses deleting the '
         'consumer when the write fails) is true only after a '
         'Consumer.create() of this request returned normally; a consumer '
         'found or lost to a racing creator is never reported as created',
         why, func=f)
    # the handlers' cleanup is conditioned on that flag
    n = 0
    for s_ in [x for g in ctx.prog.funcs for x in ctx.cg.calls_in(g)
               if f in x.callees]:
        g = s_.caller
        st = C.stmt_of(s_.node)
        if not (isinstance(st, ast.Assign) and isinstance(
                st.targets[0], ast.Tuple) and len(
                    st.targets[0].elts) == 3 and isinstance(
                        st.targets[0].elts[1], ast.Name)):
            R.ob(rule, '%s:unpacks-flag' % g.qbase, False,
                 'callers unpack (consumer, created, attrs)', src(st)[:60],
                 func=g, node=st)
            continue
        n += 1
    R.count(rule, n, 2)


def r129(ctx, R):
    """The compensation that removes a consumer this request created is
    unconditional: Consumer.delete() reaches the DELETE on every path and
    has no condition of its own under which it gives up (delete_consumers
    logs and swallows whatever it raises - a refusal there is a consumer
    left behind without allocations)."""
    prog = ctx.prog
    f = prog.func('placement.objects.consumer:Consumer.delete')
    # the function and whatever it reaches inside the consumer module
    reach = [g for g in ctx.cg.reachable([f])
             if g.module.name == 'placement.objects.consumer']
    dels = [(g, e) for g in reach for e in ctx.effects.direct.get(g, ())
            if e.op == 'D' and e.table == 'consumers']
    raises = [(g, n) for g in reach for n in own_nodes(g.node)
              if isinstance(n, ast.Raise)]
    reads = [(g, e) for g in reach for e in ctx.effects.direct.get(g, ())
             if e.op == 'R']
    ok = len(dels) == 1 and not raises and not reads
    if ok:
        g, e = dels[0]
        cg_ = cfgmod.cfg_of(g)
        ok = cg_.must_pass(cfgmod.ENTRY, cfgmod.EXIT, {e.stmt},
                           normal_only=True)
        # ... and every function on the way calls the next unconditionally
        cur = g
        while ok and cur is not f:
            callers = [h for h in reach if cur in ctx.cg.callees(h)]
            if len(callers) != 1:
                ok = False
                break
            h = callers[0]
            sts = [C.stmt_of(s.node) for s in ctx.cg.calls_in(h)
                   if cur in s.callees]
            ok = bool(sts) and cfgmod.cfg_of(h).must_pass(
                cfgmod.ENTRY, cfgmod.EXIT, set(sts), normal_only=True)
            cur = h
    R.ob('R12.9', 'Consumer.delete:unconditional', ok,
         'Consumer.delete() issues the DELETE on every path: no test, no '
         'read, no raise of its own stands before it',
         'deletes=%d raises=%s reads=%d' % (
             len(dels), ['%s line %d' % (g.name, n.lineno)
                         for g, n in raises][:3], len(reads)), func=f)
    R.count('R12.9', 1, 1)


_run_c12b = run


def run(ctx, R):
    _run_c12b(ctx, R)
    r129(ctx, R)


def r1210(ctx, R):
    """ensure_consumer never refuses the request after it has created the
    consumer: no raise of its own is reachable, on a normal path, from the
    call that creates (and commits) the record - the callers' clean-up runs
    only around what follows ensure_consumer's return."""
    f = ctx.prog.func(ENSURE)
    CREATE = 'placement.handlers.util:_create_consumer'
    g = cfgmod.cfg_of(f)
    creates = [C.stmt_of(s.node) for s in ctx.cg.calls_in(f)
               if any(c.qbase == CREATE for c in s.callees)]
    raises = [n for n in own_nodes(f.node) if isinstance(n, ast.Raise)]
    bad = []
    for cst in creates:
        reach = g.reachable_from(list(g.succ.get(cst, ())), normal_only=True)
        bad.extend(r for r in raises if r in reach)
    R.ob('R12.10', 'ensure_consumer:no-refusal-after-create',
         len(creates) >= 1 and not bad,
         'every test that can refuse the request comes before the consumer '
         'is created', ['line %d: %s' % (r.lineno, src(r)[:50])
                        for r in bad] or '%d create call(s), %d raises '
         'before' % (len(creates), len(raises)), func=f)
    R.count('R12.10', len(creates), 1)


_run_c12c = run


def run(ctx, R):
    _run_c12c(ctx, R)
    r1210(ctx, R)
