"""C05 - a write guarded by a provider generation succeeds only against it."""
import ast

from psa import cfg as cfgmod
from psa import model
from psa.model import own_nodes, own_nodes_of, src
from psa.rules import common as C

EXPLANATION = (
    "R5.1: ResourceProvider.increment_generation is a compare-and-swap: one "
    "UPDATE of resource_providers whose WHERE holds id == self.id and "
    "generation == g with g read from self.generation, SET generation = g+1, "
    "rowcount != 1 raises a ConcurrentUpdateDetected subclass, the in-memory "
    "generation is assigned only afterwards. R5.2: in the five handlers that "
    "carry a provider generation, a comparison of the body's generation with "
    "the freshly read provider raising 409/placement.concurrent_update "
    "dominates the mutator call on that same object. R5.3: in every handler "
    "that reaches a generation increment, no ConcurrentUpdateDetected escapes"
    " and each conversion answers HTTPConflict with comment "
    "placement.concurrent_update.")
ASSUMPTIONS = [
    "the schedule statement follows from R5.1-R5.3, R5.6 = R10.1 (increment in the "
    "same scope as the data change) and DBMS atomicity; it is not re-derived",
]

CUD = 'placement.exception.ConcurrentUpdateDetected'
CONCURRENT_UPDATE = 'placement.concurrent_update'
RP_INCR = 'placement.objects.resource_provider:ResourceProvider.increment_generation'
CONS_INCR = 'placement.objects.consumer:Consumer.increment_generation'
RP_GET = 'placement.objects.resource_provider:ResourceProvider.get_by_uuid'


def flatten_and(e):
    """Operands of nested sa.and_(...) / sql.and_(...)."""
    if isinstance(e, ast.Call) and isinstance(e.func, ast.Attribute) and \
            e.func.attr == 'and_':
        out = []
        for a in e.args:
            out.extend(flatten_and(a))
        return out
    return [e]


def chain_calls(e):
    """[(method name, Call)] of a fluent chain, root first."""
    out = []
    cur = e
    while isinstance(cur, ast.Call) and isinstance(cur.func, ast.Attribute):
        out.append((cur.func.attr, cur))
        cur = cur.func.value
    out.reverse()
    return out, cur


def single_def(f, name):
    defs = [n for n in own_nodes(f.node) if isinstance(n, ast.Assign) and any(
        isinstance(t, ast.Name) and t.id == name for t in n.targets)]
    return defs[0] if len(defs) == 1 else None


def cas_shape(ctx, R, rule, q, table, label):
    """Obligations for a compare-and-swap increment method."""
    prog = ctx.prog
    f = prog.func(q)
    g = cfgmod.cfg_of(f)
    es = [e for e in ctx.effects.direct[f] if e.op in 'IUD']
    ok = len(es) == 1 and es[0].op == 'U' and es[0].table == table and \
        es[0].columns == {'generation'}
    R.ob(rule, '%s:one-update' % label, ok,
         'exactly one UPDATE of %s setting only generation' % table,
         [repr(e) for e in es], func=f)
    if not ok:
        return
    e = es[0]
    build = e.build
    # the statement expression: follow the variable to its full chain
    stmt_expr = None
    if isinstance(e.node, ast.Call) and e.node.args:
        a = e.node.args[0]
        if isinstance(a, ast.Name):
            d = single_def(f, a.id)
            stmt_expr = d.value if d is not None else None
        else:
            stmt_expr = a
    if stmt_expr is None:
        R.ob(rule, '%s:statement' % label, False,
             'the executed statement has a single definition', 'not found',
             func=f)
        return
    calls, root = chain_calls(stmt_expr)
    names = [c[0] for c in calls]
    wh = [c for n, c in calls if n == 'where']
    vals = [c for n, c in calls if n == 'values']
    conds = []
    for w in wh:
        for a in w.args:
            conds.extend(flatten_and(a))
    # a condition given a name first is that condition
    for _i in range(2):
        resolved = []
        for c in conds:
            if isinstance(c, ast.Name):
                d = single_def(f, c.id)
                if d is not None:
                    resolved.extend(flatten_and(d.value))
                    continue
            resolved.append(c)
        conds = resolved
    id_ok = gen_ok = False
    gen_rhs = None
    for c in conds:
        if isinstance(c, ast.Compare) and len(c.ops) == 1 and isinstance(
                c.ops[0], ast.Eq):
            l, r = src(c.left), c.comparators[0]
            if l.endswith('.c.id') and ctx.effects.table_of(
                    f, c.left.value.value) == table and src(r) == 'self.id':
                id_ok = True
            if l.endswith('.c.generation') and ctx.effects.table_of(
                    f, c.left.value.value) == table:
                gen_rhs = r
                gen_ok = True
    R.ob(rule, '%s:where-id' % label, id_ok,
         'WHERE contains %s.id == self.id' % table,
         [src(c) for c in conds], func=f, node=stmt_expr)
    # g read from self.generation
    g_name = None
    if gen_ok:
        if isinstance(gen_rhs, ast.Name):
            d = single_def(f, gen_rhs.id)
            if d is not None and src(d.value) == 'self.generation':
                g_name = gen_rhs.id
            else:
                gen_ok = False
        elif src(gen_rhs) == 'self.generation':
            g_name = 'self.generation'
        else:
            gen_ok = False
    R.ob(rule, '%s:where-generation' % label, gen_ok,
         'WHERE contains %s.generation == g with g read from '
         'self.generation' % table, [src(c) for c in conds], func=f,
         node=stmt_expr)
    # values(generation = g + 1)
    v_ok = False
    new_name = None
    found_v = 'no values()'
    if len(vals) == 1:
        kv = C.kwarg(vals[0], 'generation')
        found_v = src(kv) if kv is not None else 'no generation='
        expr = kv
        if isinstance(kv, ast.Name):
            d = single_def(f, kv.id)
            new_name = kv.id
            expr = d.value if d is not None else None
            found_v = '%s = %s' % (kv.id, src(expr) if expr is not None
                                   else '?')
        if isinstance(expr, ast.BinOp) and isinstance(expr.op, ast.Add):
            parts = sorted([src(expr.left), src(expr.right)])
            v_ok = g_name is not None and parts == sorted([g_name, '1'])
    R.ob(rule, '%s:set-g-plus-1' % label, v_ok,
         'SET generation = g + 1', found_v, func=f, node=stmt_expr)
    # rowcount test
    exec_stmt = e.stmt
    res_name = None
    if isinstance(exec_stmt, ast.Assign) and isinstance(
            exec_stmt.targets[0], ast.Name):
        res_name = exec_stmt.targets[0].id
    # stated over branch literals: the conflict is raised exactly when
    # rowcount != 1 and the in-memory generation advances exactly when
    # rowcount == 1 - "if rc != 1: raise; store" and "if rc == 1: store;
    # return; raise" are one shape
    def rc_literal(node):
        """(True/False, ok): the single literal under which node runs, as
        'rowcount == 1' polarity."""
        ls = C.conds(node, f.node, implicit=True)
        if len(ls) != 1:
            return None
        e, pol = ls[0]
        if not (isinstance(e, ast.Compare) and len(e.ops) == 1 and
                res_name is not None and src(e.left) ==
                '%s.rowcount' % res_name and isinstance(
                    e.comparators[0], ast.Constant)
                and e.comparators[0].value == 1):
            return None
        if isinstance(e.ops[0], ast.Eq):
            return pol
        if isinstance(e.ops[0], ast.NotEq):
            return not pol
        return None
    raises_ = [x for x in own_nodes(f.node) if isinstance(x, ast.Raise)
               and x.exc is not None]
    guard = None
    r_ok = False
    found_r = 'no rowcount test'
    if len(raises_) == 1:
        exc = ctx.raises.exc_name(f, raises_[0].exc)
        sub = exc is not None and ctx.raises.is_subclass(exc, CUD)
        lit = rc_literal(raises_[0])
        found_r = 'raise %s when rowcount == 1 is %s' % (exc, lit)
        guard = C.outer_if(raises_[0], f.node)
        if guard is None:
            ig = C.implicit_guards(raises_[0], f.node)
            guard = ig[0][0] if ig else None
        r_ok = bool(sub) and lit is False and guard is not None and \
            g.dominates(exec_stmt, guard)
    R.ob(rule, '%s:rowcount' % label, r_ok,
         'rowcount != 1 raises a ConcurrentUpdateDetected subclass right '
         'after the UPDATE', found_r, func=f, node=guard or exec_stmt)
    # in-memory generation assigned only afterwards
    stores = [n for n in own_nodes(f.node) if isinstance(n, ast.Assign)
              and any(src(t) == 'self.generation' for t in n.targets)]
    s_ok = len(stores) == 1 and guard is not None and g.dominates(
        exec_stmt, stores[0]) and rc_literal(stores[0]) is True and (
            (new_name is not None and src(stores[0].value) == new_name) or
            (g_name and src(stores[0].value).replace(' ', '') in (
                '%s+1' % g_name, '1+%s' % g_name)))
    R.ob(rule, '%s:memory-after' % label, bool(s_ok),
         'self.generation is advanced only after the rowcount test, to the '
         'value written', [src(s) for s in stores], func=f)
    # no except in the method
    trys = [n for n in own_nodes(f.node) if isinstance(n, ast.Try)]
    R.ob(rule, '%s:no-try' % label, not trys,
         'the increment does not catch anything', '%d try' % len(trys),
         func=f, nontrivial=False)


def c04_swallows(f, h):
    from psa.rules.c04 import handler_swallows
    return handler_swallows(f, h)


def conflict_conversions(ctx, impl):
    """[(try, handler, raises)] for except clauses catching the CUD family."""
    out = []
    for n in own_nodes(impl.node):
        if isinstance(n, ast.Try):
            for h in n.handlers:
                hts = ctx.raises.handler_types(impl, h)
                if hts is None:
                    continue
                if any(ctx.raises.is_subclass(t, CUD) or t == CUD
                       for t in hts):
                    rs = [x for x in own_nodes_of(h)
                          if isinstance(x, ast.Raise)]
                    out.append((n, h, rs))
    return out


def is_conflict_raise(ctx, f, r, need_comment=True):
    """raise webob.exc.HTTPConflict(..., comment=errors.CONCURRENT_UPDATE)"""
    if r.exc is None or not isinstance(r.exc, ast.Call):
        return False, 're-raise'
    name = ctx.raises.exc_name(f, r.exc)
    if name != 'webob.exc.HTTPConflict':
        return False, 'raises %s' % name
    if not need_comment:
        return True, 'ok'
    cm = C.kwarg(r.exc, 'comment')
    val = C.const_str(ctx, f, cm)
    if val != CONCURRENT_UPDATE:
        return False, 'comment=%s' % (src(cm) if cm is not None else None)
    return True, 'ok'


GEN_KEY = 'resource_provider_generation'


def _mentions_body_generation(f, e, depth=0):
    """Expression derives from <body>['resource_provider_generation']."""
    if depth > 3:
        return False
    for n in ast.walk(e):
        if isinstance(n, ast.Subscript) and isinstance(
                n.slice, ast.Constant) and n.slice.value == GEN_KEY:
            return True
    if isinstance(e, ast.Name):
        d = single_def(f, e.id)
        if d is not None:
            return _mentions_body_generation(f, d.value, depth + 1)
    return False


def early_checks(ctx, impl):
    """If statements comparing a body generation with <X>.generation and
    raising the 409: [(if node, X name)]."""
    out = []
    for n in own_nodes(impl.node):
        if not isinstance(n, ast.If):
            continue
        # the comparison itself, its negation, or a local flag bound to it
        t, neg = n.test, False
        for _i in range(3):
            if isinstance(t, ast.UnaryOp) and isinstance(t.op, ast.Not):
                t, neg = t.operand, not neg
            elif isinstance(t, ast.Name):
                d = single_def(impl, t.id)
                if d is None:
                    break
                t = d.value
        if not (isinstance(t, ast.Compare) and len(t.ops) == 1 and (
                isinstance(t.ops[0], ast.NotEq) and not neg or
                isinstance(t.ops[0], ast.Eq) and neg)):
            continue
        sides = [t.left, t.comparators[0]]
        x = None
        other = None
        for a, b in ((sides[0], sides[1]), (sides[1], sides[0])):
            if isinstance(a, ast.Attribute) and a.attr == 'generation' and \
                    isinstance(a.value, ast.Name):
                x, other = a.value.id, b
        if x is None or not _mentions_body_generation(impl, other):
            continue
        rs = [s for s in n.body if isinstance(s, ast.Raise)]
        if len(n.body) != 1 or len(rs) != 1 or n.orelse:
            continue
        ok, _why = is_conflict_raise(ctx, impl, rs[0])
        if ok:
            out.append((n, x))
    return out


R52 = {
    # handler qbase -> (mutator predicate description, finder)
    'placement.handlers.inventory:set_inventories': 'set_inventory',
    'placement.handlers.inventory:update_inventory': 'update_inventory',
    'placement.handlers.trait:update_traits_for_resource_provider':
        'set_traits',
    'placement.handlers.aggregate:set_aggregates': '_set_aggregates',
    'placement.handlers.reshaper:reshape': 'inventory_by_rp[]',
}


def run(ctx, R):
    prog = ctx.prog
    cas_shape(ctx, R, 'R5.1', RP_INCR, 'resource_providers', 'provider-cas')
    R.count('R5.1', 1, 1)

    # ---- R5.2 --------------------------------------------------------------
    n2 = 0
    for qb, mut in sorted(R52.items()):
        for f in prog.funcs_named(qb):
            impl, _ = C.impl_of(ctx, f)
            g = cfgmod.cfg_of(impl)
            checks = early_checks(ctx, impl)
            cons = '%s' % f.qname
            n2 += 1
            if not R.ob('R5.2', cons + ':early-check', len(checks) == 1,
                        'one comparison of the body generation with the '
                        'provider read in this request, raising 409 '
                        'placement.concurrent_update',
                        '%d such comparisons' % len(checks), func=impl):
                continue
            chk, x = checks[0]
            # X read in this request
            d = single_def(impl, x)
            fresh = d is not None and isinstance(d.value, ast.Call) and \
                RP_GET in C.call_name(ctx, impl, d.value)
            R.ob('R5.2', cons + ':fresh-read', fresh,
                 '%s = ResourceProvider.get_by_uuid(...) in this handler'
                 % x, src(d.value)[:60] if d is not None else
                 'not singly defined', func=impl, node=d)
            # mutator sites on X
            sites = []
            if mut == 'inventory_by_rp[]':
                for n in own_nodes(impl.node):
                    if isinstance(n, ast.Assign) and any(
                            isinstance(t, ast.Subscript) and src(
                                t.slice) == x for t in n.targets):
                        sites.append(n)
                        # every listed provider is handed to the guarded
                        # write: the store is not skipped for some of them
                        # (a provider left out loses its compare-and-swap)
                        lp = getattr(n, '_parent', None)
                        while lp is not None and not isinstance(
                                lp, (ast.For, ast.While)):
                            lp = getattr(lp, '_parent', None)
                        sk = C.skip_conds(n, lp) if lp is not None else []
                        R.ob('R5.2', cons + ':every-listed-provider-written',
                             not sk,
                             'each provider named by the request reaches the '
                             'generation-guarded write (none is skipped)',
                             [ast.unparse(e) for e, _p in sk] or 'ok',
                             func=impl, node=n)
            else:
                for c, recv, meth in C.mutator_sites(ctx, impl):
                    if src(recv) == x:
                        sites.append(C.stmt_of(c))
            R.ob('R5.2', cons + ':mutator-on-checked-object', bool(sites),
                 'the mutator (%s) is applied to %s, the object compared'
                 % (mut, x), '%d sites' % len(sites), func=impl)
            guards = C.guarding_ifs(chk, impl.node)
            flag = None
            if guards:
                # only the aggregate form: if <flag bound to 1.19 gate>
                gi, br = guards[0]
                if len(guards) == 1 and br == 'body' and isinstance(
                        gi.test, ast.Name):
                    fd = single_def(impl, gi.test.id)
                    gt = ctx.gates.gate_of(impl, fd.value) if fd is not \
                        None else None
                    if gt is not None and gt.minv == (1, 19):
                        flag = gi.test.id
                R.ob('R5.2', cons + ':check-condition', flag is not None,
                     'the comparison is unconditional, or conditional only '
                     'on the 1.19 generation flag',
                     [src(x_[0].test) for x_ in guards], func=impl,
                     node=chk)
            for st in sites:
                if flag is None:
                    ok = g.dominates(chk, st)
                    found = 'dominates' if ok else \
                        'a path reaches the mutator without the comparison'
                else:
                    # every path on which the flag branch is skipped must
                    # pass increment_generation=<flag> (no increment then)
                    call = [n for n in cfgmod.header_nodes(st)
                            if isinstance(n, ast.Call)]
                    passes_flag = any(
                        (C.kwarg(c, 'increment_generation') is not None and
                         src(C.kwarg(c, 'increment_generation')) == flag)
                        for c in call)
                    ok = passes_flag and g.dominates(guards[0][0], st)
                    found = 'flag %s passed: %s' % (flag, passes_flag)
                R.ob('R5.2', cons + ':check-dominates-mutator', ok,
                     'the generation comparison dominates the mutator',
                     found, func=impl, node=st)
                # no reassignment of X / X.generation in between
                between = g.reachable_from([chk]) - {chk}
                bad = []
                for s2 in g.stmts:
                    if s2 in between and s2 is not st and g.dominates(
                            chk, s2):
                        for t in ast.walk(s2):
                            if isinstance(t, ast.Name) and isinstance(
                                    t.ctx, ast.Store) and t.id == x and \
                                    s2 in cfgmod.cfg_of(impl).stmts and \
                                    t in cfgmod.header_nodes(s2) + (
                                        list(ast.walk(s2.target))
                                        if isinstance(s2, ast.For) else []):
                                if not isinstance(s2, ast.For) or \
                                        cfgmod.cfg_of(impl).dominates(
                                            s2, chk) is False:
                                    bad.append(s2)
                            if isinstance(t, ast.Attribute) and isinstance(
                                    t.ctx, ast.Store) and t.attr == \
                                    'generation' and src(t.value) == x:
                                bad.append(s2)
                # reaching-definition form: X at the mutator is the X that
                # was compared (same single definition)
                R.ob('R5.2', cons + ':no-rebind', not bad and d is not None,
                     '%s and %s.generation are not reassigned between the '
                     'comparison and the mutator' % (x, x),
                     ['line %d' % b.lineno for b in bad], func=impl,
                     node=st, nontrivial=False)
    R.count('R5.2', n2, 5)

    # ---- R5.3 ------------------------------------------------------------
    incr = {prog.func(RP_INCR), prog.func(CONS_INCR)}
    n3 = 0
    for f in C.handler_defs(ctx):
        # counted over all handler definitions: dropping an increment must
        # not look like a lost anchor
        n3 += 1
        reach = ctx.cg.reachable([f])
        if not (reach & incr):
            continue
        impl, _ = C.impl_of(ctx, f)
        esc = sorted(x for x in ctx.raises.escaping(f)
                     if ctx.raises.is_subclass(x, CUD))
        path = None
        if esc:
            path = ctx.raises.witness(f, esc[0])
        R.ob('R5.3', '%s:no-conflict-escapes' % f.qname, not esc,
             'no ConcurrentUpdateDetected leaves the handler unconverted '
             '(it would be answered 500 instead of 409)',
             'escapes: %s' % esc if esc else 'none', func=impl, path=path)
        layer = [h_ for h_ in reach
                 if h_.module.name.startswith('placement.handlers.')]
        convs = []
        for h_ in sorted(layer, key=lambda x: x.qname):
            for t, h, rs in conflict_conversions(ctx, h_):
                convs.append((h_, t, h, rs))
        for hf, t, h, rs in convs:
            rs = [r for r in rs if r.exc is not None]
            if not rs and not c04_swallows(hf, h):
                # pure re-raise: converted (or not) further out; the escape
                # obligation above decides
                continue
            okc = bool(rs)
            why = 'no raise in the except clause'
            for r in rs:
                o, why = is_conflict_raise(ctx, hf, r)
                okc = okc and o
                if not o:
                    break
            R.ob('R5.3', '%s:conversion@%s:%s' % (
                f.qname, hf.name,
                src(h.type)[:60] if h.type is not None else 'bare'),
                okc, 'HTTPConflict(comment=errors.CONCURRENT_UPDATE)', why,
                func=hf, node=h)
    R.count("R5.3", n3, 42)
    from psa.rules import genstate
    n4 = genstate.generation_writers(ctx, R, 'R5.4')
    genstate.reshape_identity(ctx, R, 'R5.4')
    R.count('R5.4', n4, 6)
    from psa import sqlshape
    n5 = sqlshape.shape_rule(ctx, R, 'R5.5', [RP_INCR])
    R.count('R5.5', n5, 1)
    # ---- R5.6: the compare-and-swap runs in the transaction of the change
    from psa.rules import c10
    c10.r101(ctx, R, 'R5.6')


# wrap_db_retry around a function that reaches the provider compare-and-swap
RETRY_OVER_CAS = {
    'placement.objects.allocation:_set_allocations':
        'the provider generation is no precondition of the client there: '
        'the function itself compares every provider object with the row '
        '(_check_capacity_exceeded) on each attempt, and it only ever runs '
        'inside the transaction of its caller',
}


def r57(ctx, R):
    """increment_generation stores the new generation in the object once
    its UPDATE matched - before the transaction commits.  A retry scope
    around the transaction that re-runs the function with the same object
    after a failed COMMIT would compare-and-swap with a generation no
    client ever sent: a stale writer succeeds over a commit it has not
    seen.  So a function under wrap_db_retry that reaches the provider
    compare-and-swap either retries only on an error that nothing after the
    swap can raise, or is in the reviewed table."""
    from psa.rules import c17
    prog = ctx.prog
    n = 0
    for f in sorted(prog.funcs, key=lambda x: x.qname):
        ds = [d for d in f.decorators if d.qname == c17.RETRY]
        if not ds:
            continue
        reach = ctx.cg.reachable([f])
        if not any(g.qbase == RP_INCR for g in reach):
            continue
        n += 1
        d = ds[0]
        if f.qbase in RETRY_OVER_CAS:
            R.ob('R5.7', '%s:retry-over-swap' % f.qname, True,
                 'reviewed', RETRY_OVER_CAS[f.qbase], func=f,
                 nontrivial=False)
            continue
        chk = d.kwargs.get('exception_checker')
        ok = False
        why = 'retries on deadlock / any database error around the swap'
        if isinstance(chk, ast.Lambda) and isinstance(
                chk.body, ast.Call) and src(chk.body.func) == 'isinstance' \
                and not d.kwargs.get('retry_on_deadlock'):
            exc = prog.dotted(f.module, chk.body.args[1], f)
            g = cfgmod.cfg_of(f)
            incs = [s.node for s in ctx.cg.calls_in(f) if any(
                RP_INCR in {y.qbase for y in ctx.cg.reachable([x])}
                for x in s.callees)]
            after = g.reachable_from([C.stmt_of(i) for i in incs])
            late = [s.node for s in ctx.cg.calls_in(f)
                    if s.node not in incs and exc in ctx.raises.call_raises(
                        f, s.node) and (C.stmt_of(s.node) in after)]
            ok = bool(incs) and not late
            why = 'retries on %s only; %s' % (
                exc, 'nothing after the swap raises it' if ok else
                'raised after the swap by %s' % [src(x)[:50] for x in late])
        R.ob('R5.7', '%s:retry-over-swap' % f.qname, ok,
             'a retried transaction does not re-run the compare-and-swap '
             'with the generation a failed attempt left in the object', why,
             func=f)
    R.count('R5.7', n, 1)


_run_c05 = run


def run(ctx, R):
    _run_c05(ctx, R)
    r57(ctx, R)
