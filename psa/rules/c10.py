"""C10 - generations move forward on every change and only then."""
import ast

from psa import cfg as cfgmod
from psa import model
from psa.effects import WRITER
from psa.model import own_nodes, own_nodes_of, src
from psa.rules import common as C

EXPLANATION = (
    "R10.1: in every writer-scope function that writes inventories, trait or "
    "aggregate associations, every CFG path from such a write to the normal "
    "exit passes <provider>.increment_generation() on the provider parameter "
    "(for aggregates: under the bare increment_generation parameter, R10.3: "
    "whose call chain is bound to the 1.19 gate); R10.2: _set_allocations "
    "increments every provider in the capacity check's return map and every "
    "visited consumer on every normal path, and both maps are filled before "
    "any 'continue'; R10.4: no statement other than the two "
    "increment_generation methods writes a generation column; R10.5: the "
    "generation serialised by a write handler is read from the object the "
    "mutator was called on; R10.6: handlers routed for GET reach no write "
    "effect.")
ASSUMPTIONS = ["increment_generation's own shape is decided under C05/C06"]

RP_INCR = 'placement.objects.resource_provider:ResourceProvider.increment_generation'
CONS_INCR = 'placement.objects.consumer:Consumer.increment_generation'
GEN_TABLES = {'inventories', 'resource_provider_traits',
              'resource_provider_aggregates'}
# writer functions that write those tables but need no increment, with reason
EXEMPT = {
    'placement.objects.resource_provider:ResourceProvider._delete':
        'the provider row itself is deleted in the same scope',
}
EXPECTED_MUTATORS = {
    'placement.objects.resource_provider:_add_inventory',
    'placement.objects.resource_provider:_update_inventory',
    'placement.objects.resource_provider:_delete_inventory',
    'placement.objects.resource_provider:_set_inventory',
    'placement.objects.resource_provider:_set_traits',
    'placement.objects.resource_provider:_set_aggregates',
}


def unscoped_closure(ctx, f):
    """f plus callees reachable without entering another scoped function."""
    seen = set()
    stack = [f]
    while stack:
        g = stack.pop()
        if g in seen:
            continue
        seen.add(g)
        for h in ctx.cg.callees(g):
            if ctx.effects.scope_kind(h) is None and h not in seen:
                stack.append(h)
    return seen


def effect_stmts(ctx, f, tables):
    """Statements of f that perform (directly or through unscoped helpers) a
    write on one of the tables."""
    out = []
    direct = {e.stmt for e in ctx.effects.direct[f]
              if e.op in 'IUD' and e.table in tables}
    for st in direct:
        out.append((st, 'direct'))
    for s in ctx.cg.calls_in(f):
        for g in s.callees:
            if ctx.effects.scope_kind(g) is not None:
                continue
            ws = [e for h in unscoped_closure(ctx, g)
                  for e in ctx.effects.direct[h]
                  if e.op in 'IUD' and e.table in tables]
            if ws:
                out.append((C.stmt_of(s.node), g.qname))
    return out


def mutators(ctx):
    out = []
    for f in ctx.prog.funcs:
        if ctx.effects.scope_kind(f) != 'writer':
            continue
        if effect_stmts(ctx, f, GEN_TABLES):
            out.append(f)
    return out


def r101(ctx, R, RULE='R10.1'):
    prog = ctx.prog
    muts = mutators(ctx)
    found = {f.qbase for f in muts}
    n = 0
    conditional = []
    for f in muts:
        if f.qbase in EXEMPT:
            R.note(RULE + ' exempt %s: %s' % (f.qbase, EXEMPT[f.qbase]))
            continue
        n += 1
        g = cfgmod.cfg_of(f)
        incs = C.calls_to(ctx, f, RP_INCR)
        via = set()
        cond_param = None
        recv_ok = True
        for c in incs:
            st = C.stmt_of(c)
            recv = c.func.value
            if not (isinstance(recv, ast.Name) and recv.id in f.params):
                recv_ok = False
            ifs = C.guarding_ifs(st, f.node)
            via.add(st)
            if len(ifs) == 1 and ifs[0][1] == 'body' and isinstance(
                    ifs[0][0].test, ast.Name) and ifs[0][0].test.id in \
                    f.params and not ifs[0][0].orelse:
                via.add(ifs[0][0])
                cond_param = ifs[0][0].test.id
            # increments under other conditions count only on their path
        R.ob(RULE, '%s:receiver' % f.qbase, bool(incs) and recv_ok,
             'increment_generation() is called on the provider parameter',
             [src(c.func) for c in incs], func=f, nontrivial=False)
        for st, how in effect_stmts(ctx, f, GEN_TABLES):
            ok = g.must_pass(st, cfgmod.EXIT, via)
            if ctx.tier == 'thorough' and ok != g.must_pass_enum(
                    st, cfgmod.EXIT, via):
                raise model.AnalysisError(RULE + ' dominator/path enumeration '
                                          'disagree in %s' % f.qname)
            R.ob(RULE, '%s:write@%s' % (f.qbase, how), ok,
                 'every path from this write to the normal exit passes '
                 'increment_generation()',
                 'a path reaches return without the increment' if not ok
                 else 'ok', func=f, node=st)
        if cond_param:
            conditional.append((f, cond_param))
    for q in sorted(EXPECTED_MUTATORS - found):
        R.ob(RULE, '%s:is-mutator' % q, False,
             'function writes generation-bearing tables inside its own '
             'writer scope', 'no such writer-scope function found')
    R.count(RULE, n, 6)
    return conditional



def run(ctx, R):
    prog = ctx.prog
    conditional = r101(ctx, R)

    # ---- R10.3 -----------------------------------------------------------
    n3 = 0
    for f, p in conditional:
        chains = _bind_chains(ctx, f, p, 0)
        n3 += len(chains)
        R.ob('R10.3', '%s:param-%s:has-callers' % (f.qbase, p),
             bool(chains), 'the conditional increment has call sites',
             '%d chains' % len(chains), func=f, nontrivial=False)
        for desc, gate, func, node in chains:
            ok = gate == (1, 19)
            R.ob('R10.3', '%s:param-%s@%s' % (f.qbase, p, func.qbase), ok,
                 'the increment flag is bound to matches(min_version=(1, 19))',
                 desc, func=func, node=node)
    if not conditional:
        # the flag-conditioned increment of the aggregate mutator is gone:
        # a violation of R10.1/R10.3, not a lost anchor
        R.ob('R10.3', '_set_aggregates:conditional-increment', False,
             'the aggregate mutator bumps the generation under the flag its '
             'callers bind to matches(min_version=(1, 19))',
             'no mutator increments under a parameter flag any more')
        n3 = 1
    R.count('R10.3', n3, 1)

    # ---- R10.2 -------------------------------------------------------------
    _r10_2(ctx, R)

    # ---- R10.4 -------------------------------------------------------------
    _r10_4(ctx, R)

    # ---- R10.5 -------------------------------------------------------------
    _r10_5(ctx, R)
    _r10_7(ctx, R)

    # ---- R10.6 -------------------------------------------------------------
    n6 = 0
    for path, meth, fs in C.routes(ctx):
        if meth != 'GET':
            continue
        for f in fs:
            n6 += 1
            ws = ctx.effects.write_effects_below(f)
            R.ob('R10.6', 'GET %s:%s' % (path, f.qname), not ws,
                 'a read-only request reaches no write effect',
                 '; '.join('%s %s in %s' % (e.op, e.table, e.func.qname)
                           for e in ws[:3]) or 'none', func=f)
    R.count('R10.6', n6, 17)


def _bind_chains(ctx, f, param, depth):
    """[(description, gate minv or None, func, node)] for every way the
    parameter of f is bound, followed through forwarding callers."""
    out = []
    if depth > 4:
        return [('binding chain too deep', None, f, f.node)]
    callers = ctx.cg.callers.get(f, ())
    for caller in sorted(callers, key=lambda x: x.qname):
        for s in ctx.cg.calls_in(caller):
            if f not in s.callees:
                continue
            call = s.node
            actual = C.kwarg(call, param)
            if actual is None:
                params = list(f.params)
                if f.cls is not None and params and params[0] in (
                        'self', 'cls'):
                    params = params[1:]
                if param in params and params.index(param) < len(call.args):
                    actual = call.args[params.index(param)]
            if actual is None:
                out.append(('call at %s omits %s (default applies)' % (
                    caller.loc(call), param), None, caller, call))
                continue
            out.extend(_trace_value(ctx, caller, actual, call, depth))
    return out


def _trace_value(ctx, f, e, node, depth):
    if isinstance(e, ast.Name):
        if e.id in f.params:
            sub = _bind_chains(ctx, f, e.id, depth + 1)
            return sub or [('parameter %s of %s has no caller' % (
                e.id, f.qname), None, f, node)]
        defs = [n.value for n in own_nodes(f.node)
                if isinstance(n, ast.Assign) and any(
                    isinstance(t, ast.Name) and t.id == e.id
                    for t in n.targets)]
        if len(defs) == 1:
            return _trace_value(ctx, f, defs[0], defs[0], depth)
        return [('%s has %d definitions in %s' % (e.id, len(defs), f.qname),
                 None, f, node)]
    g = ctx.gates.gate_of(f, e)
    if g is not None and g.minv is not None:
        return [('%s at %s' % (src(e), f.loc(e)), g.minv, f, e)]
    return [('%s at %s is not a version gate' % (src(e), f.loc(node)), None,
             f, node)]


def _is_incr_loop(ctx, f, loop, target_q):
    """for x in D.values(): x.increment_generation()  -> D name or None.

    Accepted spellings of the iterable: D.values(), list(D.values()),
    sorted(D.values(), ...), tuple(...).  The call must be the loop's only
    statement and unconditional; a conditional increment is reported by the
    caller through increment_sites()."""
    if not isinstance(loop, ast.For) or not isinstance(loop.target, ast.Name):
        return None
    it = loop.iter
    while isinstance(it, ast.Call) and isinstance(it.func, ast.Name) and \
            it.func.id in ('list', 'sorted', 'tuple') and it.args:
        it = it.args[0]
    if not (isinstance(it, ast.Call) and isinstance(it.func, ast.Attribute)
            and it.func.attr == 'values' and isinstance(
                it.func.value, ast.Name) and not it.args):
        return None
    if len(loop.body) != 1 or loop.orelse:
        return None
    b = loop.body[0]
    if not (isinstance(b, ast.Expr) and isinstance(b.value, ast.Call)):
        return None
    c = b.value
    if not (isinstance(c.func, ast.Attribute) and c.func.attr ==
            'increment_generation' and isinstance(c.func.value, ast.Name)
            and c.func.value.id == loop.target.id and not c.args):
        return None
    names = C.call_name(ctx, f, c)
    if not any(t in names for t in target_q):
        return None
    return it.func.value.id


def increment_sites(ctx, f):
    """Every call of an increment_generation in f with its conditions."""
    out = []
    for c in own_nodes(f.node):
        if isinstance(c, ast.Call) and isinstance(
                c.func, ast.Attribute) and c.func.attr == \
                'increment_generation':
            conds = [src(i.test) for i, _b in C.guarding_ifs(
                C.stmt_of(c), f.node)]
            out.append((c, conds))
    return out


def _filled_before_continue(f, loop, dname):
    """In ``loop`` every path from the header to a ``continue`` (or to the
    end of an iteration) passes a store ``dname[k] = v`` (possibly under
    ``if k not in dname``)."""
    g = cfgmod.cfg_of(f)
    via = set()
    for n in own_nodes_of(loop):
        if isinstance(n, ast.Assign) and any(
                isinstance(t, ast.Subscript) and isinstance(
                    t.value, ast.Name) and t.value.id == dname
                for t in n.targets):
            ifs = C.guarding_ifs(n, loop)
            if not ifs:
                via.add(n)
            elif len(ifs) == 1 and ifs[0][1] == 'body' and not \
                    ifs[0][0].orelse and isinstance(
                        ifs[0][0].test, ast.Compare) and len(
                            ifs[0][0].test.ops) == 1 and isinstance(
                                ifs[0][0].test.ops[0], ast.NotIn) and src(
                                    ifs[0][0].test.comparators[0]) == dname:
                via.add(ifs[0][0])
    if not via:
        return False, 'no store into %s in the loop' % dname
    conts = [n for n in own_nodes_of(loop) if isinstance(n, ast.Continue)]
    body_first = loop.body[0]
    for c in conts:
        if not g.must_pass(loop, c, via):
            return False, 'continue at line %d reachable before the store' % \
                c.lineno
    # back edge without continue: last statement -> header
    if not g.must_pass(body_first, loop, via) and body_first not in via:
        return False, 'an iteration can finish without the store'
    return True, 'ok'


def _r10_2(ctx, R, RULE='R10.2'):
    prog = ctx.prog
    f = prog.func('placement.objects.allocation:_set_allocations')
    g = cfgmod.cfg_of(f)
    R.ob(RULE, '_set_allocations:writer-scope',
         ctx.effects.scope_kind(f) == 'writer',
         '_set_allocations runs in its own writer scope',
         [d.qname for d in f.decorators], func=f)
    loops = [n for n in own_nodes(f.node) if isinstance(n, ast.For)]
    rp_loop = cons_loop = None
    rp_map = cons_map = None
    for lp in loops:
        d = _is_incr_loop(ctx, f, lp, (RP_INCR, CONS_INCR))
        # untyped loop variables resolve to both increment methods: tell
        # them apart by what the iterated map holds
        if d is not None:
            defs = [n for n in own_nodes(f.node) if isinstance(n, ast.Assign)
                    and any(isinstance(t, ast.Name) and t.id == d
                            for t in n.targets)]
            from_check = any(
                isinstance(x.value, ast.Call) and
                'placement.objects.allocation:_check_capacity_exceeded' in
                C.call_name(ctx, f, x.value) for x in defs)
            if from_check and len(defs) == 1:
                rp_loop, rp_map = lp, d
            else:
                cons_loop, cons_map = lp, d
    cond_sites = [(c, cd) for c, cd in increment_sites(ctx, f) if cd]
    R.ob(RULE, '_set_allocations:increments-unconditional', not cond_sites,
         'no generation increment of the allocation write is conditional',
         ['%s under %s' % (src(c.func), cd) for c, cd in cond_sites],
         func=f, node=cond_sites[0][0] if cond_sites else None)
    R.ob(RULE, '_set_allocations:provider-increment-loop',
         rp_loop is not None,
         'for rp in <map returned by _check_capacity_exceeded>.values(): '
         'rp.increment_generation()', 'found' if rp_loop else 'not found',
         func=f, node=rp_loop)
    R.ob(RULE, '_set_allocations:consumer-increment-loop',
         cons_loop is not None,
         'for consumer in <visited consumers>.values(): '
         'consumer.increment_generation()',
         'found' if cons_loop else 'not found', func=f, node=cons_loop)
    ins = [e for e in ctx.effects.direct[f]
           if e.op == 'I' and e.table == 'allocations']
    R.ob(RULE, '_set_allocations:insert-site', len(ins) == 1,
         'one INSERT into allocations', '%d' % len(ins), func=f)
    for name, lp in (('provider', rp_loop), ('consumer', cons_loop)):
        if lp is None:
            continue
        ok = g.must_pass(cfgmod.ENTRY, cfgmod.EXIT, {lp})
        R.ob(RULE, '_set_allocations:%s-loop-on-all-paths' % name, ok,
             'every normal path through _set_allocations passes the %s '
             'increment loop' % name, 'a path skips it' if not ok else 'ok',
             func=f, node=lp)
        ifs = C.guarding_ifs(lp, f.node)
        R.ob(RULE, '_set_allocations:%s-loop-unconditional' % name,
             not ifs, 'the loop is not nested under a condition',
             [src(i[0].test) for i in ifs], func=f, node=lp,
             nontrivial=False)
        for e in ins:
            ok2 = g.must_pass(e.stmt, cfgmod.EXIT, {lp})
            R.ob(RULE, '_set_allocations:%s-loop-after-insert' % name,
                 ok2, 'the %s increments follow the INSERTs' % name,
                 'ok' if ok2 else 'a path from the INSERT skips the loop',
                 func=f, node=lp, nontrivial=False)
    # consumer map filled for every allocation before any continue
    if cons_loop is not None:
        fill_loops = [lp for lp in loops if lp is not cons_loop
                      and lp is not rp_loop and any(
                          isinstance(n, ast.Subscript) and isinstance(
                              n.ctx, ast.Store) and src(n.value) == cons_map
                          for n in own_nodes_of(lp))]
        okf = False
        why = 'no loop fills %s' % cons_map
        if len(fill_loops) == 1:
            okf, why = _filled_before_continue(f, fill_loops[0], cons_map)
            # the filling loop iterates the written allocations
            okf = okf and src(fill_loops[0].iter) == f.params[1]
            if src(fill_loops[0].iter) != f.params[1]:
                why = 'fills from %s, not from the written list' % src(
                    fill_loops[0].iter)
            vals = [src(C.inline_locals(f, n.value))
                    for n in own_nodes_of(fill_loops[0])
                    if isinstance(n, ast.Assign) and any(
                        isinstance(t, ast.Subscript) and src(t.value) ==
                        cons_map for t in n.targets)]
            tgt = fill_loops[0].target.id if isinstance(
                fill_loops[0].target, ast.Name) else '?'
            if vals != ['%s.consumer' % tgt]:
                okf, why = False, 'stores %s' % vals
        R.ob(RULE, '_set_allocations:visited-consumers-complete', okf,
             'every allocation\'s consumer is recorded before any continue',
             why, func=f)
    # provider map filled for every allocation in the check
    chk = prog.func('placement.objects.allocation:_check_capacity_exceeded')
    rets = [n for n in own_nodes(chk.node) if isinstance(n, ast.Return)]
    okc = False
    why = 'return shape'
    if len(rets) == 1 and isinstance(rets[0].value, ast.Name):
        dname = rets[0].value.id
        cl = [lp for lp in own_nodes(chk.node) if isinstance(lp, ast.For)
              and any(isinstance(n, ast.Subscript) and isinstance(
                  n.ctx, ast.Store) and src(n.value) == dname
                  for n in own_nodes_of(lp))]
        if len(cl) == 1:
            okc, why = _filled_before_continue(chk, cl[0], dname)
            if src(cl[0].iter) != chk.params[1]:
                okc, why = False, 'fills from %s' % src(cl[0].iter)
            # the stored value is the allocation's provider object
            vals = [src(n.value) for n in own_nodes_of(cl[0])
                    if isinstance(n, ast.Assign) and any(
                        isinstance(t, ast.Subscript) and src(t.value) ==
                        dname for t in n.targets)]
            tgt = cl[0].target.id if isinstance(cl[0].target,
                                                ast.Name) else '?'
            if vals != ['%s.resource_provider' % tgt]:
                okc, why = False, 'stores %s' % vals
    R.ob(RULE, '_check_capacity_exceeded:provider-map-complete', okc,
         'the returned map holds the provider of every allocation, filled '
         'before any continue', why, func=chk)
    R.count(RULE, 1, 1)


def _r10_4(ctx, R):
    prog = ctx.prog
    allowed = {RP_INCR, CONS_INCR}
    bad = []
    n_sites = 0
    for f in prog.funcs:
        for n in own_nodes(f.node):
            # .values(generation=...)
            if isinstance(n, ast.Call) and isinstance(
                    n.func, ast.Attribute) and n.func.attr == 'values' and \
                    any(k.arg == 'generation' for k in n.keywords):
                n_sites += 1
                if f.qbase not in allowed:
                    bad.append((f, n, '.values(generation=...)'))
            # {'generation': ...} handed to an update / stored in updates
            if isinstance(n, ast.Dict) and any(
                    isinstance(k, ast.Constant) and k.value == 'generation'
                    for k in n.keys):
                par = getattr(n, '_parent', None)
                if isinstance(par, ast.Call) and isinstance(
                        par.func, ast.Attribute) and par.func.attr in (
                            'update', 'values'):
                    bad.append((f, n, "dict with 'generation' passed to "
                                      ".%s()" % par.func.attr))
            if isinstance(n, ast.Subscript) and isinstance(
                    n.ctx, ast.Store) and isinstance(
                        n.slice, ast.Constant) and n.slice.value == \
                    'generation' and isinstance(n.value, ast.Name) and \
                    n.value.id in ('updates', 'data', 'values'):
                bad.append((f, n, "store updates['generation']"))
            # db_obj.generation = ...
            if isinstance(n, ast.Attribute) and isinstance(
                    n.ctx, ast.Store) and n.attr == 'generation' and \
                    isinstance(n.value, ast.Name):
                st = C.stmt_of(n)
                r = ctx.effects.classify(f, n.value, st)
                if r:
                    bad.append((f, n, 'attribute store on a model object'))
    # effect-level: U with generation column outside the two methods
    for f in prog.funcs:
        for e in ctx.effects.direct[f]:
            if e.op == 'U' and e.columns and 'generation' in e.columns and \
                    f.qbase not in allowed:
                bad.append((f, e.node, 'UPDATE ... SET generation'))
    R.ob('R10.4', 'generation-writers', not bad,
         'only ResourceProvider.increment_generation and '
         'Consumer.increment_generation write a generation column',
         '; '.join('%s at %s' % (w, f.loc(n)) for f, n, w in bad[:4])
         or 'none', func=bad[0][0] if bad else None,
         node=bad[0][1] if bad else None)
    for q in sorted(allowed):
        f = prog.func(q)
        es = [e for e in ctx.effects.direct[f] if e.op == 'U'
              and e.columns == {'generation'}]
        R.ob('R10.4', '%s:writes-only-generation' % q, len(es) == 1,
             'one UPDATE setting exactly the generation column',
             [repr(e) for e in ctx.effects.direct[f]], func=f,
             nontrivial=False)
    R.count('R10.4', n_sites, 2)


MUTATOR_METHODS = {
    'add_inventory', 'delete_inventory', 'set_inventory', 'update_inventory',
    'set_aggregates', 'set_traits',
}


def _r10_7(ctx, R):
    """No rejection after the write: once a generation-moving mutator has
    returned (its transaction is committed), the handler answers with
    success.  A client error raised afterwards reports a failure for a
    write that happened (and whose generation moved)."""
    n = 0
    for f in C.handler_defs(ctx):
        impl, _ = C.impl_of(ctx, f)
        muts = C.mutator_sites(ctx, impl)
        if not muts:
            continue
        g = cfgmod.cfg_of(impl)
        for m, _rx, meth in muts:
            mst = C.stmt_of(m)
            after = g.reachable_from([mst], normal_only=True) - {mst}
            bad = []
            for st in g.stmts:
                if st not in after:
                    continue
                if isinstance(st, ast.Raise):
                    bad.append('line %d raise' % st.lineno)
                    continue
                for x in cfgmod.header_nodes(st):
                    if isinstance(x, ast.Call):
                        rs = [r for r in ctx.raises.call_raises(impl, x)
                              if r.startswith('webob.exc.HTTP')]
                        if rs:
                            bad.append('line %d %s may raise %s' % (
                                st.lineno, src(x.func), sorted(rs)[:2]))
            n += 1
            R.ob('R10.7', '%s:%s:no-rejection-after-write' % (f.qname, meth),
                 not bad,
                 'after the mutator returned the handler only builds the '
                 'success response (no HTTP error can be raised for a write '
                 'that is already committed)', bad[:3] or 'ok', func=impl,
                 node=m)
    R.count('R10.7', n, 8)


def _r10_5(ctx, R):
    n = 0
    for f in C.handler_defs(ctx):
        impl, _ = C.impl_of(ctx, f)
        muts = C.mutator_sites(ctx, impl)
        if not muts:
            continue
        for m, rx, _meth in muts:
            if isinstance(rx, ast.Name):
                recv = rx.id
            else:
                continue
            g = cfgmod.cfg_of(impl)
            mst = C.stmt_of(m)
            after = g.reachable_from([mst], normal_only=True) - {mst}
            bad = []
            uses = 0
            for st in g.stmts:
                if st not in after:
                    continue
                for x in cfgmod.header_nodes(st):
                    if isinstance(x, ast.Attribute) and x.attr == \
                            'generation' and isinstance(x.ctx, ast.Load):
                        uses += 1
                        if not (isinstance(x.value, ast.Name)
                                and x.value.id == recv):
                            bad.append(x)
                    if isinstance(x, ast.Call) and any(
                            nm.startswith('placement.handlers.') and (
                                ':_send_' in nm or ':_serialize_' in nm)
                            for nm in C.call_name(ctx, impl, x)):
                        argn = [a.id for a in x.args
                                if isinstance(a, ast.Name)]
                        # a provider-typed argument other than recv
                        for a in x.args:
                            if isinstance(a, ast.Name) and a.id != recv:
                                ts = ctx.cg.expr_types(impl, a)
                                if any(t.endswith('.ResourceProvider')
                                       for t in ts):
                                    bad.append(x)
                        if recv in argn:
                            uses += 1
                # reassignment of recv after the mutator
                if isinstance(st, ast.Assign) and any(
                        isinstance(t, ast.Name) and t.id == recv
                        for t in st.targets):
                    bad.append(st)
            if uses == 0 and not bad:
                continue
            n += 1
            R.ob('R10.5', '%s:%s' % (f.qname, _meth), not bad,
                 'the generation in the response is read from the object '
                 'the mutator was called on (%s), not re-bound' % recv,
                 '; '.join('line %d %s' % (b.lineno, src(b)[:50])
                           for b in bad[:3]) or 'ok', func=impl, node=m)
    R.count('R10.5', n, 5)


def r108(ctx, R):
    """An allocation write that succeeds has gone through the one place that
    moves the generations: in every transaction closure of the allocation
    writers, every normal path passes the call of replace_all / reshape (a
    shortcut that answers success without it - "nothing changed" - leaves
    consumer and provider generations where they were while the consumer's
    attributes may have been rewritten)."""
    from psa.rules import c04
    prog = ctx.prog
    n = 0
    for qb in c04.ALLOC_WRITERS:
        for impl in prog.funcs_named(qb):
            for c in c04.s_closures(ctx, impl):
                if ctx.effects.scope_kind(c) != 'writer':
                    continue
                wr = [s.node for s in ctx.cg.calls_in(c) if any(
                    x.qbase in ('placement.objects.allocation:replace_all',
                                'placement.objects.reshaper:reshape')
                    for x in s.callees)]
                if not wr:
                    continue
                n += 1
                g = cfgmod.cfg_of(c)
                sts = {C.stmt_of(w) for w in wr}
                ok = g.must_pass(cfgmod.ENTRY, cfgmod.EXIT, sts,
                                 normal_only=True)
                R.ob('R10.8', '%s:write-on-every-path' % c.qname, ok,
                     'every normal path through the write transaction calls '
                     'the function that writes the allocations and moves the '
                     'generations', 'ok' if ok else 'a path returns without '
                     'the write', func=c, node=wr[0])
    R.count('R10.8', n, 3)


_run_c10b = run


def run(ctx, R):
    _run_c10b(ctx, R)
    r108(ctx, R)


WRAPPERS = (
    'placement.wsgi_wrapper:PlacementWsgify.call_func',
    'placement.handler:dispatch',
    'placement.handler:PlacementHandler.__call__',
    'placement.util:check_accept>decorator>decorated_function',
    'placement.util:require_content>decorator>decorated_function',
    'placement.microversion:version_handler>decorator>decorated_func',
)


def _is_delegate(ctx, w, c):
    """The call by which a wrapper of the handlers runs what it wraps."""
    fn = c.func
    if isinstance(fn, ast.Call):
        return True                     # _find_method(...)(req, ...)
    if isinstance(fn, ast.Attribute) and isinstance(
            fn.value, ast.Call) and src(fn.value.func) == 'super':
        return True
    s = ctx.cg.site_of.get(c)
    if s is not None and any(g.qbase in WRAPPERS for g in s.callees):
        return True
    if isinstance(fn, ast.Name):
        anc = w.parent
        while anc is not None:
            if fn.id in anc.params:
                return True             # the decorated function
            anc = anc.parent
        if fn.id not in w.params and fn.id in model.local_names(w) and \
                w.params and c.args and isinstance(
                    c.args[0], ast.Name) and c.args[0].id == w.params[0] \
                and (s is None or not s.callees):
            # a callable looked up at run time and handed the request: the
            # routed WSGI application, the method of the microversion
            return True
    return False


def r109(ctx, R):
    """An error answered after the handler has returned is an error
    answered after its transaction committed: in every wrapper between the
    WSGI entry and a handler, nothing that can refuse the request runs once
    the wrapped call has come back."""
    from psa.rules import c04
    prog = ctx.prog
    n = 0
    for q in WRAPPERS:
        for w in prog.funcs_named(q):
            dl = [s.node for s in ctx.cg.calls_in(w)
                  if _is_delegate(ctx, w, s.node)]
            # calls the call graph does not resolve are not in calls_in
            dl += [c for c in own_nodes(w.node) if isinstance(c, ast.Call)
                   and c not in dl and _is_delegate(ctx, w, c)]
            n += 1
            if not R.ob('R10.9', '%s:wrapped-call' % w.qname, len(dl) == 1,
                        'one call runs the wrapped handler', '%d' % len(dl),
                        func=w, nontrivial=False):
                continue
            g = cfgmod.cfg_of(w)
            st = C.stmt_of(dl[0])
            after = g.reachable_from([st], normal_only=True) - {st}
            bad = []
            for r in C.raise_stmts(w):
                if (r in after or c04._inside(r, after)) and not \
                        c04._in_except_handler(r, w.node):
                    bad.append('raise at line %d' % r.lineno)
            for s in ctx.cg.calls_in(w):
                cs = C.stmt_of(s.node)
                if s.node is dl[0] or not (
                        cs in after or c04._inside(cs, after)) or \
                        c04._in_except_handler(s.node, w.node):
                    continue
                exc = {x for x in ctx.raises.call_raises(w, s.node)
                       if x.startswith('webob.exc.')
                       or x.startswith('placement.exception.')}
                if exc:
                    bad.append('%s may raise %s' % (
                        src(s.node)[:40], sorted(exc)[:2]))
            R.ob('R10.9', '%s:nothing-refuses-afterwards' % w.qname,
                 not bad, 'after the wrapped call returns nothing raises '
                 'an HTTP error (the write is committed by then)',
                 bad[:3] or 'nothing', func=w, node=dl[0])
    R.count('R10.9', n, 4)


_run_c10c = run


def run(ctx, R):
    _run_c10c(ctx, R)
    r109(ctx, R)
