"""C09 - the provider hierarchy is a forest with correct roots (guards)."""
import ast

from psa import cfg as cfgmod
from psa import model
from psa.model import own_nodes, own_nodes_of, src
from psa.rules import common as C
from psa.rules import c05, c08

EXPLANATION = (
    "Guards only: in ResourceProvider._create_in_db / _update_in_db / _delete "
    "and the two handlers, (a) an unknown parent, (b) parent == self, (c) a "
    "parent inside the provider's own subtree each raise before the parent "
    "link is stored; (d) re-/un-parenting of an already parented provider "
    "is rejected unless allow_reparenting, which the handler binds to "
    "matches((1, 37)); (e) the stored root is the parent's root on "
    "create/re-parent and the provider's own id for top-level/un-parent, and "
    "the same new root is written to every provider of get_subtree(); (f) a "
    "provider with children is not deleted; (g) ObjectActionError is "
    "answered 400 and CannotDeleteParentResourceProvider 409. The forest "
    "invariant over histories and the correctness of get_subtree are not "
    "decided.")
ASSUMPTIONS = ["get_subtree returns the provider and all its descendants "
               "(its shape - tree members from the in_tree filter, children "
               "filed under their parent, recursion - is R9.7/R9.9; the SQL "
               "engine's evaluation of the filter is assumed)",
               "provider_ids_from_uuid never reports a provider without a "
               "root (root_provider_id is populated for every row)"]

RPM = 'placement.objects.resource_provider'
OAE = 'placement.exception.ObjectActionError'
IDS = 'placement.objects.research_context:provider_ids_from_uuid'


def dict_stores(f, key):
    out = []
    for n in own_nodes(f.node):
        if isinstance(n, ast.Assign):
            for t in n.targets:
                if isinstance(t, ast.Subscript) and isinstance(
                        t.slice, ast.Constant) and t.slice.value == key:
                    out.append(n)
    return out


def resolve(f, e, depth=0):
    """Follow single-definition local names to the defining expression."""
    if isinstance(e, ast.Name) and depth < 4:
        defs = [n.value for n in own_nodes(f.node)
                if isinstance(n, ast.Assign) and any(
                    isinstance(t, ast.Name) and t.id == e.id
                    for t in n.targets)
                and not (isinstance(n.value, ast.Constant)
                         and n.value.value is None)]
        if len(defs) == 1:
            return resolve(f, defs[0], depth + 1)
    return e


def oae_ifs(ctx, f):
    return c08.raise_ifs(ctx, f, OAE)


def conj(test, f=None, depth=0):
    """Conjuncts of a test; a local boolean bound once to a conjunction or
    comparison is replaced by its definition when f is given."""
    if isinstance(test, ast.BoolOp) and isinstance(test.op, ast.And):
        out = []
        for v in test.values:
            out.extend(conj(v, f, depth))
        return out
    if f is not None and isinstance(test, ast.Name) and depth < 3:
        d = c05.single_def(f, test.id)
        if d is not None and isinstance(d.value, (ast.BoolOp, ast.Compare)):
            return conj(d.value, f, depth + 1)
    return [test]


def _key_store(key, f):
    """Stores under a constant key into a dict the function received."""
    def pred(tgt, _stgt):
        return isinstance(tgt, ast.Subscript) and isinstance(
            tgt.slice, ast.Constant) and tgt.slice.value == key and \
            isinstance(tgt.value, ast.Name) and tgt.value.id in f.params
    return pred


def _nows(e):
    return src(e).replace(' ', '') if e is not None else None


def _update_paths(ctx, R, u, guards, lookups, mine, parent, puuid):
    """The update rules, decided per path through _update_in_db (values
    propagated along each path: it does not matter where in the text the
    stores stand or through which locals / tuples the values travel)."""
    from psa import pathval
    paths = pathval.paths_of(u, keep=lambda v: any(v is x for x in lookups))
    normal = [p for p in paths if p.end != 'raise']
    LP = "updates['parent_provider_id']"
    LR = "updates['root_provider_id']"
    cls = {'re': [], 'un': [], 'keep': [], 'other': []}
    info = {}
    for p in normal:
        pv = p.stored(_key_store('parent_provider_id', u))
        rv = p.stored(_key_store('root_provider_id', u))
        if pv is None and rv is None:
            k = 'keep'
        elif pv is None or rv is None:
            k = 'other'
        elif _nows(pv[1]) == '%s.id' % parent and \
                _nows(rv[1]) == '%s.root_id' % parent:
            k = 're'
        elif isinstance(pv[1], ast.Constant) and pv[1].value is None and \
                _nows(rv[1]) == '%s.id' % mine:
            k = 'un'
        else:
            k = 'other'
        cls[k].append(p)
        info[id(p)] = (pv, rv)
    # which side of "a parent was given" the path is on
    def _is_none(a, name):
        return isinstance(a, ast.Compare) and isinstance(
            a.ops[0], ast.Is) and _nows(a.comparators[0]) == 'None' and \
            _nows(a.left) == name

    def given(p):
        if pathval.holds(p, lambda a, pol: not pol and _is_none(a, puuid)):
            return True
        if pathval.holds(p, lambda a, pol: pol and _is_none(a, puuid)):
            return False
        return None
    sides = all(given(p) is True for p in cls['re']) and all(
        given(p) is False for p in cls['un'])
    R.ob('R9.2', 'update:stores-classified',
         bool(cls['re']) and bool(cls['un']) and not cls['other'] and sides,
         'on every path that gives the provider a parent (parent.id, '
         'parent.root_id) is stored, on every path that detaches it '
         '(None, own id), and no path stores anything else',
         ['%s: parent=%s root=%s when %s' % (
             k, info[id(p)][0] and src(info[id(p)][0][1]),
             info[id(p)][1] and src(info[id(p)][1][1]),
             [t for t, pol in p.cond_srcs() if pol][-2:])
          for k in ('re', 'un', 'other') for p in cls[k]][:6], func=u)
    g_none = [x for x in guards if src(x.test).replace(' ', '') ==
              '%sisNone' % parent]
    g_loop = []
    for x in guards:
        t = x.test
        if isinstance(t, ast.Compare) and len(t.ops) == 1 and isinstance(
                t.ops[0], ast.In) and src(t.left) == puuid:
            coll = resolve(u, t.comparators[0])
            # {rp.uuid for rp in <subtree>} - as a comprehension, or built
            # by a loop that adds every member's uuid (builder view)
            it = None
            if isinstance(coll, (ast.SetComp, ast.ListComp,
                                 ast.GeneratorExp)) and src(
                    coll.elt).endswith('.uuid') and not \
                    coll.generators[0].ifs:
                it = coll.generators[0].iter
            elif isinstance(t.comparators[0], ast.Name):
                bv = C.builder_view(u, t.comparators[0].id)
                if bv is not None and len(bv['gens']) == 1 and not \
                        bv['conds'] and not isinstance(
                            bv['elem'], tuple) and src(
                                bv['elem']).endswith('.uuid'):
                    it = bv['gens'][0][1]
            if it is not None:
                subs = [it]
                if isinstance(it, ast.Name):
                    # definitions of the iterated name reaching the
                    # statement that builds the uuid set
                    at = x
                    if isinstance(t.comparators[0], ast.Name):
                        dd = c05.single_def(u, t.comparators[0].id)
                        at = dd if dd is not None else x
                    subs = [v for _st, v in ctx.effects.reaching_defs(
                        u, it.id, at)]
                if subs and all(
                        isinstance(sub, ast.Call) and isinstance(
                            sub.func, ast.Attribute) and
                        sub.func.attr == 'get_subtree' and
                        src(sub.func.value) == 'self' for sub in subs):
                    g_loop.append(x)
    want = sorted(['%s.parent_idisnotNone' % mine,
                   '%s.parent_id!=%s.id' % (mine, parent),
                   'notallow_reparenting'])
    g_gate = [x for x in guards if sorted(
        src(c).replace(' ', '') for c in conj(x.test, u)) == want]

    def passed(p, gs):
        return any(p.took(g) is not None for g in gs)
    for lab, idx in ((LR, 1), (LP, 0)):
        node = info[id(cls['re'][0])][idx][0] if cls['re'] else None
        for nm, gs, exp in (
                ('unknown-parent-rejected', g_none,
                 'an unknown parent raises before the link is stored'),
                ('loop-rejected', g_loop,
                 'a parent inside self.get_subtree() raises before the link '
                 'is stored'),
                ('reparent-gated', g_gate,
                 'moving an already parented provider to another parent '
                 'raises unless allow_reparenting')):
            bad = [p for p in cls['re'] if not passed(p, gs)]
            R.ob('R9.1', 'update:%s@%s' % (nm, lab),
                 bool(gs) and bool(cls['re']) and not bad, exp +
                 ' (on every path that stores the new parent)',
                 'guards recognised: %d; paths without it: %s' % (
                     len(gs), [[t for t, _pl in p.cond_srcs()][-3:]
                               for p in bad][:2]), func=u, node=node)
    # un-parent gate
    inner = [x for x in guards if src(x.test).replace(' ', '') ==
             'notallow_reparenting']
    for lab, idx in ((LR, 1), (LP, 0)):
        node = info[id(cls['un'][0])][idx][0] if cls['un'] else None
        bad = []
        for p in cls['un']:
            had = pathval.holds(p, lambda a, pol: not pol and _is_none(
                a, '%s.parent_id' % mine))
            if not (had and passed(p, inner)):
                bad.append(p)
        R.ob('R9.1', 'update:unparent-gated@%s' % lab,
             bool(cls['un']) and bool(inner) and not bad,
             'detaching a parented provider raises unless '
             'allow_reparenting (on every path that stores the detachment)',
             [[t for t, _pl in p.cond_srcs()][-3:] for p in bad][:2],
             func=u, node=node)
    # subtree rewrite: on every path that moves the provider, a loop over
    # self.get_subtree() writes the root stored for the provider itself to
    # each member, keyed by the member's id
    okw = bool(cls['re']) and bool(cls['un'])
    why = []
    for p in cls['re'] + cls['un']:
        rv = info[id(p)][1][1]
        good = False
        for lp, it in p.loops:
            if not (isinstance(lp, ast.For) and isinstance(
                    lp.target, ast.Name)):
                continue
            if not (isinstance(it, ast.Call) and isinstance(
                    it.func, ast.Attribute) and it.func.attr ==
                    'get_subtree' and src(it.func.value) == 'self'):
                continue
            dicts = [n for n in own_nodes_of(lp) if isinstance(n, ast.Dict)
                     and any(isinstance(k, ast.Constant) and k.value ==
                             'root_provider_id' for k in n.keys)]
            if len(dicts) != 1:
                continue
            d = dicts[0]
            val = [v for k, v in zip(d.keys, d.values) if isinstance(
                k, ast.Constant) and k.value == 'root_provider_id'][0]
            seen = p.value_at(C.stmt_of(d), val)
            by_id = any(isinstance(k, ast.keyword) and k.arg == 'id'
                        and src(k.value) == '%s.id' % lp.target.id
                        for c_ in own_nodes_of(lp)
                        if isinstance(c_, ast.Call)
                        for k in c_.keywords)
            jumps = [x for x in own_nodes_of(lp)
                     if isinstance(x, (ast.Continue, ast.Break))]
            if seen is not None and _nows(seen) == _nows(rv) and by_id \
                    and not jumps:
                good = True
            else:
                why.append('loop writes %s for stored root %s, keyed by '
                           'loop provider: %s' % (
                               seen is not None and src(seen), src(rv),
                               by_id))
        if not good:
            okw = False
            if not p.loops:
                why.append('no loop on the path')
    R.ob('R9.2', 'update:subtree-root-rewritten', okw,
         'every provider of self.get_subtree() receives the same new '
         'root that is stored for the moved provider (on every path that '
         'moves it)', why[:3] or 'paths: %d re-parent, %d un-parent' % (
             len(cls['re']), len(cls['un'])), func=u)


def _create_paths(ctx, R, f):
    """The create rules, decided per path through _create_in_db."""
    from psa import pathval
    prog = ctx.prog
    lookups = [s.node for s in ctx.cg.calls_in(f)
               if any(x.qbase == IDS for x in s.callees)]
    guards = oae_ifs(ctx, f)
    tests = [src(x.test).replace(' ', '') for x in guards]
    if len(lookups) != 1 or not isinstance(C.stmt_of(lookups[0]),
                                           ast.Assign):
        R.ob('R9.1', 'create:parent-lookup', False,
             'one provider_ids_from_uuid lookup', len(lookups), func=f)
        return
    lst = C.stmt_of(lookups[0])
    pids = lst.targets[0].id if isinstance(lst.targets[0], ast.Name) \
        else None
    puuid = src(lookups[0].args[1]) if len(lookups[0].args) > 1 else None
    paths = [p for p in pathval.paths_of(
        f, keep=lambda v: v is lookups[0]) if p.end != 'raise']

    def _is_none(a, name):
        return isinstance(a, ast.Compare) and isinstance(
            a.ops[0], ast.Is) and _nows(a.comparators[0]) == 'None' and \
            _nows(a.left) == name

    child, top, other = [], [], []
    info = {}
    for p in paths:
        pv = p.stored(_key_store('parent_provider_id', f))
        rv = p.stored(_key_store('root_provider_id', f))
        own = p.stored(lambda tgt, _s: isinstance(tgt, ast.Attribute)
                       and tgt.attr == 'root_provider_id' and isinstance(
                           tgt.value, ast.Name) and tgt.value.id !=
                       f.params[0])
        info[id(p)] = (pv, rv, own)
        if pv is not None and rv is not None and own is None:
            child.append(p)
        elif pv is None and rv is None and own is not None:
            top.append(p)
        elif pv is not None and rv is not None and pathval.holds(
                p, lambda a, pol: pol and _is_none(a, '%s.root_id' % pids)):
            # the looked-up parent has no root: not a state the lookup
            # reports (ASSUMPTIONS)
            pass
        else:
            other.append(p)
    R.ob('R9.1', 'create:stores', bool(child) and bool(top) and not other,
         'every path either stores parent_provider_id and root_provider_id '
         'from the request\'s parent, or makes the new provider its own '
         'root', 'paths: %d with parent, %d top-level, %d other' % (
             len(child), len(top), len(other)), func=f)
    g_none = [x for x in guards if src(x.test).replace(' ', '') ==
              '%sisNone' % pids]
    g_self = [x for x in guards if src(x.test).replace(' ', '') in (
        '%s==self.uuid' % puuid, 'self.uuid==%s' % puuid)]

    def passed(p, gs):
        return any(p.took(g) is not None for g in gs)
    for lab, idx in (("updates['parent_provider_id']", 0),
                     ("updates['root_provider_id']", 1)):
        node = info[id(child[0])][idx][0] if child else None
        R.ob('R9.1', 'create:unknown-parent-rejected@%s' % lab,
             bool(g_none) and bool(child) and all(
                 passed(p, g_none) for p in child),
             'the parent lookup returning None raises before the link '
             'is stored (on every path that stores it)', tests, func=f,
             node=node)
        R.ob('R9.1', 'create:self-parent-rejected@%s' % lab,
             bool(g_self) and bool(child) and all(
                 passed(p, g_self) for p in child),
             'parent == self raises before the link is stored (on every '
             'path that stores it)', tests, func=f, node=node)
    pvs = sorted({_nows(info[id(p)][0][1]) for p in child})
    rvs = sorted({_nows(info[id(p)][1][1]) for p in child})
    R.ob('R9.2', 'create:parent-id', pvs == ['%s.id' % pids],
         'parent_provider_id = <looked-up parent>.id', pvs, func=f,
         node=info[id(child[0])][0][0] if child else None)
    R.ob('R9.2', 'create:root-is-parents-root', rvs == ['%s.root_id' % pids],
         'root_provider_id = <looked-up parent>.root_id', rvs, func=f,
         node=info[id(child[0])][1][0] if child else None)
    # what is looked up is the parent the request names: an expression over
    # 'parent_provider_uuid', here or - when it arrives as a parameter - at
    # every call site
    arg = resolve(f, lookups[0].args[1]) if len(lookups[0].args) > 1 \
        else None
    names_parent = arg is not None and 'parent_provider_uuid' in src(arg)
    found = src(arg) if arg is not None else None
    if not names_parent and isinstance(arg, ast.Name) and \
            arg.id in f.params:
        sites = [(g_, c) for g_ in prog.funcs
                 for c in C.calls_to(ctx, g_, f.qbase)]
        vals = [C.arg_for_param(c, f, arg.id) for _g, c in sites]
        names_parent = bool(vals) and all(
            v is not None and 'parent_provider_uuid' in src(v)
            for v in vals)
        found = [v is not None and src(v) for v in vals]
    R.ob('R9.2', 'create:lookup-by-request-parent', names_parent,
         'the parent is looked up by the requested parent uuid', found,
         func=f, node=lookups[0])
    # top level: root = own id, and exactly when no parent was named
    oko = bool(top) and bool(child)
    why = []
    for p in top:
        st, val = info[id(p)][2]
        tgt = [x_ for s_, _t, x_, _v in p.stores if s_ is st][-1]
        selfid = val is not None and _nows(val) == '%s.id' % _nows(tgt.value)
        none_given = pathval.holds(
            p, lambda a, pol: pol and _is_none(a, puuid))
        # the object is added to the session after the store
        after = p.stmts[[i for i, x in enumerate(p.stmts) if x is st][-1]:]
        added = any(isinstance(n, ast.Call) and isinstance(
            n.func, ast.Attribute) and n.func.attr == 'add'
            for x in after for n in ast.walk(x) if not isinstance(
                x, (ast.If, ast.For, ast.While, ast.Try, ast.With)))
        if not (selfid and none_given and added):
            oko = False
            why.append('%s; no parent named: %s; added after: %s' % (
                src(st), none_given, added))
    for p in child:
        if not pathval.holds(p, lambda a, pol: not pol and _is_none(
                a, puuid)):
            oko = False
            why.append('parent link stored without testing %s' % puuid)
    R.ob('R9.2', 'create:top-level-root-is-self', oko,
         'a provider created without parent gets its own id as root, in the '
         'same transaction; one created with a parent does not',
         why[:3] or '%d top-level path(s)' % len(top), func=f)


def run(ctx, R):
    prog = ctx.prog
    # ------------------------------------------------------------ create
    f = prog.func(RPM + ':ResourceProvider._create_in_db')
    g = cfgmod.cfg_of(f)
    R.ob('R9.1', 'create:writer-scope', ctx.effects.scope_kind(f) == 'writer',
         '_create_in_db is one writer transaction', '', func=f,
         nontrivial=False)
    _create_paths(ctx, R, f)

    # ------------------------------------------------------------ update
    u = prog.func(RPM + ':ResourceProvider._update_in_db')
    gu = cfgmod.cfg_of(u)
    R.ob('R9.1', 'update:writer-scope',
         ctx.effects.scope_kind(u) == 'writer',
         '_update_in_db is one writer transaction', '', func=u,
         nontrivial=False)
    guards = oae_ifs(ctx, u)
    # classify paths: re-parent (value from looked-up parent) vs un-parent
    lookups = [s.node for s in ctx.cg.calls_in(u)
               if any(x.qbase == IDS for x in s.callees)]
    mine = parent = None
    for lk in lookups:
        st = C.stmt_of(lk)
        if not isinstance(st, ast.Assign) or not isinstance(
                st.targets[0], ast.Name) or len(lk.args) < 2:
            continue
        nm = st.targets[0].id
        if src(lk.args[1]) == 'self.uuid':
            mine = nm
        else:
            parent = nm
            puuid = src(lk.args[1])
    okl = mine is not None and parent is not None
    R.ob('R9.1', 'update:lookups', okl,
         'own ids and the new parent\'s ids are looked up', [src(x)
                                                             for x in lookups],
         func=u)
    if okl:
        _update_paths(ctx, R, u, guards, lookups, mine, parent, puuid)
        R.count('R9.2', 1, 1)
    # save() forwards the flag; handler binds it to 1.37
    sv = prog.func(RPM + ':ResourceProvider.save')
    cs = C.calls_to(ctx, sv, u.qbase)
    okf = len(cs) == 1 and src(cs[0].args[-1]) == 'allow_reparenting'
    a = sv.node.args
    dflt = dict(zip([x.arg for x in a.args][-len(a.defaults):], a.defaults))
    okd = isinstance(dflt.get('allow_reparenting'), ast.Constant) and \
        dflt['allow_reparenting'].value is False
    R.ob('R9.3', 'save:forwards-flag', okf and okd,
         'save(allow_reparenting=False) forwards the flag unchanged',
         [src(c) for c in cs], func=sv)
    h = prog.func('placement.handlers.resource_provider:'
                  'update_resource_provider')
    saves = [s.node for s in ctx.cg.calls_in(h) if s.method == 'save']
    okh = False
    why = '%d save calls' % len(saves)
    if len(saves) == 1:
        kv = C.kwarg(saves[0], 'allow_reparenting')
        gate = None
        if isinstance(kv, ast.Name):
            d = c05.single_def(h, kv.id)
            gate = ctx.gates.gate_of(h, d.value) if d is not None else None
        elif kv is not None:
            gate = ctx.gates.gate_of(h, kv)
        okh = gate is not None and gate.minv == (1, 37)
        why = 'allow_reparenting=%s gate %s' % (
            src(kv) if kv is not None else None,
            gate.minv if gate else None)
    R.ob('R9.3', 'handler:flag-bound-to-1.37', okh,
         'the handler passes allow_reparenting=matches((1, 37))', why,
         func=h)
    other = [s for s in ctx.cg.callers.get(sv, ()) if s is not h]
    R.ob('R9.3', 'save:only-caller', not other,
         'ResourceProvider.save is called only by the PUT handler',
         [o.qname for o in other], func=sv, nontrivial=False)
    R.count('R9.3', 1, 1)

    # ------------------------------------------------------------ delete
    d = prog.func(RPM + ':ResourceProvider._delete')
    gd = cfgmod.cfg_of(d)
    guards = [x for x in c08.raise_ifs(
        ctx, d, 'placement.exception.CannotDeleteParentResourceProvider')
        if not c08._in_handler(x, d.node)]
    rec = C.calls_to(ctx, d, RPM + ':_delete_rp_record')
    # the test: the call itself or a local bound to it
    gtest = guards[0].test if guards else None
    if isinstance(gtest, ast.Name):
        gdef = c05.single_def(d, gtest.id)
        gtest = gdef.value if gdef is not None else gtest
    okdel = len(guards) == 1 and len(rec) == 1 and gd.dominates(
        guards[0], C.stmt_of(rec[0])) and isinstance(
            gtest, ast.Call) and RPM + ':_has_child_providers' in \
        C.call_name(ctx, d, gtest) and src(gtest.args[-1]) in d.params \
        and src(gtest.args[-1]) == src(rec[0].args[-1])
    R.ob('R9.4', 'delete:children-refused', okdel,
         'a provider with children is refused before its row is deleted',
         [src(x.test) for x in guards], func=d)
    hc = prog.func(RPM + ':_has_child_providers')
    wh = [n for n in own_nodes(hc.node) if isinstance(n, ast.Compare)
          and src(n.left).endswith('.c.parent_provider_id')]
    R.ob('R9.4', '_has_child_providers:by-parent', len(wh) == 1 and src(
        wh[0].comparators[0]) == hc.params[1],
        'children are found by parent_provider_id == <id>',
        [src(x) for x in wh], func=hc)
    R.count('R9.4', 1, 1)

    # ------------------------------------------------------------ status
    n = 0
    for q, exc, want in (
            ('placement.handlers.resource_provider:create_resource_provider',
             OAE, 'webob.exc.HTTPBadRequest'),
            ('placement.handlers.resource_provider:update_resource_provider',
             OAE, 'webob.exc.HTTPBadRequest'),
            ('placement.handlers.resource_provider:delete_resource_provider',
             'placement.exception.CannotDeleteParentResourceProvider',
             'webob.exc.HTTPConflict')):
        hf = prog.func(q)
        n += 1
        esc = exc in ctx.raises.escaping(hf)
        conv = []
        for node in own_nodes(hf.node):
            if isinstance(node, ast.ExceptHandler) and exc in (
                    ctx.raises.handler_types(hf, node) or []):
                conv = [ctx.raises.exc_name(hf, r.exc)
                        for r in own_nodes_of(node)
                        if isinstance(r, ast.Raise) and r.exc is not None]
        # ObjectActionError preconditions (id/uuid/name) may still escape:
        # only the parent-related raise sites matter here
        R.ob('R9.5', '%s:%s' % (q.split(':')[1], exc.rsplit('.', 1)[1]),
             conv == [want], 'answered with %s' % want.rsplit('.', 1)[1],
             conv, func=hf)
    R.count('R9.5', n, 3)
    R.count('R9.1', 1, 1)
    from psa import sqlshape
    n = sqlshape.shape_rule(ctx, R, 'R9.6', [
        'placement.objects.research_context:provider_ids_from_uuid',
        RPM + ':_get_provider_by_uuid', RPM + ':_has_child_providers'])
    R.count('R9.6', n, 3)


def r97(ctx, R):
    """Shape of get_subtree: self plus, recursively, every provider of the
    same tree whose parent is in the result."""
    prog = ctx.prog
    f = prog.func(RPM + ':ResourceProvider.get_subtree')
    g = cfgmod.cfg_of(f)
    mp = f.params[2] if len(f.params) > 2 else None
    # (1) the tree members come from the in_tree filter on self
    calls = C.calls_to(ctx, f, RPM + ':get_all_by_filters')
    ok1 = False
    tree_var = None
    if len(calls) == 1:
        flt = C.kwarg(calls[0], 'filters') or (
            calls[0].args[1] if len(calls[0].args) > 1 else None)
        if isinstance(flt, ast.Name):
            fdef = c05.single_def(f, flt.id)
            flt = fdef.value if fdef is not None else flt
        ok1 = isinstance(flt, ast.Dict) and len(flt.keys) == 1 and \
            isinstance(flt.keys[0], ast.Constant) and \
            flt.keys[0].value == 'in_tree' and src(flt.values[0]) == \
            'self.uuid'
        st = C.stmt_of(calls[0])
        tree_var = st.targets[0].id if isinstance(st, ast.Assign) else None
    R.ob('R9.7', 'get_subtree:tree-members', ok1,
         "candidates = get_all_by_filters(filters={'in_tree': self.uuid})",
         [src(c)[:70] for c in calls], func=f)
    # (2) every member with a parent is filed under that parent
    ok2 = False
    why = 'no grouping loop'
    # the map may be built under another local that is then bound to the
    # parameter
    maps = {mp} | {n.value.id for n in own_nodes(f.node)
                   if isinstance(n, ast.Assign) and isinstance(
                       n.value, ast.Name) and any(
                           isinstance(t, ast.Name) and t.id == mp
                           for t in n.targets)}
    for lp in [x for x in own_nodes(f.node) if isinstance(x, ast.For)]:
        if not ((tree_var is not None and src(lp.iter) == tree_var) or (
                len(calls) == 1 and lp.iter is calls[0])):
            continue
        v = src(lp.target)
        adds = [c for c in own_nodes_of(lp) if isinstance(c, ast.Call)
                and isinstance(c.func, ast.Attribute)
                and c.func.attr in ('add', 'append')
                and isinstance(c.func.value, ast.Subscript)
                and src(c.func.value.value) in maps
                and src(c.func.value.slice) == '%s.parent_provider_uuid' % v
                and c.args and src(c.args[0]) == v]
        if len(adds) == 1:
            ifs = C.guarding_ifs(C.stmt_of(adds[0]), lp)
            ok2 = len(ifs) == 1 and src(ifs[0][0].test) == \
                '%s.parent_provider_uuid' % v and ifs[0][1] == 'body' and \
                not [x for x in own_nodes_of(lp)
                     if isinstance(x, (ast.Continue, ast.Break))]
            why = 'filed under %s when %s' % (
                src(adds[0].func.value.slice),
                [src(i[0].test) for i in ifs])
    R.ob('R9.7', 'get_subtree:children-by-parent', ok2,
         'every provider of the tree that has a parent is filed under its '
         'parent uuid', why, func=f)
    # (3) result = [self] + subtree of every child (recursion, same map)
    rets = [r for r in own_nodes(f.node) if isinstance(r, ast.Return)]
    ok3 = False
    why = 'return shape'
    if len(rets) == 1 and isinstance(rets[0].value, ast.Name):
        res = rets[0].value.id
        init = [n for n in own_nodes(f.node) if isinstance(n, ast.Assign)
                and any(isinstance(t, ast.Name) and t.id == res
                        for t in n.targets)]
        loops = [x for x in own_nodes(f.node) if isinstance(x, ast.For)
                 and src(x.iter) == '%s[self.uuid]' % mp]
        if len(init) == 1 and src(init[0].value) == '[self]' and \
                len(loops) == 1:
            lp = loops[0]
            v = src(lp.target)
            ext = [c for c in own_nodes_of(lp) if isinstance(c, ast.Call)
                   and isinstance(c.func, ast.Attribute)
                   and c.func.attr == 'extend'
                   and src(c.func.value) == res]
            rec = [c for c in own_nodes_of(lp) if isinstance(c, ast.Call)
                   and isinstance(c.func, ast.Attribute)
                   and c.func.attr == 'get_subtree'
                   and src(c.func.value) == v]
            ok3 = len(ext) == 1 and len(rec) == 1 and rec[0] in list(
                ast.walk(ext[0])) and len(rec[0].args) >= 2 and src(
                    rec[0].args[1]) == mp and not C.guarding_ifs(
                        C.stmt_of(ext[0]), lp) and not [
                    x for x in own_nodes_of(lp)
                    if isinstance(x, (ast.Continue, ast.Break))] and \
                g.dominates(lp, rets[0])
            why = 'init %s, recursion over %s' % (src(init[0].value),
                                                  src(lp.iter))
    R.ob('R9.7', 'get_subtree:self-plus-descendants', ok3,
         'the result is [self] extended by the subtree of every child, '
         'recursively, with the same child map', why, func=f)
    # the map is only built at the start of the recursion
    guards = [n for n in own_nodes(f.node) if isinstance(n, ast.If)
              and src(n.test).replace(' ', '') == '%sisNone' % mp]
    R.ob('R9.7', 'get_subtree:map-built-once', len(guards) == 1,
         'the child map is computed once, at the top of the recursion',
         [src(x.test) for x in guards], func=f, nontrivial=False)
    R.count('R9.7', 1, 1)


_run_c09 = run


def r99(ctx, R):
    """get_subtree (loop check, root rewrite) starts from the providers the
    in_tree filter of the provider listing returns: that filter must select
    exactly the providers whose root is the root of the named provider -
    the reviewed clause and SQL shape of the listing query (R13.2 / R13.5
    read for this property)."""
    from psa import sqlshape
    from psa.rules import c13
    n = C.reuse_obligations(
        ctx, R, c13.r132, 'R9.9',
        select=lambda o: o.construct.startswith('filter:in_tree')
        or o.construct == 'provider-alias')
    n += sqlshape.shape_rule(ctx, R, 'R9.9', [
        RPM + ':_get_all_by_filters_from_db'])
    # ... and the object-level listing hands on every row of that query:
    # what it returns is built from the query's rows one to one, with no
    # condition and no other source
    f = ctx.prog.func(RPM + ':get_all_by_filters')
    q = C.calls_to(ctx, f, RPM + ':_get_all_by_filters_from_db')
    rets = [r for r in own_nodes(f.node) if isinstance(r, ast.Return)]
    ok = len(q) == 1 and len(rets) == 1
    why = 'queries=%d returns=%d' % (len(q), len(rets))
    if ok:
        v = rets[0].value
        view = None
        if isinstance(v, (ast.ListComp, ast.GeneratorExp)):
            view = {'gens': [(g.target, g.iter) for g in v.generators],
                    'conds': [c for g in v.generators for c in g.ifs]}
        elif isinstance(v, ast.Name):
            view = C.builder_view(f, v.id)
        ok = view is not None and len(view['gens']) == 1 and not \
            view['conds']
        why = 'result not built one-to-one from the rows'
        if ok:
            it = view['gens'][0][1]
            it = C.inline_locals(f, it)
            # the rows walked are the query's result itself
            qsrc = src(C.inline_locals(f, q[0]))
            ok = src(it) == qsrc or (isinstance(it, ast.Name) and any(
                isinstance(a, ast.Assign) and a.value is q[0] and any(
                    isinstance(t, ast.Name) and t.id == it.id
                    for t in a.targets) for a in own_nodes(f.node)) and len(
                [a for a in own_nodes(f.node) if isinstance(a, ast.Assign)
                 and any(isinstance(t, ast.Name) and t.id == it.id
                         for t in a.targets)]) == 1)
            why = 'rows walked: %s' % src(it)[:60]
    n += 1
    R.ob('R9.9', 'get_all_by_filters:every-row', ok,
         'the provider listing returns one object per row of the filtered '
         'query - no row is dropped or added afterwards', why, func=f)
    R.count('R9.9', n, 5)


def run(ctx, R):
    _run_c09(ctx, R)
    r97(ctx, R)
    r99(ctx, R)
    # R9.8: the loop / self-parent guards compare request text with stored
    # uuids in Python; they mean something only if what is bound is what is
    # stored
    n8 = C.plain_column_types(ctx, R, 'R9.8')
    R.count('R9.8', n8, 40)
