"""C13 - provider listing filters select exactly the matching providers
(structural clauses)."""
import ast

from psa import cfg as cfgmod
from psa import model
from psa.model import own_nodes, own_nodes_of, src
from psa.rules import common as C
from psa.rules import c05

EXPLANATION = (
    "R13.1 key agreement: query parameters admitted by GET_RPS_SCHEMA_* = "
    "keys read from req.GET in list_resource_providers; keys stored into "
    "the filters dict = keys popped in _get_all_by_filters_from_db (nothing "
    "parsed is dropped, nothing popped is never produced). R13.2 application "
    "table (8 filters): each popped filter reaches query.where(...) or an "
    "early 'return []' on every path where it is non-empty, with the "
    "expected column, helper and polarity. R13.3: the capacity predicate of "
    "get_providers_with_resource equals the write-time check (sibling "
    "cross-check, normal form). R13.4: unknown traits / classes are "
    "answered 400. The helpers' SQL (aggregate and trait joins) is not "
    "decided against the statement.")
ASSUMPTIONS = []

HANDLER = 'placement.handlers.resource_provider:list_resource_providers'
DBF = 'placement.objects.resource_provider:_get_all_by_filters_from_db'
RC = 'placement.objects.research_context'

# var -> (kind, column, helper, empty-policy)
TABLE = {
    'name': ('eq', 'name', None, None),
    'uuid': ('eq', 'uuid', None, None),
    'in_tree': ('eq-root', 'root_provider_id',
                RC + ':provider_ids_from_uuid', 'return-empty'),
    'required_traits': ('in', 'id',
                        RC + ':provider_ids_matching_required_traits',
                        'return-empty'),
    'forbidden_traits': ('not-in', 'id',
                         RC + ':get_provider_ids_having_any_trait',
                         'skip-clause'),
    'member_of': ('in', 'id', RC + ':provider_ids_matching_aggregates',
                  'return-empty'),
    'forbidden_aggs': ('not-in', 'id',
                       RC + ':provider_ids_matching_aggregates',
                       'skip-clause'),
    'resources': ('in-loop', 'id', RC + ':get_providers_with_resource',
                  None),
}


def _trace(ctx, f, e, within, depth=0):
    """Follow names (defined inside ``within``) to calls; yield call nodes
    and the names passed through."""
    calls = []
    seen = set()

    def rec(x, d):
        if d > 5:
            return
        for n in ast.walk(x):
            if isinstance(n, ast.Call):
                calls.append(n)
            if isinstance(n, ast.Name) and n.id not in seen:
                seen.add(n.id)
                for a in own_nodes_of(within):
                    if isinstance(a, ast.Assign) and any(
                            isinstance(t, ast.Name) and t.id == n.id
                            for t in a.targets):
                        rec(a.value, d + 1)
    rec(e, 0)
    return calls, seen


def _filters_producer(ctx, h):
    """(function that creates the filters dict empty and fills it, the
    dict's name there, the name of the request there, the
    get_all_by_filters call sites of the handler)."""
    calls = C.calls_to(ctx, h, 'placement.objects.resource_provider:'
                       'get_all_by_filters')
    reqn = (h.params + [None])[0]
    if len(calls) != 1:
        return h, None, reqn, calls
    a = calls[0].args[1] if len(calls[0].args) > 1 else C.kwarg(
        calls[0], 'filters')
    if not isinstance(a, ast.Name):
        return h, None, reqn, calls
    fd = c05.single_def(h, a.id)
    name = a.id
    for _i in range(3):
        # plain copies of the name (also what expanding a helper leaves)
        if fd is not None and isinstance(fd.value, ast.Name):
            name = fd.value.id
            fd = c05.single_def(h, name)
    if fd is None:
        return h, None, reqn, calls
    if isinstance(fd.value, ast.Dict) and not fd.value.keys:
        return h, name, reqn, calls
    if isinstance(fd.value, ast.Call):
        s = ctx.cg.site_of.get(fd.value)
        if s is not None and len(s.callees) == 1:
            g = s.callees[0]
            rets = [r for r in own_nodes(g.node) if isinstance(r, ast.Return)]
            if g.module is h.module and not g.decorators and len(
                    rets) == 1 and isinstance(rets[0].value, ast.Name):
                gd = c05.single_def(g, rets[0].value.id)
                greq = None
                for i, x in enumerate(fd.value.args):
                    if isinstance(x, ast.Name) and x.id == reqn and i < len(
                            g.params):
                        greq = g.params[i]
                if gd is not None and isinstance(
                        gd.value, ast.Dict) and not gd.value.keys and greq:
                    return g, rets[0].value.id, greq, calls
    return h, None, reqn, calls


def r131(ctx, R):
    prog = ctx.prog
    h = prog.func(HANDLER)
    d = prog.func(DBF)
    sch = prog.const('placement.schemas.resource_provider',
                     'GET_RPS_SCHEMA_1_18')
    schema_keys = set(sch.get('properties', {}))
    # the function that builds the filters dict: the handler itself, or a
    # same-module helper the handler delegates the building to
    P, fvar, reqn, calls = _filters_producer(ctx, h)
    # keys read from req.GET
    read = set()
    qpkeys = set()
    for n in own_nodes(P.node):
        if isinstance(n, ast.Compare) and len(n.ops) == 1 and isinstance(
                n.ops[0], ast.In) and src(n.comparators[0]) == \
                '%s.GET' % reqn:
            if isinstance(n.left, ast.Constant):
                read.add(n.left.value)
            elif isinstance(n.left, ast.Name):
                # loop variable over a constant tuple
                for lp in own_nodes(P.node):
                    if isinstance(lp, ast.For) and src(lp.target) == \
                            n.left.id:
                        it = lp.iter
                        if isinstance(it, ast.Name):
                            dd = c05.single_def(P, it.id)
                            it = dd.value if dd is not None else it
                        if isinstance(it, (ast.Tuple, ast.List)):
                            for x in it.elts:
                                if isinstance(x, ast.Constant):
                                    qpkeys.add(x.value)
    read |= qpkeys
    R.ob('R13.1', 'schema-vs-read', schema_keys == read,
         'every query parameter the newest schema admits is read by the '
         'handler and vice versa', 'schema %s read %s' % (
             sorted(schema_keys), sorted(read)), func=h)
    # older schemas admit subsets
    for nm in ('GET_RPS_SCHEMA_1_0', 'GET_RPS_SCHEMA_1_3',
               'GET_RPS_SCHEMA_1_4', 'GET_RPS_SCHEMA_1_14'):
        s2 = prog.const('placement.schemas.resource_provider', nm)
        R.ob('R13.1', 'schema-subset:%s' % nm,
             set(s2.get('properties', {})) <= schema_keys and
             s2.get('additionalProperties') is False,
             'older schemas admit a subset and reject unknown keys',
             sorted(s2.get('properties', {})), nontrivial=False)
    # keys stored into the dict handed to the query builder
    produced = set()
    for n in own_nodes(P.node):
        if isinstance(n, ast.Assign):
            for t in n.targets:
                ts = t.elts if isinstance(t, ast.Tuple) else [t]
                for x in ts:
                    if isinstance(x, ast.Subscript) and fvar and src(
                            x.value) == fvar:
                        if isinstance(x.slice, ast.Constant):
                            produced.add(x.slice.value)
                        elif isinstance(x.slice, ast.Name):
                            produced |= qpkeys
    popped = set()
    for n in own_nodes(d.node):
        if isinstance(n, ast.Call) and isinstance(n.func, ast.Attribute) \
                and n.func.attr == 'pop' and src(n.func.value) == \
                d.params[1] and n.args and isinstance(
                    n.args[0], ast.Constant):
            popped.add(n.args[0].value)
    R.ob('R13.1', 'produced-vs-popped', produced == popped,
         'filters stored by the handler = filters popped by the query '
         'builder', 'produced %s popped %s' % (sorted(produced),
                                               sorted(popped)), func=h)
    R.ob('R13.1', 'popped-vs-table', popped == set(TABLE),
         'the query builder knows exactly the eight documented filters',
         sorted(popped), func=d)
    # pairs returned by the normalisers are stored in the right order
    for n in own_nodes(P.node):
        if isinstance(n, ast.Assign) and isinstance(
                n.targets[0], ast.Tuple) and isinstance(n.value, ast.Call):
            keys = [x.slice.value for x in n.targets[0].elts
                    if isinstance(x, ast.Subscript)
                    and isinstance(x.slice, ast.Constant)]
            if len(keys) != 2:
                continue
            s = ctx.cg.site_of.get(n.value)
            ok = False
            rn = None
            if s and len(s.callees) == 1:
                rets = [r for r in own_nodes(s.callees[0].node)
                        if isinstance(r, ast.Return)]
                rn = [src(r.value) for r in rets]
                # which position is the forbidden side is decided by
                # R13.6 (values with a '!' prefix feed position 1, and the
                # plural normalisers accumulate position-wise)
                ok = _returned_sides(s.callees[0]) is not None and \
                    s.callees[0].qbase in PARSERS and not \
                    keys[0].startswith('forbidden') and keys[1].startswith(
                        'forbidden')
            R.ob('R13.1', 'pair-order:%s' % keys[0], ok,
                 '(required, forbidden) returned by the normaliser is stored '
                 'as (%s, %s)' % tuple(keys), rn, func=P, node=n)
    # every answer comes from the query builder: no normal path of the
    # handler ends without having called get_all_by_filters (a short cut
    # deciding the result from the parsed filters alone is a second,
    # unreviewed implementation of the filter semantics)
    gh = cfgmod.cfg_of(h)
    vias = {C.stmt_of(c) for c in calls}
    okq = bool(vias) and gh.must_pass(cfgmod.ENTRY, cfgmod.EXIT, vias,
                                      normal_only=True)
    R.ob('R13.1', 'every-answer-from-the-query', okq,
         'every normal path of the handler calls get_all_by_filters',
         'ok' if okq else 'a path returns without asking the database',
         func=h)
    # the handler passes the dict it built
    R.ob('R13.1', 'passes-filters', fvar is not None,
         'get_all_by_filters(context, <the dict the handler created empty '
         'and filled>)', [src(c) for c in calls], func=h)
    R.count('R13.1', 1, 1)


def _where_calls(node):
    out = []
    for n in own_nodes_of(node):
        if isinstance(n, ast.Assign) and isinstance(
                n.value, ast.Call) and isinstance(
                    n.value.func, ast.Attribute) and n.value.func.attr == \
                'where' and len(n.targets) == 1 and src(
                    n.targets[0]) == src(n.value.func.value):
            out.append(n)
    return out


def _intersection_form(ctx, R, f, var, helper, rp_alias, cons):
    """Alternative spelling of the resources filter: intersect the id sets
    of all entries in Python, then one IN clause.  Returns True/False when
    the form is recognised (obligations recorded), None otherwise."""
    loops = [x for x in own_nodes(f.node) if isinstance(x, ast.For)
             and src(x.iter) == '%s.items()' % var]
    if len(loops) != 1:
        return None
    lp = loops[0]
    inters = [a for a in own_nodes_of(lp) if isinstance(a, ast.AugAssign)
              and isinstance(a.op, ast.BitAnd)]
    if len(inters) != 1:
        return None
    acc = src(inters[0].target)
    hcalls = [c for c in own_nodes_of(lp) if isinstance(c, ast.Call)
              and helper in C.call_name(ctx, f, c)]
    R.ob('R13.2', cons + ':helper', len(hcalls) == 1,
         'every entry is looked up with %s' % helper.split(':')[1],
         len(hcalls), func=f, node=lp)
    # the accumulator may be (re)started only on a sentinel that cannot be
    # confused with an empty intersection
    ifs = C.guarding_ifs(inters[0], lp)
    restart_ok = True
    why = 'unconditional intersection'
    for i, br in ifs:
        t = src(i.test).replace(' ', '')
        if t == acc or t == 'not' + acc:
            restart_ok = False
            why = 'the accumulator is restarted when it is empty: an ' \
                'empty intersection followed by another class yields that ' \
                "class's providers (if %s: ... else: %s = ...)" % (acc, acc)
        elif t in ('%sisnotNone' % acc, '%sisNone' % acc):
            why = 'restart on the None sentinel only'
        else:
            restart_ok = False
            why = 'intersection under %s' % src(i.test)
    R.ob('R13.2', cons + ':every-entry-narrows', restart_ok,
         'every resources entry narrows the result: the intersection of the '
         'per-class provider sets never starts over', why, func=f,
         node=inters[0])
    wh = [w for w in _where_calls(f.node)
          if acc in src(w.value.args[0])]
    okw = len(wh) == 1 and isinstance(wh[0].value.args[0], ast.Call) and \
        src(wh[0].value.args[0].func) == '%s.c.id.in_' % rp_alias
    R.ob('R13.2', cons + ':clause', okw, 'id IN <intersection>',
         [src(w.value)[:60] for w in wh], func=f)
    return True


def r132(ctx, R):
    prog = ctx.prog
    f = prog.func(DBF)
    g = cfgmod.cfg_of(f)
    # variable popped for each key
    var_of = {}
    for n in own_nodes(f.node):
        if isinstance(n, ast.Assign) and isinstance(n.value, ast.Call) and \
                isinstance(n.value.func, ast.Attribute) and \
                n.value.func.attr == 'pop' and n.value.args and isinstance(
                    n.value.args[0], ast.Constant) and isinstance(
                        n.targets[0], ast.Name):
            var_of[n.value.args[0].value] = n.targets[0].id
    rp_alias = None
    for n in own_nodes(f.node):
        if isinstance(n, ast.Assign) and isinstance(n.value, ast.Call) and \
                src(n.value.func).endswith('alias') and \
                ctx.effects.table_of(f, n.value) == 'resource_providers' \
                and any(isinstance(k.value, ast.Constant) and k.value.value
                        == 'rp' for k in n.value.keywords):
            rp_alias = n.targets[0].id
    R.ob('R13.2', 'provider-alias', rp_alias is not None,
         'the selected table is an alias of resource_providers', rp_alias,
         func=f, nontrivial=False)
    n_rows = 0
    for key, (kind, col, helper, policy) in sorted(TABLE.items()):
        n_rows += 1
        var = var_of.get(key)
        cons = 'filter:%s' % key
        if var is None:
            R.ob('R13.2', cons, False, 'the filter is popped into a '
                 'variable', 'not popped', func=f)
            continue
        if kind == 'in-loop':
            blocks = [x for x in own_nodes(f.node) if isinstance(x, ast.For)
                      and src(x.iter) == '%s.items()' % var
                      and not C.guarding_ifs(x, f.node)]
            if not blocks:
                alt = _intersection_form(ctx, R, f, var, helper, rp_alias,
                                         cons)
                if alt is not None:
                    continue
        else:
            blocks = [x for x in own_nodes(f.node) if isinstance(x, ast.If)
                      and isinstance(x.test, ast.Name) and x.test.id == var
                      and not x.orelse]
        if not R.ob('R13.2', cons + ':block', len(blocks) == 1,
                    'exactly one "if %s:" / loop applies the filter' % var,
                    len(blocks), func=f):
            continue
        b = blocks[0]
        R.ob('R13.2', cons + ':unconditional',
             not C.guarding_ifs(b, f.node),
             'the filter block is not nested under another condition',
             [src(i[0].test) for i in C.guarding_ifs(b, f.node)], func=f,
             node=b, nontrivial=False)
        wh = _where_calls(b)
        if not R.ob('R13.2', cons + ':where', len(wh) == 1,
                    'the block narrows the query with exactly one where()',
                    len(wh), func=f, node=b):
            continue
        w = wh[0]
        e = w.value.args[0] if w.value.args else None
        neg = False
        if isinstance(e, ast.UnaryOp) and isinstance(e.op, ast.Invert):
            neg = True
            e = e.operand
        shape_ok = False
        found = src(e) if e is not None else None
        arg = None
        if kind in ('eq', 'eq-root'):
            shape_ok = isinstance(e, ast.Compare) and len(e.ops) == 1 and \
                isinstance(e.ops[0], ast.Eq) and src(e.left) == \
                '%s.c.%s' % (rp_alias, col) and not neg
            arg = e.comparators[0] if shape_ok else None
            if kind == 'eq' and shape_ok:
                shape_ok = src(arg) == var
        else:
            shape_ok = isinstance(e, ast.Call) and isinstance(
                e.func, ast.Attribute) and e.func.attr == 'in_' and src(
                    e.func.value) == '%s.c.%s' % (rp_alias, col) and \
                neg == (kind == 'not-in')
            arg = e.args[0] if shape_ok and e.args else None
        R.ob('R13.2', cons + ':clause', shape_ok,
             {'eq': '%s == <value>' % col, 'eq-root': 'root_provider_id == '
              '<root of in_tree>', 'in': 'id IN <helper result>',
              'not-in': 'NOT (id IN <helper result>)',
              'in-loop': 'id IN <helper result> for every entry'}[kind],
             ('~' if neg else '') + (found or ''), func=f, node=w)
        if helper is None or arg is None:
            continue
        calls, names = _trace(ctx, f, arg, b)
        hcalls = [c for c in calls if helper in C.call_name(ctx, f, c)]
        okh = len(hcalls) == 1
        R.ob('R13.2', cons + ':helper', okh,
             'the clause is computed by %s' % helper.split(':')[1],
             [src(c.func) for c in calls][:4], func=f, node=w)
        if okh:
            hc = hcalls[0]
            hargs, hnames = _trace(ctx, f, ast.Tuple(
                elts=list(hc.args), ctx=ast.Load()), b)
            bound = {var}
            if kind == 'in-loop':
                bound = {x.id for x in ast.walk(b.target)
                         if isinstance(x, ast.Name)}
            R.ob('R13.2', cons + ':helper-argument',
                 bool(bound & (hnames | C.names_in(ast.Tuple(
                     elts=list(hc.args), ctx=ast.Load())))),
                 'the helper is applied to this filter\'s value',
                 [src(a) for a in hc.args], func=f, node=hc)
            if kind == 'eq-root':
                # the compared value is <result of the helper>.root_id,
                # directly or through a local of the block
                val = arg
                for _i in range(3):
                    if isinstance(val, ast.Name):
                        ds = [a.value for a in own_nodes_of(b)
                              if isinstance(a, ast.Assign) and any(
                                  isinstance(t, ast.Name) and t.id == val.id
                                  for t in a.targets)]
                        val = ds[0] if len(ds) == 1 else None
                hst = C.stmt_of(hc)
                okr = isinstance(val, ast.Attribute) and val.attr == \
                    'root_id' and isinstance(val.value, ast.Name) and \
                    isinstance(hst, ast.Assign) and hst.value is hc and any(
                        isinstance(t, ast.Name) and t.id == val.value.id
                        for t in hst.targets)
                R.ob('R13.2', cons + ':root', okr,
                     'compared with the root id of the provider found',
                     src(arg), func=f, node=w)
            if key == 'forbidden_aggs':
                a0 = hc.args[1] if len(hc.args) > 1 else None
                R.ob('R13.2', cons + ':single-group',
                     isinstance(a0, ast.List) and len(a0.elts) == 1,
                     'forbidden aggregates are one any-of group', src(a0)
                     if a0 is not None else None, func=f, node=hc,
                     nontrivial=False)
        # empty-result policy
        wst = w
        if policy == 'return-empty':
            rets = [x for x in own_nodes_of(b) if isinstance(x, ast.Return)
                    and isinstance(x.value, ast.List) and not x.value.elts]
            okp = False
            for r in rets:
                ifs = C.guarding_ifs(r, b)
                if len(ifs) == 1 and ifs[0][1] == 'body':
                    t = ifs[0][0].test
                    ts = src(t).replace(' ', '')
                    nm = None
                    if isinstance(t, ast.UnaryOp) and isinstance(
                            t.op, ast.Not):
                        nm = src(t.operand)
                    elif ts.endswith('isNone'):
                        nm = ts[:-6]
                    if nm in names and g.dominates(ifs[0][0], wst):
                        okp = True
            R.ob('R13.2', cons + ':empty-means-no-provider', okp,
                 'an empty helper result returns [] before the clause',
                 '%d early returns' % len(rets), func=f, node=b)
            wifs = C.guarding_ifs(wst, b)
            R.ob('R13.2', cons + ':clause-unconditional', not wifs,
                 'otherwise the clause is always applied',
                 [src(i[0].test) for i in wifs], func=f, node=w,
                 nontrivial=False)
        elif policy == 'skip-clause':
            wifs = C.guarding_ifs(wst, b)
            okp = len(wifs) == 1 and wifs[0][1] == 'body' and isinstance(
                wifs[0][0].test, ast.Name) and wifs[0][0].test.id in names \
                and wifs[0][0].test.id == src(arg)
            R.ob('R13.2', cons + ':empty-means-no-exclusion', okp,
                 'the exclusion is skipped only when the helper found '
                 'nothing to exclude', [src(i[0].test) for i in wifs],
                 func=f, node=w)
        else:
            wifs = C.guarding_ifs(wst, b)
            R.ob('R13.2', cons + ':clause-unconditional', not wifs,
                 'the clause is always applied',
                 [src(i[0].test) for i in wifs], func=f, node=w,
                 nontrivial=False)
    R.count('R13.2', n_rows, 8)
    # the narrowed query is what is executed
    rets = [r for r in own_nodes(f.node) if isinstance(r, ast.Return)
            and not (isinstance(r.value, ast.List) and not r.value.elts)]
    qname = None
    okq = len(rets) == 1 and 'execute(' in src(rets[0].value)
    if okq:
        ex = [c for c in ast.walk(rets[0].value) if isinstance(c, ast.Call)
              and isinstance(c.func, ast.Attribute)
              and c.func.attr == 'execute']
        qname = src(ex[0].args[0]) if ex and ex[0].args else None
        allw = _where_calls(f.node)
        okq = qname is not None and all(src(w.targets[0]) == qname
                                        for w in allw)
        others = [n for n in own_nodes(f.node) if isinstance(n, ast.Assign)
                  and any(isinstance(t, ast.Name) and t.id == qname
                          for t in n.targets) and n not in allw]
        okq = okq and len(others) == 1
    R.ob('R13.2', 'executes-narrowed-query', okq,
         'the one query object narrowed by every filter is executed',
         qname, func=f)


def r134(ctx, R):
    h = ctx.prog.func(HANDLER)
    n = 0
    for exc in ('placement.exception.ResourceClassNotFound',
                'placement.exception.TraitNotFound'):
        n += 1
        got = None
        for node in own_nodes(h.node):
            if isinstance(node, ast.ExceptHandler) and exc in (
                    ctx.raises.handler_types(h, node) or []):
                got = [ctx.raises.exc_name(h, r.exc)
                       for r in own_nodes_of(node)
                       if isinstance(r, ast.Raise) and r.exc is not None]
                t = [x for x in own_nodes(h.node) if isinstance(x, ast.Try)
                     and node in x.handlers][0]
                calls = [c for c in own_nodes_of(t) if isinstance(c, ast.Call)
                         and 'placement.objects.resource_provider:'
                         'get_all_by_filters' in C.call_name(ctx, h, c)]
                if not calls:
                    got = ['handler does not enclose the listing call']
        R.ob('R13.4', '%s->400' % exc.rsplit('.', 1)[1],
             got == ['webob.exc.HTTPBadRequest'],
             'an unknown name is answered 400', got, func=h)
    # the lookups that raise them are on the path
    d = ctx.prog.func(DBF)
    ids = [c for c in own_nodes(d.node) if isinstance(c, ast.Call)
           and isinstance(c.func, ast.Attribute)
           and c.func.attr == 'id_from_string']
    R.ob('R13.4', 'names-resolved-through-caches', len(ids) >= 2,
         'trait and class names are resolved through the caches, which '
         'raise for unknown names', [src(c.func) for c in ids], func=d)
    fm = [c for c in C.calls_to(ctx, d, 'placement.objects.trait:'
                                'ids_from_names')]
    R.ob('R13.4', 'forbidden-names-resolved', len(fm) == 1,
         'forbidden trait names are resolved through ids_from_names',
         len(fm), func=d, nontrivial=False)
    R.count('R13.4', n, 2)


def run(ctx, R):
    r131(ctx, R)
    r132(ctx, R)
    from psa.rules import c02
    c02.r21(ctx, R, 'R13.3')
    r134(ctx, R)
    from psa import sqlshape
    n = sqlshape.shape_rule(ctx, R, 'R13.5', [
        RC + ':provider_ids_matching_aggregates',
        RC + ':provider_ids_matching_required_traits',
        RC + ':get_provider_ids_having_any_trait',
        RC + ':provider_ids_from_uuid',
        RC + ':get_providers_with_resource', RC + ':_usage_select',
        DBF])
    R.count('R13.5', n, 7)


PARSERS = ['placement.util:normalize_member_of_qs_param',
           'placement.util:normalize_member_of_qs_params',
           'placement.util:normalize_traits_qs_param',
           'placement.util:normalize_traits_qs_params',
           'placement.util:normalize_resources_qs_param']


def _prefix_tests(test, f=None):
    """[(receiver src, literal, positive)] for startswith tests in a
    condition (conjunctions and negations followed; a local that holds the
    result of one startswith call is read as that call)."""
    out = []

    def rec(e, pol):
        if isinstance(e, ast.Name) and f is not None:
            d = c05.single_def(f, e.id)
            if d is not None and isinstance(d.value, ast.Call):
                rec(d.value, pol)
            return
        if isinstance(e, ast.UnaryOp) and isinstance(e.op, ast.Not):
            rec(e.operand, not pol)
        elif isinstance(e, ast.BoolOp):
            for v in e.values:
                rec(v, pol)
        elif isinstance(e, ast.Call) and isinstance(
                e.func, ast.Attribute) and e.func.attr == 'startswith' and \
                e.args and isinstance(e.args[0], ast.Constant):
            out.append((src(e.func.value), e.args[0].value, pol))
    rec(test, True)
    return out


def r136(ctx, R):
    """Parsers of member_of / required: a stripped prefix has the length of
    the prefix tested, and '!' forms feed the forbidden side only."""
    prog = ctx.prog
    n = 0
    for q in PARSERS:
        f = prog.func(q)
        for node in own_nodes(f.node):
            if not isinstance(node, ast.If):
                continue
            ptest, pbody, _pelse = C.pos_if(node)
            pts = [p for p in _prefix_tests(ptest, f) if p[2]]
            if len(pts) != 1:
                continue
            recv, lit, _ = pts[0]
            n += 1
            # slices of the same receiver in the taken branch
            bad = []
            for st in pbody:
                for x in ast.walk(st):
                    if isinstance(x, ast.Subscript) and src(
                            x.value) == recv and isinstance(
                                x.slice, ast.Slice) and x.slice.lower is \
                            not None and isinstance(
                                x.slice.lower, ast.Constant):
                        if x.slice.lower.value != len(lit) or \
                                x.slice.upper is not None:
                            bad.append(src(x))
                    if isinstance(x, ast.Call) and isinstance(
                            x.func, ast.Attribute) and x.func.attr in (
                                'lstrip', 'strip') and src(
                                    x.func.value) == recv and x.args and \
                            isinstance(x.args[0], ast.Constant) and \
                            not lit.startswith(str(x.args[0].value)):
                        bad.append(src(x))
            R.ob('R13.6', '%s:strip-%r' % (f.qbase.split(':')[1], lit),
                 not bad,
                 'the prefix removed from the value is exactly the prefix '
                 'that was tested (%r -> [%d:])' % (lit, len(lit)), bad,
                 func=f, node=node)
            # polarity: names with "forbidden" are fed only under '!'
            assigned = set()
            for st in pbody:
                for x in ast.walk(st):
                    if isinstance(x, ast.Assign):
                        for t in x.targets:
                            assigned.add(src(t))
            sides = _returned_sides(f)
            if sides is None:
                continue
            forb = bool(assigned & sides[1])
            req = bool(assigned & sides[0])
            okp = True
            if lit.startswith('!'):
                okp = not req
            elif forb and not req:
                okp = False
            R.ob('R13.6', '%s:polarity-%r' % (f.qbase.split(':')[1], lit),
                 okp,
                 "values tested with a '!' prefix feed the forbidden side, "
                 "the others the required side", sorted(assigned), func=f,
                 node=node, nontrivial=False)
    R.count('R13.6', n, 4)
    _r136_paths(ctx, R)
    # the order of the startswith tests: the longer '!in:' before '!'
    f = prog.func('placement.util:normalize_member_of_qs_param')
    chain = []
    for node in own_nodes(f.node):
        if isinstance(node, ast.If):
            pts = [p for p in _prefix_tests(node.test, f) if p[2]]
            if len(pts) == 1 and not C.guarding_ifs(node, f.node):
                cur = node
                while True:
                    ct, _cb, celse = C.pos_if(cur)
                    p = [x for x in _prefix_tests(ct, f) if x[2]]
                    if len(p) == 1:
                        chain.append(p[0][1])
                    if len(celse) == 1 and isinstance(celse[0], ast.If):
                        cur = celse[0]
                    else:
                        break
                break
    ok = True
    for i, a in enumerate(chain):
        for b in chain[i + 1:]:
            if b.startswith(a) and b != a:
                ok = False
    R.ob('R13.6', 'normalize_member_of_qs_param:prefix-order', ok and
         len(chain) >= 3,
         'a longer prefix is tested before any of its own prefixes '
         "('!in:' before '!')", chain, func=f)
    # the handler-level pairing: required groups are appended, forbidden
    # ones are united (decided by position in the returned pairs)
    for q, single, what in (
            ('placement.util:normalize_member_of_qs_params',
             'placement.util:normalize_member_of_qs_param',
             'every member_of value contributes: its required set is '
             'appended (AND of any-of groups), its forbidden set is united'),
            ('placement.util:normalize_traits_qs_params',
             'placement.util:normalize_traits_qs_param',
             'every required value contributes its any-of groups (appended) '
             'and its forbidden traits (united)')):
        g = prog.func(q)
        ok, why = _accumulates(ctx, g, single)
        R.ob('R13.6', '%s:accumulation' % q.split(':')[1], ok, what, why,
             func=g)


def _r136_paths(ctx, R):
    """The same two facts decided per path with the values propagated: on
    every returning path of a single-value parser, what was cut off the
    value is as long as the longest prefix the path found it to start with,
    and the value ends up on the forbidden side exactly when that prefix
    begins with '!'.  (Covers parsers that look the prefix up in a table and
    slice by its length; parsers that fill their results with add() calls
    are covered by the per-branch rule above.)"""
    from psa import pathval
    prog = ctx.prog
    for q in PARSERS:
        f = prog.func(q)
        if len(f.params) != 1:
            continue
        recv = f.params[0]
        bad_strip, bad_pol = [], []
        seen = 0
        for p in pathval.paths_of(f):
            if p.end != 'return':
                continue
            ret = p.stmts[-1]
            val = p.value_at(ret, ret.value) if ret.value is not None \
                else None
            if not (isinstance(val, ast.Tuple) and len(val.elts) == 2):
                continue
            lits = set()
            for _n, pol, t in p.conds:
                d = pathval.dnf(t, pol)
                if len(d) != 1:
                    continue
                for a, ap in d[0]:
                    if ap and isinstance(a, ast.Call) and isinstance(
                            a.func, ast.Attribute) and a.func.attr == \
                            'startswith' and src(a.func.value) == recv and \
                            a.args and isinstance(a.args[0], ast.Constant) \
                            and isinstance(a.args[0].value, str):
                        lits.add(a.args[0].value)
            lit = max(lits, key=len) if lits else ''
            cuts = []
            for x in ast.walk(val):
                if isinstance(x, ast.Subscript) and src(x.value) == recv \
                        and isinstance(x.slice, ast.Slice):
                    lo = x.slice.lower
                    n_ = None
                    if lo is None:
                        n_ = 0
                    elif isinstance(lo, ast.Constant) and isinstance(
                            lo.value, int):
                        n_ = lo.value
                    elif isinstance(lo, ast.Call) and src(lo.func) == 'len' \
                            and len(lo.args) == 1 and isinstance(
                                lo.args[0], ast.Constant) and isinstance(
                                    lo.args[0].value, str):
                        n_ = len(lo.args[0].value)
                    cuts.append((n_, x.slice.upper is None, src(x)))
            mentions = [recv in C.names_in(e) for e in val.elts]
            if not any(mentions):
                continue
            seen += 1
            for n_, open_end, text in cuts:
                if n_ != len(lit) or not open_end:
                    bad_strip.append('%s after %r' % (text, lit))
            if lit and not cuts:
                bad_strip.append('nothing cut after %r' % lit)
            want = [False, True] if lit.startswith('!') else [True, False]
            if mentions != want:
                bad_pol.append('%r -> (%s)' % (lit, ', '.join(
                    src(e)[:30] for e in val.elts)))
        if not seen:
            continue
        name = f.qbase.split(':')[1]
        R.ob('R13.6', '%s:paths-strip' % name, not bad_strip,
             'on every returning path the part cut off the value is exactly '
             'the (longest) prefix the path tested', bad_strip[:3] or
             '%d paths' % seen, func=f)
        R.ob('R13.6', '%s:paths-polarity' % name, not bad_pol,
             "on every returning path a value with a '!' prefix ends up on "
             "the forbidden side only, any other on the required side only",
             bad_pol[:3] or '%d paths' % seen, func=f)


def _returned_sides(f):
    """(names at position 0, names at position 1) over all returns of a
    pair; None when some return is not a 2-tuple."""
    a, b = set(), set()
    rets = [r for r in own_nodes(f.node) if isinstance(r, ast.Return)]
    if not rets:
        return None
    for r in rets:
        if not (isinstance(r.value, ast.Tuple) and len(r.value.elts) == 2):
            return None
        a |= C.names_in(r.value.elts[0])
        b |= C.names_in(r.value.elts[1])
    return a, b


def _accumulates(ctx, g, single):
    sides = _returned_sides(g)
    if sides is None or len(sides[0]) != 1 or len(sides[1]) != 1:
        return False, 'does not return one (required, forbidden) pair'
    racc, facc = list(sides[0])[0], list(sides[1])[0]
    loops = [x for x in own_nodes(g.node) if isinstance(x, ast.For)]
    if len(loops) != 1:
        return False, '%d loops' % len(loops)
    lp = loops[0]
    if [x for x in own_nodes_of(lp) if isinstance(x, (ast.Break,
                                                        ast.Continue))]:
        return False, 'the loop skips values'
    it = lp.iter
    srcs = [it]
    if isinstance(it, ast.Name):
        srcs = [n.value for n in own_nodes(g.node)
                if isinstance(n, ast.Assign) and any(
                    isinstance(t, ast.Name) and t.id == it.id
                    for t in n.targets)]
    if not any('getall' in src(x) for x in srcs):
        return False, 'the loop does not walk getall()'
    calls = [c for c in C.calls_to(ctx, g, single)]
    if len(calls) != 1:
        return False, '%d calls of the value parser' % len(calls)
    st = C.stmt_of(calls[0])
    if not (isinstance(st, ast.Assign) and isinstance(
            st.targets[0], ast.Tuple) and len(st.targets[0].elts) == 2 and
            all(isinstance(x, ast.Name) for x in st.targets[0].elts)):
        return False, 'the parser result is not unpacked into a pair'
    rv, fv = [x.id for x in st.targets[0].elts]
    # position 0 is appended / concatenated into the returned position 0
    r_ok = False
    for n in own_nodes_of(lp):
        if isinstance(n, ast.Call) and isinstance(
                n.func, ast.Attribute) and n.func.attr in (
                    'append', 'extend') and src(n.func.value) == racc and \
                n.args and src(n.args[0]) == rv:
            r_ok = True
        if isinstance(n, ast.AugAssign) and isinstance(
                n.op, ast.Add) and src(n.target) == racc and src(
                    n.value) == rv:
            r_ok = True
    f_ok = any(isinstance(n, ast.AugAssign) and isinstance(n.op, ast.BitOr)
               and src(n.target) == facc and src(n.value) == fv
               for n in own_nodes_of(lp))
    # nothing else rebinds or edits the accumulators: the only definitions
    # are their empty initialisations before the loop and the accumulation
    # inside it (a later "simplification" of the collected groups changes
    # which providers match)
    other = []
    for n in own_nodes(g.node):
        if isinstance(n, ast.Assign) and any(
                src(t) in (racc, facc) for t in n.targets):
            empty = isinstance(n.value, (ast.List, ast.Set, ast.Tuple)) and \
                not n.value.elts or (isinstance(n.value, ast.Call) and src(
                    n.value.func) in ('set', 'list') and not n.value.args)
            if not (empty and cfgmod.cfg_of(g).dominates(n, lp)):
                other.append(n)
        if isinstance(n, ast.AugAssign) and src(n.target) in (
                racc, facc) and not any(n is x for x in own_nodes_of(lp)):
            other.append(n)
        if isinstance(n, ast.Call) and isinstance(
                n.func, ast.Attribute) and src(n.func.value) in (
                    racc, facc) and n.func.attr in (
                        'remove', 'pop', 'clear', 'discard', 'insert',
                        'difference_update', 'intersection_update',
                        'sort', 'reverse') :
            other.append(n)
    return (r_ok and f_ok and not other,
            'required side accumulated: %s, forbidden side united: %s%s' % (
                r_ok, f_ok, ', accumulator rebound' if other else ''))


_run_c13 = run


def run(ctx, R):
    _run_c13(ctx, R)
    r136(ctx, R)


def r137(ctx, R):
    """member_of with aggregate uuids the service has never seen: an any-of
    group ignores unknown uuids and is unsatisfiable (empty result) only
    when none of its uuids is known."""
    prog = ctx.prog
    f = prog.func('placement.objects.research_context:'
                  'provider_ids_matching_aggregates')
    g = cfgmod.cfg_of(f)
    mo = f.params[1] if len(f.params) > 1 else None
    loops = [x for x in own_nodes(f.node) if isinstance(x, ast.For)]

    def walks_groups(lp):
        it = lp.iter
        if isinstance(it, ast.Call) and src(it.func) == 'enumerate' and \
                it.args:
            it = it.args[0]
        return src(it) == mo
    # the join-building loop: one iteration per any-of group, containing the
    # per-group id list
    ok = False
    why = 'no per-group id list found'
    empties = []
    for r in own_nodes(f.node):
        if isinstance(r, ast.Return) and isinstance(
                r.value, ast.Call) and src(r.value.func) == 'set' and \
                not r.value.args:
            empties.append(r)
        if isinstance(r, ast.Return) and isinstance(
                r.value, (ast.Set, ast.List, ast.Tuple)) and \
                not r.value.elts:
            empties.append(r)
    for lp in [x for x in loops if walks_groups(x)]:
        grp = lp.target.elts[-1] if isinstance(
            lp.target, ast.Tuple) else lp.target
        for a in own_nodes_of(lp):
            if not (isinstance(a, ast.Assign) and isinstance(
                    a.value, ast.ListComp) and len(
                        a.value.generators) == 1):
                continue
            gen = a.value.generators[0]
            if src(gen.iter) != src(grp):
                continue
            elt = a.value.elt
            # [map[m] for m in members if m in map]
            if not (isinstance(elt, ast.Subscript) and src(
                    elt.slice) == src(gen.target)):
                continue
            amap = src(elt.value)
            filt = [t for t in gen.ifs if isinstance(t, ast.Compare)
                    and isinstance(t.ops[0], ast.In)
                    and src(t.left) == src(gen.target)
                    and src(t.comparators[0]) == amap]
            ids = a.targets[0].id if isinstance(
                a.targets[0], ast.Name) else None
            if len(filt) != 1 or len(gen.ifs) != 1 or ids is None:
                why = 'the per-group id list does not skip unknown uuids'
                continue
            # every empty return is "if not <ids>" inside this loop
            good = True     # IN () matches nothing: the short cut is optional
            for r in empties:
                gi = C.guarding_ifs(r, f.node)
                if not (gi and gi[0][1] == 'body' and isinstance(
                        gi[0][0].test, ast.UnaryOp) and isinstance(
                            gi[0][0].test.op, ast.Not) and src(
                                gi[0][0].test.operand) == ids and
                        len(gi) == 1 and C.stmt_of(gi[0][0]) is not None
                        and any(gi[0][0] is x for x in own_nodes_of(lp))):
                    good = False
                    why = 'line %d returns the empty result under %s' % (
                        r.lineno, [src(i.test) for i, _b in gi])
            if good:
                ok = True
                why = 'ids = [map[m] for m in group if m in map]; ' \
                    'empty result only when a group has no known uuid'
    R.ob('R13.7', 'provider_ids_matching_aggregates:unknown-aggregates', ok,
         'an any-of group of aggregates ignores uuids placement has never '
         'recorded; the result is forced empty only when a whole group is '
         'unknown', why, func=f)
    R.count('R13.7', 1, 1)


_run_c13b = run


def run(ctx, R):
    _run_c13b(ctx, R)
    r137(ctx, R)


def r138(ctx, R):
    """The object-level listing answers from the filtered query on every
    path: one object per row, no shortcut that answers from somewhere else
    (a "uuid only" fast path would have to re-state every other filter to be
    right, and does not)."""
    from psa.rules import c09
    n = C.reuse_obligations(
        ctx, R, c09.r99, 'R13.8',
        select=lambda o: o.construct == 'get_all_by_filters:every-row')
    R.count('R13.8', n, 1)


_run_c13c = run


def run(ctx, R):
    _run_c13c(ctx, R)
    r138(ctx, R)


_TEXT_ONLY = ('split', 'strip', 'lstrip', 'rstrip', 'partition')
_CONTAINERS = ('set', 'frozenset', 'list', 'tuple', 'sorted')


def r139(ctx, R):
    """Aggregates are known by the text the client gave when it associated
    them (PUT .../aggregates stores the uuids of the body as sent) and are
    matched by that text: the member_of parser hands on the uuids of the
    query string as sent - cut out of the value, nothing else done to them
    (a canonical re-spelling on one side only finds nothing, and a
    forbidden aggregate so re-spelt forbids nothing)."""
    prog = ctx.prog
    f = prog.func('placement.util:normalize_member_of_qs_param')
    rets = [r for r in own_nodes(f.node) if isinstance(r, ast.Return)
            and r.value is not None]
    names = {x.id for r in rets for x in ast.walk(r.value)
             if isinstance(x, ast.Name)}
    bad = []
    n = 0
    for a in own_nodes(f.node):
        if not isinstance(a, (ast.Assign, ast.AugAssign)):
            continue
        tg = a.targets if isinstance(a, ast.Assign) else [a.target]
        if not names & {x.id for t in tg for x in ast.walk(t)
                        if isinstance(x, ast.Name)}:
            continue
        n += 1
        for c in ast.walk(a.value):
            if not isinstance(c, ast.Call):
                continue
            if isinstance(c.func, ast.Name) and c.func.id in _CONTAINERS:
                continue
            if isinstance(c.func, ast.Attribute) and \
                    c.func.attr in _TEXT_ONLY:
                continue
            bad.append('line %d: %s' % (c.lineno, src(c)[:50]))
    R.ob('R13.9', 'normalize_member_of_qs_param:uuids-as-sent',
         bool(rets) and n > 0 and not bad,
         'the aggregate uuids returned are pieces of the parameter value, '
         'not transformed', bad[:3] or '%d assignments' % n, func=f)
    # the writing side: what PUT aggregates hands to set_aggregates is the
    # body (or its 'aggregates' member) itself
    h = [x for x in prog.funcs_named(
        'placement.handlers.aggregate:set_aggregates')]
    m = 0
    for impl in h:
        for s in ctx.cg.calls_in(impl):
            if not any(g.qbase.endswith('ResourceProvider.set_aggregates')
                       or g.qbase == 'placement.handlers.aggregate:'
                       '_set_aggregates' for g in s.callees):
                continue
            cal = [g for g in s.callees][0]
            pn = [p for p in cal.params if 'aggregate' in p and
                  'generation' not in p]
            arg = C.arg_for_param(s.node, cal, pn[0]) if pn else None
            if arg is None:
                continue
            m += 1
            # every definition of the argument: the body or a member of it
            defs = [arg]
            if isinstance(arg, ast.Name):
                defs = [x.value for x in own_nodes(impl.node)
                        if isinstance(x, ast.Assign) and any(
                            isinstance(t, ast.Name) and t.id == arg.id
                            for t in x.targets)]
            okw = bool(defs) and all(
                not [c for c in ast.walk(C.inline_locals(impl, d))
                     if isinstance(c, ast.Call) and not src(
                         c.func).endswith('extract_json')]
                for d in defs)
            R.ob('R13.9', '%s:stores-as-sent' % impl.qname, okw,
                 'the uuids stored are the ones of the body, untransformed',
                 [src(d)[:40] for d in defs], func=impl, node=s.node)
    R.count('R13.9', 1 + m, 1)


_run_c13d = run


def run(ctx, R):
    _run_c13d(ctx, R)
    r139(ctx, R)
