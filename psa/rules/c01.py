"""C01 - allocation writes never over-commit or break unit constraints."""
import ast

from psa import cfg as cfgmod
from psa import model
from psa import normform
from psa.model import own_nodes, own_nodes_of, src
from psa.rules import common as C

EXPLANATION = (
    "R1.1: INSERT/UPDATE on allocations exist only in _set_allocations, "
    "DELETEs only in the two delete helpers. R1.2: inside _set_allocations' "
    "own writer scope every path to the INSERT passes, in this order, the "
    "per-consumer delete loop and _check_capacity_exceeded on the same list "
    "that is inserted, and nothing absorbs the rejection. R1.3: after "
    "normalisation to polynomial-relation-zero form the guards of "
    "_check_capacity_exceeded are exactly amount < min_unit, amount > "
    "max_unit, amount mod step_size != 0 and (total-reserved)*ratio < used + "
    "running sum (further disjuncts only if subsumed); a missing inventory "
    "row raises InvalidInventory; the only skip is amount == 0 after the "
    "running sum was updated. R1.4: reshape orders interim inventory -> "
    "replace_all -> final inventory. R1.5: every allocation-writing schema "
    "at every version admits only integer amounts >= 1 and no unknown keys.")
ASSUMPTIONS = [
    "float behaviour of allocation_ratio and the SQL semantics of the usage "
    "query are not modelled",
]

SET_ALLOCS = 'placement.objects.allocation:_set_allocations'
CHECK = 'placement.objects.allocation:_check_capacity_exceeded'
DEL_FOR_CONSUMER = 'placement.objects.allocation:_delete_allocations_for_consumer'
DEL_BY_IDS = 'placement.objects.allocation:_delete_allocations_by_ids'
INVALID_INV = 'placement.exception.InvalidInventory'
CONSTRAINTS = 'placement.exception.InvalidAllocationConstraintsViolated'
CAPACITY = 'placement.exception.InvalidAllocationCapacityExceeded'


def spec_atoms():
    P = normform.Poly
    amt, mn, mx, st = (P.atom('amount'), P.atom('min_unit'),
                       P.atom('max_unit'), P.atom('step_size'))
    cap = (P.atom('total') - P.atom('reserved')) * P.atom('allocation_ratio')
    return {
        'below_min': normform.Cmp(amt - mn, '<0'),
        'above_max': normform.Cmp(mx - amt, '<0'),
        'step': normform.Cmp(P.atom('mod(%r,%r)' % (amt, st)), '!=0'),
        'capacity_sum': normform.Cmp(cap - P.atom('used0') - P.atom('SUM'),
                                     '<0'),
        'capacity_one': normform.Cmp(cap - P.atom('used0') - amt, '<0'),
    }


def r11(ctx, R):
    allowed_w = {SET_ALLOCS}
    allowed_d = {DEL_FOR_CONSUMER, DEL_BY_IDS}
    n = 0
    for f in ctx.prog.funcs:
        for e in ctx.effects.direct[f]:
            if e.table != 'allocations' or e.op not in 'IUD':
                continue
            n += 1
            if e.op == 'D':
                ok = f.qbase in allowed_d
                exp = 'DELETE on allocations only in the two delete helpers'
            else:
                ok = f.qbase in allowed_w
                exp = 'INSERT/UPDATE on allocations only in _set_allocations'
            R.ob('R1.1', 'write:%s %s in %s' % (e.op, e.table, f.qbase), ok,
                 exp, 'in %s' % f.qname, func=f, node=e.node)
    # the delete helpers are called only from the write path / delete_all
    callers_ok = {
        DEL_FOR_CONSUMER: {SET_ALLOCS},
        DEL_BY_IDS: {'placement.objects.allocation:delete_all'},
    }
    for q, allowed in callers_ok.items():
        f = ctx.prog.func(q)
        cs = {c.qbase for c in ctx.cg.callers.get(f, ())}
        R.ob('R1.1', 'callers:%s' % q, cs <= allowed,
             'called only from %s' % sorted(allowed), sorted(cs), func=f,
             nontrivial=False)
    R.count('R1.1', n, 3)


def r12(ctx, R, rule='R1.2'):
    prog = ctx.prog
    f = prog.func(SET_ALLOCS)
    g = cfgmod.cfg_of(f)
    allocs = f.params[1] if len(f.params) > 1 else None
    R.ob(rule, '_set_allocations:writer-scope',
         ctx.effects.scope_kind(f) == 'writer',
         '_set_allocations runs in its own writer scope',
         [d.qname for d in f.decorators], func=f)
    dels = C.calls_to(ctx, f, DEL_FOR_CONSUMER)
    chks = C.calls_to(ctx, f, CHECK)
    ins = [e for e in ctx.effects.direct[f]
           if e.op == 'I' and e.table == 'allocations']
    ok_sites = len(dels) == 1 and len(chks) == 1 and len(ins) == 1
    R.ob(rule, '_set_allocations:sites', ok_sites,
         'one delete call, one capacity check, one INSERT',
         'delete=%d check=%d insert=%d' % (len(dels), len(chks), len(ins)),
         func=f)
    if not ok_sites:
        return
    d_st, c_st, i_st = C.stmt_of(dels[0]), C.stmt_of(chks[0]), ins[0].stmt
    # delete loop covers every consumer of the written list
    lp = getattr(d_st, '_parent', None)
    okd = False
    why = 'delete call is not in a loop'
    if isinstance(lp, ast.For) and isinstance(lp.iter, ast.Name) and \
            isinstance(lp.target, ast.Name):
        from psa.rules.c05 import single_def
        dd = single_def(f, lp.iter.id)
        why = 'loop over %s' % (src(dd.value)[:70] if dd is not None else
                                lp.iter.id)
        if dd is not None:
            v = dd.value
            comp = None
            for x in ast.walk(v):
                if isinstance(x, (ast.GeneratorExp, ast.SetComp,
                                  ast.ListComp)):
                    comp = x
            if comp is not None and len(comp.generators) == 1 and src(
                    comp.generators[0].iter) == allocs and not \
                    comp.generators[0].ifs and src(comp.elt).endswith(
                        '.consumer.uuid'):
                okd = True
        okd = okd and [src(a) for a in dels[0].args][1:] == [lp.target.id]
        okd = okd and not C.guarding_ifs(d_st, lp)
    R.ob(rule, '_set_allocations:delete-loop', okd,
         'the previous rows of every consumer in the written list are '
         'deleted first', why, func=f, node=d_st)
    okc = len(chks[0].args) >= 2 and src(chks[0].args[1]) == allocs
    R.ob(rule, '_set_allocations:check-same-list', okc,
         'the capacity check runs on the list that is inserted',
         src(chks[0]), func=f, node=chks[0])
    R.ob(rule, '_set_allocations:delete-before-check',
         g.dominates(lp if isinstance(lp, ast.For) else d_st, c_st) and
         not g.dominates(c_st, d_st),
         'delete loop dominates the capacity check', 'order', func=f,
         node=c_st)
    R.ob(rule, '_set_allocations:check-before-insert',
         g.dominates(c_st, i_st),
         'the capacity check dominates the INSERT', 'order', func=f,
         node=i_st)
    # the insert loop iterates the written list and writes alloc.used
    il = None
    cur = getattr(i_st, '_parent', None)
    while cur is not None and cur is not f.node:
        if isinstance(cur, ast.For):
            il = cur
            break
        cur = getattr(cur, '_parent', None)
    oki = False
    why = 'insert is not in a loop over the written list'
    if il is not None and src(il.iter) == allocs and isinstance(
            il.target, ast.Name):
        v = il.target.id
        used = None
        for x in own_nodes_of(il):
            if isinstance(x, ast.Call) and isinstance(
                    x.func, ast.Attribute) and x.func.attr == 'values':
                used = C.kwarg(x, 'used')
        oki = used is not None and src(used) == '%s.used' % v
        why = 'used=%s' % (src(used) if used is not None else None)
        # the only way to skip the INSERT is used == 0
        conts = [x for x in own_nodes_of(il) if isinstance(x, ast.Continue)]
        for c in conts:
            ifs = C.guarding_ifs(c, il)
            t = src(ifs[0][0].test).replace(' ', '') if ifs else ''
            if len(ifs) != 1 or t not in ('%s.used==0' % v,
                                          '0==%s.used' % v):
                oki = False
                why = 'continue under %s' % (t or 'no condition')
    R.ob(rule, '_set_allocations:insert-loop', oki,
         'every element with used != 0 is inserted with its own amount',
         why, func=f, node=il or i_st)
    # nothing absorbs the rejection
    for q in (SET_ALLOCS, CHECK,
              'placement.objects.allocation:replace_all',
              'placement.objects.reshaper:reshape'):
        h = prog.func(q)
        for t in [x for x in own_nodes(h.node) if isinstance(x, ast.Try)]:
            for hd in t.handlers:
                hts = ctx.raises.handler_types(h, hd)
                absorbs = hts is None or any(
                    x in ('Exception', 'BaseException') or
                    ctx.raises.is_subclass(INVALID_INV, x) or
                    ctx.raises.is_subclass(x, INVALID_INV) for x in hts)
                from psa.rules.c04 import handler_swallows
                ok = not (absorbs and handler_swallows(h, hd))
                R.ob(rule, '%s:except %s' % (h.qbase, hts), ok,
                     'no except clause absorbs the capacity rejection',
                     'swallows' if not ok else 'ok', func=h, node=hd,
                     nontrivial=False)
    # replace_all forwards its list
    ra = prog.func('placement.objects.allocation:replace_all')
    cs = C.calls_to(ctx, ra, SET_ALLOCS)
    okr = len(cs) == 1 and len(cs[0].args) >= 2 and src(
        cs[0].args[1]) == ra.params[1]
    R.ob(rule, 'replace_all:forwards-list', okr,
         'replace_all writes the list it was given', [src(c) for c in cs],
         func=ra)


def _find_raise_ifs(ctx, f, exc):
    out = []
    for n in own_nodes(f.node):
        if isinstance(n, ast.If):
            rs = [x for x in n.body if isinstance(x, ast.Raise)]
            if rs and rs[-1] is n.body[-1] and rs[-1].exc is not None and \
                    ctx.raises.exc_name(f, rs[-1].exc) == exc:
                out.append(n)
    return out


def r13(ctx, R):
    prog = ctx.prog
    f = prog.func(CHECK)
    g = cfgmod.cfg_of(f)
    spec = spec_atoms()
    allocs = f.params[1]
    # the loop over the allocations
    loops = [x for x in own_nodes(f.node) if isinstance(x, ast.For)
             and src(x.iter) == allocs and isinstance(x.target, ast.Name)
             and _find_raise_ifs_in(ctx, f, x)]
    if not R.ob('R1.3', 'check:loop', len(loops) == 1,
                'one loop over the allocations holds the guards',
                '%d' % len(loops), func=f):
        return
    lp = loops[0]
    v = lp.target.id
    # the running sum
    sums = [x for x in own_nodes_of(lp) if isinstance(x, ast.AugAssign)
            and isinstance(x.op, ast.Add) and isinstance(
                x.target, ast.Subscript)]
    extra = {'%s.used' % v: 'amount'}
    sum_expr = None
    if len(sums) == 1:
        sum_expr = src(sums[0].target)
        extra[sum_expr] = 'SUM'
    nz = normform.Normalizer(f, normform.column_naming(extra))
    oks = len(sums) == 1 and nz.poly(sums[0].value) == normform.Poly.atom(
        'amount')
    R.ob('R1.3', 'check:running-sum', oks,
         'a running per-(provider, class) sum is increased by the amount of '
         'every allocation', [src(s) for s in sums], func=f,
         node=sums[0] if sums else lp)
    if oks:
        # keyed by the allocation's provider and class
        keys = []
        t = sums[0].target
        while isinstance(t, ast.Subscript):
            keys.append(t.slice)
            t = t.value
        if len(keys) == 1:
            # a flat map keyed by the (provider, class) pair
            k0 = keys[0]
            if isinstance(k0, ast.Name):
                from psa.rules.c05 import single_def as _sd
                d0 = _sd(f, k0.id)
                k0 = d0.value if d0 is not None else k0
            if isinstance(k0, ast.Tuple) and len(k0.elts) == 2:
                keys = list(k0.elts)
        okk = len(keys) == 2
        for k in keys:
            from psa.rules.c05 import single_def
            # a key is a value of the allocation walked: a local bound to
            # it, or the expression itself
            if isinstance(k, ast.Name):
                d = single_def(f, k.id)
                if d is None or v not in C.names_in(d.value):
                    okk = False
            elif v not in C.names_in(k):
                okk = False
            # ... and a stored identifier (uuid / id / class name or its
            # id), not an object: two objects can stand for one provider
            kv = C.inline_locals(f, k)
            if isinstance(kv, ast.Name):
                dk = single_def(f, kv.id)
                kv = dk.value if dk is not None else kv
            scalar = (isinstance(kv, ast.Attribute) and kv.attr in (
                'uuid', 'id', 'resource_class', 'rc_id')) or (
                    isinstance(kv, ast.Call) and src(kv.func).endswith(
                        'id_from_string'))
            if not scalar:
                okk = False
        R.ob('R1.3', 'check:running-sum-key', okk,
             'the sum is keyed by the allocation\'s provider and class '
             '(their stored identifiers)',
             [src(k) for k in keys], func=f, node=sums[0])
    # constraint guard
    cons = [x for x in _find_raise_ifs(ctx, f, CONSTRAINTS)]
    if R.ob('R1.3', 'check:constraint-guard', len(cons) == 1,
            'one guard raises InvalidAllocationConstraintsViolated',
            '%d' % len(cons), func=f):
        ds = nz.disjuncts(cons[0].test)
        want = {spec['below_min'], spec['above_max'], spec['step']}
        got = set(d for d in ds if d is not None)
        ok = got == want and None not in ds
        R.ob('R1.3', 'check:constraint-atoms', ok,
             'amount < min_unit or amount > max_unit or amount mod '
             'step_size != 0', src(cons[0].test), func=f, node=cons[0])
    caps = [x for x in _find_raise_ifs(ctx, f, CAPACITY)]
    if R.ob('R1.3', 'check:capacity-guard', len(caps) == 1,
            'one guard raises InvalidAllocationCapacityExceeded',
            '%d' % len(caps), func=f):
        ds = nz.disjuncts(caps[0].test)
        got = [d for d in ds]
        has_sum = spec['capacity_sum'] in got
        others = [d for d in got if d != spec['capacity_sum']]
        subsumed = all(d == spec['capacity_one'] for d in others)
        R.ob('R1.3', 'check:capacity-atoms', has_sum and subsumed,
             '(total - reserved) * allocation_ratio < used + running sum '
             '(further disjuncts only if subsumed by it)',
             src(caps[0].test), func=f, node=caps[0])
    # skip only for amount == 0, after the running sum was updated: stated
    # over branch literals, so "if amount == 0: continue" and "if amount !=
    # 0: <checks>" are one shape
    zero = normform.Cmp(normform.Poly.atom('amount'), '==0')

    def only_nonzero(node):
        """Every literal selecting node says amount != 0."""
        bad = []
        for e, pol in C.skip_conds(node, lp):
            cm = nz.cmp(e)
            if cm is not None and not pol:
                cm = cm.negate()
            if cm != zero.negate():
                bad.append(ast.unparse(e) + ('' if pol else ' [neg]'))
        return bad
    okskip = True
    why = 'ok'
    for name, lst in (('constraint', cons), ('capacity', caps)):
        for x in lst:
            bad = only_nonzero(x)
            if bad:
                okskip = False
                why = '%s guard is also skipped under %s' % (name, bad)
    for sm in sums[:1]:
        bad = C.skip_conds(sm, lp)
        if bad:
            okskip = False
            why = 'the running-sum update is conditional: %s' % [
                ast.unparse(e) for e, _p in bad]
    R.ob('R1.3', 'check:skip-only-zero', okskip,
         'the only skipped allocations are those with amount == 0, and the '
         'running sum is updated for every allocation', why, func=f)
    # every non-skipped iteration reaches both guards
    for name, lst in (('constraint', cons), ('capacity', caps)):
        if len(lst) != 1:
            continue
        bad = only_nonzero(lst[0])
        R.ob('R1.3', 'check:%s-guard-on-every-iteration' % name, not bad,
             'every non-skipped allocation is tested',
             'conditional: %s' % bad if bad else 'ok', func=f, node=lst[0])
    # a missing inventory row raises InvalidInventory
    okm = False
    why = 'no guarded lookup of the usage row'
    for t in [x for x in own_nodes_of(lp) if isinstance(x, ast.Try)]:
        subs = [x for x in own_nodes_of(t) if isinstance(x, ast.Subscript)
                and isinstance(x.ctx, ast.Load)
                and x in [y for s in t.body for y in ast.walk(s)]]
        for hd in t.handlers:
            hts = ctx.raises.handler_types(f, hd) or []
            rs = [ctx.raises.exc_name(f, x.exc) for x in own_nodes_of(hd)
                  if isinstance(x, ast.Raise) and x.exc is not None]
            if 'KeyError' in hts and rs and all(
                    ctx.raises.is_subclass(r, INVALID_INV) for r in rs) \
                    and subs:
                okm = True
                why = '%s -> %s' % (hts, rs)
    # ... or the membership-test form: if <key> not in <map>: raise
    for x in own_nodes_of(lp):
        if isinstance(x, ast.If) and x.body and isinstance(
                x.body[-1], ast.Raise) and x.body[-1].exc is not None:
            r = ctx.raises.exc_name(f, x.body[-1].exc)
            for e, pol in C.lits(x.test, True, []):
                if isinstance(e, ast.Compare) and len(e.ops) == 1 and (
                        isinstance(e.ops[0], ast.NotIn) and pol or
                        isinstance(e.ops[0], ast.In) and not pol) and r and \
                        ctx.raises.is_subclass(r, INVALID_INV):
                    mp = src(e.comparators[0])
                    # the map is subscripted with that key afterwards
                    if any(isinstance(y, ast.Subscript) and src(
                            y.value) == mp and src(y.slice) == src(e.left)
                            for y in own_nodes_of(lp)):
                        okm = True
                        why = '%s -> %s' % (src(x.test), r)
    # ... or the lookup that reports absence: v = <map>.get(<key>) and
    # "if v is None: raise"
    from psa.rules.c05 import single_def
    for x in own_nodes_of(lp):
        if isinstance(x, ast.If) and x.body and isinstance(
                x.body[-1], ast.Raise) and x.body[-1].exc is not None:
            r = ctx.raises.exc_name(f, x.body[-1].exc)
            if not (r and ctx.raises.is_subclass(r, INVALID_INV)):
                continue
            for e, pol in C.lits(x.test, True, []):
                if isinstance(e, ast.Compare) and len(e.ops) == 1 and (
                        isinstance(e.ops[0], ast.Is) and pol or
                        isinstance(e.ops[0], ast.IsNot) and not pol) and \
                        src(e.comparators[0]) == 'None' and isinstance(
                            e.left, ast.Name):
                    d = single_def(f, e.left.id)
                    v = d.value if d is not None else None
                    if isinstance(v, ast.Call) and isinstance(
                            v.func, ast.Attribute) and v.func.attr == 'get' \
                            and len(v.args) in (1, 2) and (
                                len(v.args) == 1 or (isinstance(
                                    v.args[1], ast.Constant)
                                    and v.args[1].value is None)):
                        okm = True
                        why = '%s = %s; %s -> %s' % (
                            e.left.id, src(v), src(x.test), r)
    R.ob('R1.3', 'check:missing-inventory', okm,
         'an allocation for a class without an inventory row raises '
         'InvalidInventory', why, func=f)
    R.count('R1.3', 1, 1)


def _find_raise_ifs_in(ctx, f, loop):
    return [n for n in own_nodes_of(loop) if isinstance(n, ast.If) and any(
        isinstance(x, ast.Raise) for x in n.body)]


def r14(ctx, R, rule='R1.4'):
    prog = ctx.prog
    f = prog.func('placement.objects.reshaper:reshape')
    g = cfgmod.cfg_of(f)
    R.ob(rule, 'reshape:writer-scope', ctx.effects.scope_kind(f) == 'writer'
         or _all_callers_scoped(ctx, f),
         'reshape runs inside a writer scope',
         [d.qname for d in f.decorators], func=f)
    si = C.calls_to(
        ctx, f, 'placement.objects.resource_provider:ResourceProvider.'
        'set_inventory')
    ra = C.calls_to(ctx, f, 'placement.objects.allocation:replace_all')
    ok = len(si) == 2 and len(ra) == 1
    R.ob(rule, 'reshape:sites', ok,
         'two set_inventory sites (interim, final) and one replace_all',
         'set_inventory=%d replace_all=%d' % (len(si), len(ra)), func=f)
    if not ok:
        return
    si_st = sorted([C.stmt_of(x) for x in si], key=lambda s: s.lineno)
    ra_st = C.stmt_of(ra[0])

    def loop_of(st):
        cur = getattr(st, '_parent', None)
        while cur is not None and cur is not f.node:
            if isinstance(cur, ast.For):
                return cur
            cur = getattr(cur, '_parent', None)
        return None
    l1, l2 = loop_of(si_st[0]), loop_of(si_st[1])
    okl = l1 is not None and l2 is not None and l1 is not l2 and src(
        l1.iter) == src(l2.iter) and src(l1.iter).startswith(f.params[1])
    R.ob(rule, 'reshape:loops', okl,
         'interim and final replacement iterate the same inventories',
         '%s / %s' % (src(l1.iter) if l1 else None,
                      src(l2.iter) if l2 else None), func=f)
    if not okl:
        return
    R.ob(rule, 'reshape:interim-before-write', g.dominates(l1, ra_st) and
         not (ra_st in g.reachable_from([l1.body[0]], removed={l1}) and
              False),
         'the interim inventory replacement precedes replace_all', 'order',
         func=f, node=ra_st)
    R.ob(rule, 'reshape:write-before-final', g.dominates(ra_st, l2) and
         g.dominates(ra_st, si_st[1]),
         'replace_all precedes the final inventory replacement', 'order',
         func=f, node=si_st[1])
    R.ob(rule, 'reshape:write-on-all-paths',
         g.must_pass(cfgmod.ENTRY, cfgmod.EXIT, {ra_st}),
         'every normal path through reshape writes the allocations',
         'ok', func=f, node=ra_st)
    # the interim inventory is old U new
    inter_arg = si[0] if C.stmt_of(si[0]) is si_st[0] else si[1]
    a = inter_arg.args[0] if inter_arg.args else None
    oku = False
    why = src(a) if a is not None else None
    if a is not None:
        from psa.rules.c05 import single_def
        # the names the argument is computed from, through single-definition
        # locals (list(d.values()) bound to a name first is the same list)
        names = set(C.names_in(a))
        for _i in range(3):
            for nm in sorted(names):
                d = single_def(f, nm)
                if d is not None and 'get_all_by_resource_provider' not in \
                        src(d.value):
                    names |= set(C.names_in(d.value))
        for nm in sorted(names):
            d = single_def(f, nm)
            if d is not None and 'get_all_by_resource_provider' in src(
                    d.value):
                # overlay = keyed stores of the new entries: d[k] = v in
                # a loop over the new list, or d.update(<mapping built from
                # the new list>); setdefault keeps the old entry and is not
                # an overlay
                newv = src(l1.target.elts[1]) if isinstance(
                    l1.target, ast.Tuple) and len(
                        l1.target.elts) == 2 else None
                def _unconditional(x):
                    # not under a test inside the loop that walks the new
                    # list ("if k not in d" keeps the old entry)
                    cur = getattr(x, '_parent', None)
                    while cur is not None and cur is not l1:
                        if isinstance(cur, ast.For):
                            return not C.conds(x, cur, implicit=True)
                        cur = getattr(cur, '_parent', None)
                    return True
                stores = [x for x in own_nodes_of(l1)
                          if isinstance(x, ast.Assign) and any(
                              isinstance(t, ast.Subscript) and src(
                                  t.value) == nm for t in x.targets)
                          and _unconditional(x)]
                updates = [x for x in own_nodes_of(l1)
                           if isinstance(x, ast.Call) and isinstance(
                               x.func, ast.Attribute) and x.func.attr ==
                           'update' and src(x.func.value) == nm and len(
                               x.args) == 1 and not x.keywords and newv in
                           C.names_in(x.args[0])]
                if stores or updates:
                    oku = True
    if a is not None and not oku:
        # the union written as one expression: a mapping over
        # chain(<stored>, <new>) or {**<stored map>, **<new map>} - in both
        # the new entries come last and win
        full = C.inline_locals(f, a)
        newv = src(l1.target.elts[1]) if isinstance(
            l1.target, ast.Tuple) and len(l1.target.elts) == 2 else None

        def stored(e):
            return 'get_all_by_resource_provider' in src(e)

        def new(e):
            return newv is not None and newv in C.names_in(e) and not \
                stored(e)
        for x in ast.walk(full):
            if isinstance(x, ast.DictComp) and len(x.generators) == 1 and \
                    isinstance(x.generators[0].iter, ast.Call) and src(
                        x.generators[0].iter.func).endswith('chain') and len(
                            x.generators[0].iter.args) == 2 and not \
                    x.generators[0].ifs:
                p_, q_ = x.generators[0].iter.args
                if stored(p_) and new(q_):
                    oku = True
            if isinstance(x, ast.Dict) and len(x.keys) == 2 and all(
                    k is None for k in x.keys):
                p_, q_ = x.values
                if stored(p_) and new(q_):
                    oku = True
        if oku:
            why = src(full)[:90]
    R.ob(rule, 'reshape:interim-is-union', oku,
         'the interim inventory starts from the stored one and overlays the '
         'new entries', why, func=f, node=inter_arg)
    # the final replacement writes the requested list
    fin = si[0] if C.stmt_of(si[0]) is si_st[1] else si[1]
    okf = isinstance(l2.target, ast.Tuple) and len(l2.target.elts) == 2 and \
        fin.args and src(fin.args[0]) == src(l2.target.elts[1])
    R.ob(rule, 'reshape:final-is-request', bool(okf),
         'the final replacement writes the requested inventory list',
         src(fin), func=f, node=fin)
    # the "continue" in the interim loop skips only empty new lists
    for c in [x for x in own_nodes_of(l1) if isinstance(x, ast.Continue)]:
        ifs = C.guarding_ifs(c, l1)
        okc = len(ifs) == 1 and isinstance(l1.target, ast.Tuple) and src(
            ifs[0][0].test) == 'not %s' % src(l1.target.elts[1])
        R.ob(rule, 'reshape:interim-skip', okc,
             'the interim replacement is skipped only for an empty new '
             'inventory', [src(i[0].test) for i in ifs], func=f, node=c,
             nontrivial=False)
    # allocations see the provider objects whose generation was bumped
    R.count(rule, 1, 1)


def _all_callers_scoped(ctx, f):
    cs = ctx.cg.callers.get(f, ())
    return bool(cs) and all(ctx.effects.scope_kind(c) == 'writer'
                            for c in cs)


def alloc_schemas(ctx):
    """[(module, name, schema)] of every allocation-writing schema."""
    out = []
    for modname, prefixes in (
            ('placement.schemas.allocation', ('ALLOCATION_SCHEMA',
                                              'POST_ALLOCATIONS')),
            ('placement.schemas.reshaper', ('POST_RESHAPER_SCHEMA',))):
        env = ctx.prog.consteval.module_env(modname)
        if env is None:
            raise model.AnalysisError('no module %s' % modname)
        for name, val in sorted(env.items()):
            if any(name.startswith(p) for p in prefixes):
                if not isinstance(val, dict):
                    raise model.AnalysisError('%s.%s is not a constant dict'
                                              % (modname, name))
                out.append((modname, name, val))
    return out


def walk_resources(schema, path, found, problems):
    """Find 'resources' objects; check closedness along the way."""
    if not isinstance(schema, dict):
        return
    if isinstance(schema, model.Unknown):
        problems.append((path, 'unknown value'))
        return
    t = schema.get('type')
    is_obj = t == 'object' or 'properties' in schema or \
        'patternProperties' in schema
    if is_obj and schema.get('additionalProperties') is not False:
        problems.append((path, 'object admits unknown keys'))
    for k, sub in (schema.get('properties') or {}).items():
        if k == 'resources':
            found.append((path + '/resources', sub))
        walk_resources(sub, path + '/' + str(k), found, problems)
    for k, sub in (schema.get('patternProperties') or {}).items():
        walk_resources(sub, path + '/~' + str(k)[:12], found, problems)
    if isinstance(schema.get('items'), dict):
        walk_resources(schema['items'], path + '/[]', found, problems)


def r15(ctx, R):
    n = 0
    for modname, name, sch in alloc_schemas(ctx):
        found, problems = [], []
        walk_resources(sch, '', found, problems)
        # mappings is documentation-only and may be open; everything on the
        # way to 'resources' must be closed
        problems = [p for p in problems if '/mappings' not in p[0]
                    and not p[0].startswith('/inventories')]
        R.ob('R1.5', '%s.%s:closed' % (modname.split('.')[-1], name),
             not problems, 'every object on the way to the amounts rejects '
             'unknown keys', problems[:3], nontrivial=False)
        R.ob('R1.5', '%s.%s:has-resources' % (modname.split('.')[-1], name),
             bool(found), 'the schema describes resource amounts',
             '%d resources objects' % len(found), nontrivial=False)
        for path, res in found:
            if path.startswith('/inventories'):
                continue
            n += 1
            pats = res.get('patternProperties') or {}
            ok = bool(pats) and res.get('additionalProperties') is False \
                and not res.get('properties')
            for pk, pv in pats.items():
                if not (isinstance(pv, dict) and pv.get('type') == 'integer'
                        and isinstance(pv.get('minimum'), int)
                        and pv.get('minimum') >= 1):
                    ok = False
            R.ob('R1.5', '%s.%s:%s' % (modname.split('.')[-1], name, path),
                 ok, "amounts are {'type': 'integer', 'minimum': >= 1} and "
                 "no other key is admitted", res)
    R.count('R1.5', n, 13)


def run(ctx, R):
    r11(ctx, R)
    r12(ctx, R)
    R.count('R1.2', 1, 1)
    r13(ctx, R)
    r14(ctx, R)
    from psa.rules import c08
    c08.inventory_delete_guard(ctx, R, 'R1.4')
    r15(ctx, R)
    from psa import sqlshape
    n = sqlshape.shape_rule(ctx, R, 'R1.6', [
        'placement.objects.allocation:_check_capacity_exceeded',
        'placement.objects.allocation:_delete_allocations_for_consumer'])
    R.count('R1.6', n, 2)


def r17(ctx, R):
    """The capacity check reads total, reserved, min_unit, max_unit,
    step_size and allocation_ratio from the inventories table: what the
    inventory writers (also the reshaper's interim and final replacement)
    store there must be the values of the inventory they were given, on the
    INSERT as on the UPDATE - a writer that stores something else lets a
    later allocation through against numbers nobody asked for (R11.1 read
    for the inventories table)."""
    from psa.rules import c11
    n = C.reuse_obligations(
        ctx, R, c11.r111, 'R1.7',
        select=lambda o: ':inventories.' in o.construct)
    R.count('R1.7', n, 12)


_run_c01 = run


def run(ctx, R):
    _run_c01(ctx, R)
    r17(ctx, R)


def r18(ctx, R):
    """One key, one provider.  The allocation handlers turn the providers
    named in a body into Allocation objects through the dict built by
    _resource_providers_by_uuid, one object per (key, class); the per-object
    unit checks and the running per-(provider, class) sum assume that two
    keys are two providers.  That holds only while each provider is looked
    up under exactly the text it is filed under - a lookup under a
    normalised or otherwise derived spelling lets one provider appear under
    two keys, and a consumer then holds the sum of two amounts each of which
    passed max_unit on its own."""
    prog = ctx.prog
    f = prog.func('placement.handlers.allocation:_resource_providers_by_uuid')
    GET = 'placement.objects.resource_provider:ResourceProvider.get_by_uuid'
    n = 0
    bad = []
    for st in own_nodes(f.node):
        if not isinstance(st, ast.Assign):
            continue
        for t in st.targets:
            if not isinstance(t, ast.Subscript):
                continue
            v = C.inline_locals(f, st.value)
            calls = [c for c in ast.walk(st.value) if isinstance(c, ast.Call)
                     and GET in C.call_name(ctx, f, c)]
            if not calls:
                continue
            n += 1
            c = calls[0]
            a = c.args[1] if len(c.args) > 1 else C.kwarg(c, 'uuid')
            key = C.inline_locals(f, t.slice)
            arg = C.inline_locals(f, a) if a is not None else None
            if arg is None or src(arg) != src(key):
                bad.append('filed under %s, looked up by %s' % (
                    src(t.slice), src(a) if a is not None else None))
    R.ob('R1.8', 'providers-by-uuid:key-is-lookup', n >= 1 and not bad,
         'every provider object is filed under exactly the uuid text it was '
         'looked up by (two keys can never be one provider)', bad or
         '%d stores' % n, func=f)
    R.count('R1.8', n, 1)


_run_c01b = run


def run(ctx, R):
    _run_c01b(ctx, R)
    r18(ctx, R)


def r19(ctx, R):
    """Every consumer a multi-consumer request names reaches the write, and
    with it the capacity check: in create_allocation_list each entry of the
    body either yields new Allocation objects (one per provider and class it
    names) or - when its allocations are empty - the consumer's current ones
    zeroed; nothing else decides whether an entry is looked at (an entry
    skipped as "unchanged" is not checked against an inventory the same
    request shrinks)."""
    prog = ctx.prog
    f = prog.func('placement.handlers.allocation:create_allocation_list')
    rets = [r for r in own_nodes(f.node) if isinstance(r, ast.Return)
            and isinstance(r.value, ast.Name)]
    ok = len(rets) == 1
    why = []
    n = 0
    if ok:
        res = rets[0].value.id
        loops = [lp for lp in own_nodes(f.node) if isinstance(lp, ast.For)
                 and src(lp.iter).split('.')[0] == f.params[1]
                 and not C.guarding_ifs(lp, f.node)]
        def fills_of(lp_):
            return [c for c in own_nodes_of(lp_) if isinstance(c, ast.Call)
                    and isinstance(c.func, ast.Attribute) and c.func.attr in
                    ('extend', 'append') and src(c.func.value) == res]
        # the loop over the entries that fills the result (a preparatory
        # loop over the same body does not count)
        loops = [lp_ for lp_ in loops if fills_of(lp_)]
        ok = len(loops) == 1
        if ok:
            lp = loops[0]
            fills = fills_of(lp)
            ok = len(fills) >= 2
            # the entry's own allocations: a local read from the body entry
            deps = C.Deps(f)
            for c in fills:
                n += 1
                for e, pol in C.skip_conds(C.stmt_of(c), lp):
                    e2 = C.inline_locals(f, e)
                    plain = isinstance(e2, (ast.Subscript, ast.Name)) and \
                        "'allocations'" in src(e2) or (
                            isinstance(e, ast.Name) and deps.reaches(
                                e, lambda x: isinstance(x, ast.Constant)
                                and x.value == 'allocations') and isinstance(
                                    e2, (ast.Subscript, ast.Name)))
                    if not plain:
                        ok = False
                        why.append('%s under %s%s' % (
                            src(c.func), '' if pol else 'not ', src(e)[:50]))
            if any(isinstance(x, ast.Break) for x in own_nodes_of(lp)):
                ok = False
                why.append('the loop over the entries can be left early')
    R.ob('R1.9', 'create_allocation_list:every-entry-reaches-the-write', ok,
         'each consumer entry yields Allocation objects under no other '
         'condition than whether its own allocations are empty',
         why[:3] or '%d fills' % n, func=f)
    R.count('R1.9', max(n, 1), 1)


_run_c01c = run


def run(ctx, R):
    _run_c01c(ctx, R)
    r19(ctx, R)


_ORDER_ONLY = ('sorted', 'list', 'tuple', 'iter', 'reversed')


def _mapping_keys(f, it, target, key, body):
    """Loop header ``for target in it`` enumerates the keys of a mapping,
    each once, and ``key`` is the name bound to the key: ``M.items()`` with
    the key first, ``M.keys()``, ``M`` itself when the body subscripts M by
    the key, any of these under an order-only wrapper, or a comprehension
    over one of these that keeps the key first."""
    spellings = {src(it)}
    it = C.inline_locals(f, it)
    while isinstance(it, ast.Call) and isinstance(
            it.func, ast.Name) and it.func.id in _ORDER_ONLY and \
            len(it.args) == 1 and not it.keywords:
        spellings.add(src(it.args[0]))
        it = C.inline_locals(f, it.args[0])
    spellings.add(src(it))
    first = target.elts[0] if isinstance(target, ast.Tuple) and \
        target.elts else None
    if isinstance(it, ast.Call) and isinstance(it.func, ast.Attribute) \
            and not it.args and not it.keywords:
        if it.func.attr == 'items':
            return isinstance(first, ast.Name) and first.id == key
        if it.func.attr == 'keys':
            return isinstance(target, ast.Name) and target.id == key
        return False
    if isinstance(it, (ast.Name, ast.Attribute, ast.Subscript)):
        return isinstance(target, ast.Name) and target.id == key and any(
            isinstance(n, ast.Subscript) and src(n.value) in spellings and
            isinstance(n.slice, ast.Name) and n.slice.id == key
            for b in body for n in ast.walk(b))
    if isinstance(it, (ast.ListComp, ast.GeneratorExp)) and len(
            it.generators) == 1 and \
            isinstance(first, ast.Name) and first.id == key and \
            isinstance(it.elt, ast.Tuple) and it.elt.elts and \
            isinstance(it.elt.elts[0], ast.Name):
        g = it.generators[0]
        return _mapping_keys(f, g.iter, g.target, it.elt.elts[0].id,
                             [it.elt])
    return False


def _loop_of(node, stop):
    """The innermost loop or comprehension around node."""
    cur = getattr(node, '_parent', None)
    while cur is not None and cur is not stop:
        if isinstance(cur, (ast.For, ast.While, ast.ListComp, ast.SetComp,
                            ast.GeneratorExp, ast.DictComp)):
            return cur
        cur = getattr(cur, '_parent', None)
    return None


def r110(ctx, R):
    """One Allocation per (consumer, provider, class): the unit constraints
    are checked per Allocation object, so two objects of one request for
    the same provider and class would each pass min_unit / max_unit /
    step_size while their sum is what the consumer holds.  Wherever the
    handler layer builds Allocation objects from a request, the provider
    and the class of each object are the keys of mappings enumerated once
    (a list of entries may name a provider twice)."""
    prog = ctx.prog
    n = 0
    for f in prog.funcs:
        if not f.module.name.startswith('placement.handlers.'):
            continue
        for s in ctx.cg.calls_in(f):
            names = C.call_name(ctx, f, s.node)
            is_ctor = any(x in ('placement.objects.allocation:Allocation',
                                'placement.objects.allocation:Allocation'
                                '.__init__',
                                'placement.objects.allocation.Allocation')
                          for x in names)
            callee = [g for g in s.callees
                      if g.qbase == 'placement.handlers.allocation:'
                      '_new_allocations']
            if is_ctor:
                roles = (('class', C.kwarg(s.node, 'resource_class')),
                         ('provider', C.kwarg(s.node, 'resource_provider')))
            elif callee:
                roles = (('provider', C.arg_for_param(
                    s.node, callee[0], 'resource_provider')),)
            else:
                continue
            for role, e in roles:
                if e is None:
                    continue
                e = C.inline_locals(f, e)
                if isinstance(e, ast.Name) and e.id in f.params:
                    continue        # decided at the callers of f
                n += 1
                key = None
                if isinstance(e, ast.Name):
                    key = e.id
                elif isinstance(e, ast.Subscript) and isinstance(
                        e.slice, ast.Name):
                    key = e.slice.id
                elif isinstance(e, ast.Call) and isinstance(
                        e.func, ast.Attribute) and e.func.attr == 'get' \
                        and e.args and isinstance(e.args[0], ast.Name):
                    key = e.args[0].id
                lp = _loop_of(s.node, f.node)
                ok = False
                why = 'the %s of the object is %s' % (role, src(e)[:60])
                while key is not None and lp is not None:
                    gens = [g for g in getattr(lp, 'generators', ())
                            if key in {x.id for x in ast.walk(g.target)
                                       if isinstance(x, ast.Name)}]
                    if gens:
                        elt = [lp.key, lp.value] if isinstance(
                            lp, ast.DictComp) else [lp.elt]
                        ok = _mapping_keys(
                            f, gens[0].iter, gens[0].target, key, elt)
                        why = 'for %s in %s' % (src(gens[0].target),
                                                src(gens[0].iter)[:60])
                        break
                    if isinstance(lp, ast.For) and key in {
                            x.id for x in ast.walk(lp.target)
                            if isinstance(x, ast.Name)}:
                        ok = _mapping_keys(f, lp.iter, lp.target, key,
                                           lp.body)
                        why = 'for %s in %s' % (src(lp.target),
                                                src(lp.iter)[:60])
                        break
                    lp = _loop_of(lp, f.node)
                R.ob('R1.10', '%s:one-object-per-%s' % (f.qname, role), ok,
                     'the %s of each Allocation built from the request is '
                     'the key of a mapping enumerated once' % role, why,
                     func=f, node=s.node)
    R.count('R1.10', n, 2)


_run_c01d = run


def run(ctx, R):
    _run_c01d(ctx, R)
    r110(ctx, R)
