"""C17 - database faults end in an exactly-once retry or a clean failure
(structural clauses)."""
import ast

from psa import cfg as cfgmod
from psa import model
from psa.effects import WRITER, RETRY
from psa.model import own_nodes, own_nodes_of, src
from psa.rules import common as C
from psa.rules import c04

EXPLANATION = (
    "R17.1: the functions under oslo.db wrap_db_retry are exactly "
    "_set_allocations, _trait_sync, _resource_classes_sync "
    "(retry_on_deadlock=True) and _set_aggregates (exception_checker for "
    "DBDuplicateEntry), each with the retry decorator outside the writer "
    "decorator, so a retry re-runs the whole transaction of that function. "
    "R17.2: every catch-all or database-error except clause in the service "
    "re-raises or converts, except a closed table (best-effort consumer "
    "cleanup, message formatting, idempotent inserts). R17.3: FaultWrapper "
    "is the innermost of the listed middlewares in deploy(), catches "
    "Exception and answers through json_error_formatter. R17.4: every write "
    "is inside a writer scope (a fault rolls the whole request transaction "
    "back) and nothing below a writer root swallows an error outside the "
    "table. R17.5 (necessary condition of exactly-once when the database "
    "did not roll the failed attempt back): each retried body is "
    "re-runnable - _set_allocations deletes the rows of every consumer of "
    "the list before inserting, the start-up syncs insert only the names "
    "missing from the table, _set_aggregates re-reads the associations and "
    "writes only the difference, with the generation bump as its last "
    "fallible statement. Exactly-once under injected faults as a whole is a "
    "fault-sequence property and is not decided.")
ASSUMPTIONS = [
    "wrap_db_retry re-invokes the decorated callable on the configured "
    "errors; enginefacade rolls back on any exception leaving the outermost "
    "scope",
    "not armed (recorded observation): _set_allocations' retry runs nested "
    "inside the handlers' outer writer scope; showing a violation needs a "
    "DBMS that rolls the transaction back on deadlock, which the sandbox "
    "lacks",
]

EXPECTED_RETRY = {
    'placement.objects.allocation:_set_allocations': 'deadlock',
    'placement.objects.trait:_trait_sync': 'deadlock',
    'placement.objects.resource_class:_resource_classes_sync': 'deadlock',
    'placement.objects.resource_provider:_set_aggregates': 'duplicate',
}
DB_ERRORS = {'oslo_db.exception.DBError', 'oslo_db.exception.DBDuplicateEntry',
             'oslo_db.exception.DBDeadlock', 'sqlalchemy.exc.IntegrityError',
             'sqlalchemy.exc.SQLAlchemyError'}
# (function, caught type) -> reason; superset of the in-transaction table
SWALLOW_TABLE = dict(c04.SWALLOW_TABLE)
SWALLOW_TABLE.update({
    ('placement.handlers.allocation:delete_consumers', 'Exception'):
        'best-effort cleanup after a failed write: the original error is '
        're-raised by the caller',
    ('placement.objects.resource_class:ResourceClass.create',
     'oslo_db.exception.DBDuplicateEntry'):
        'id collision: retried with a fresh id (bounded); a name collision '
        'is converted to ResourceClassExists',
    ('placement.handlers.resource_provider:create_resource_provider',
     'oslo_db.exception.DBDuplicateEntry'): 'converted to 409',
    ('placement.fault_wrap:FaultWrapper.__call__', 'Exception'):
        'the last-resort conversion to a JSON 500 itself (shape checked by '
        'R17.3)',
})


def run(ctx, R):
    prog = ctx.prog
    # ---- R17.1 ------------------------------------------------------------
    found = {}
    for f in prog.funcs:
        for i, d in enumerate(f.decorators):
            if d.qname == RETRY:
                found[f.qbase] = (f, i, d)
    R.ob('R17.1', 'retry-sites', set(found) == set(EXPECTED_RETRY),
         'wrap_db_retry decorates exactly %s' % sorted(
             x.split(':')[1] for x in EXPECTED_RETRY),
         sorted(x.split(':')[1] for x in found))
    for q, kind in sorted(EXPECTED_RETRY.items()):
        if q not in found:
            R.ob('R17.1', '%s:retried' % q, False,
                 'the function is under wrap_db_retry', 'no decorator',
                 func=prog.func(q))
            continue
        f, i, d = found[q]
        wi = [j for j, x in enumerate(f.decorators) if x.qname == WRITER]
        R.ob('R17.1', '%s:retry-outside-writer' % q,
             len(wi) == 1 and i < wi[0],
             'the retry decorator is outside the writer decorator (a retry '
             'opens a fresh transaction)', [x.qname for x in f.decorators],
             func=f)
        if kind == 'deadlock':
            ok = d.kwargs.get('retry_on_deadlock') is True and isinstance(
                d.kwargs.get('max_retries'), int) and \
                d.kwargs['max_retries'] >= 1 and 'exception_checker' not \
                in d.kwargs
            R.ob('R17.1', '%s:arguments' % q, ok,
                 'retry_on_deadlock=True, max_retries >= 1',
                 {k: (v if not isinstance(v, ast.AST) else src(v))
                  for k, v in d.kwargs.items()}, func=f)
        else:
            chk = d.kwargs.get('exception_checker')
            okc = isinstance(chk, ast.Lambda) and isinstance(
                chk.body, ast.Call) and src(chk.body.func) == 'isinstance' \
                and prog.dotted(f.module, chk.body.args[1], f) == \
                'oslo_db.exception.DBDuplicateEntry' and src(
                    chk.body.args[0]) == chk.args.args[0].arg
            okm = isinstance(d.kwargs.get('max_retries'), int) and \
                d.kwargs['max_retries'] >= 1
            R.ob('R17.1', '%s:arguments' % q, okc and okm,
                 'exception_checker = isinstance(exc, DBDuplicateEntry), '
                 'max_retries >= 1', src(chk) if isinstance(
                     chk, ast.AST) else chk, func=f)
            # the duplicate that triggers the retry is re-raised by
            # _ensure_aggregate
            ea = prog.func('placement.objects.resource_provider:'
                           '_ensure_aggregate')
            okr = 'oslo_db.exception.DBDuplicateEntry' in \
                ctx.raises.escaping(ea) or any(
                    isinstance(n, ast.ExceptHandler) and not
                    c04.handler_swallows(ea, n)
                    for n in own_nodes(ea.node))
            R.ob('R17.1', '_ensure_aggregate:reraises-duplicate', okr,
                 'the duplicate-key race while recording an aggregate '
                 'propagates to the retry decorator', 'handler re-raises: '
                 '%s' % okr, func=ea)
    R.count('R17.1', len(EXPECTED_RETRY), 4)

    # ---- R17.2 ----------------------------------------------------------------
    n2 = 0
    for f in sorted(prog.funcs, key=lambda x: x.qname):
        if f.module.name.startswith('placement.cmd') or \
                f.module.name.startswith('placement.db.sqlalchemy.alembic') \
                or f.module.name in ('placement.wsgi', 'placement.direct',
                                     'placement.util',
                                     'placement.requestlog'):
            continue
        for node in own_nodes(f.node):
            if not isinstance(node, ast.ExceptHandler):
                continue
            n2 += 1
            hts = ctx.raises.handler_types(f, node)
            broad = hts is None or any(
                t in ('Exception', 'BaseException') or t in DB_ERRORS
                for t in hts)
            if not broad:
                continue
            names = hts or ['<bare>']
            if not c04.handler_swallows(f, node):
                R.ob('R17.2', '%s:except %s' % (f.qbase, '|'.join(names)),
                     True, 're-raises or converts', 'ok', func=f, node=node,
                     nontrivial=False)
                continue
            keys = [(f.qbase, t) for t in names]
            ok = all(k in SWALLOW_TABLE for k in keys)
            R.ob('R17.2', '%s:except %s' % (f.qbase, '|'.join(names)), ok,
                 'a catch-all / database-error except clause re-raises, '
                 'converts or is a listed idiom',
                 'swallows' if not ok else 'listed: %s' %
                 SWALLOW_TABLE[keys[0]], func=f, node=node)
    R.count('R17.2', n2, 100)

    # ---- R17.3 -------------------------------------------------------------------
    P = C.pipeline(ctx)
    dep = P.func
    FW = 'placement.fault_wrap.FaultWrapper'
    order = [vs for _n, vs in P.order]
    ok = P.loop is not None and P.loop_ok and bool(order) and \
        order[0] == [FW] and P.ret_ok
    R.ob('R17.3', 'deploy:fault-wrapper-innermost', ok,
         'FaultWrapper is the first (innermost) of the wrapped middlewares',
         order, func=dep)
    R.ob('R17.3', 'deploy:fault-middleware-class',
         P.position(FW) is not None and P.order[P.position(FW)][1] == [FW],
         'the innermost middleware is fault_wrap.FaultWrapper and nothing '
         'else', order[:1], func=dep)
    fw = prog.func('placement.fault_wrap:FaultWrapper.__call__')
    trys = [n for n in own_nodes(fw.node) if isinstance(n, ast.Try)]
    okf = False
    why = '%d try statements' % len(trys)
    if len(trys) == 1:
        t = trys[0]
        body_call = len(t.body) == 1 and isinstance(
            t.body[0], ast.Return) and 'self.application(' in src(t.body[0])
        hs = t.handlers
        catches = len(hs) == 1 and (ctx.raises.handler_types(fw, hs[0]) ==
                                    ['Exception'])
        rets = [n for n in own_nodes_of(hs[0]) if isinstance(n, ast.Return)] \
            if hs else []
        mk = [n for n in own_nodes_of(hs[0]) if isinstance(n, ast.Assign)
              and isinstance(n.value, ast.Call) and ctx.raises.exc_name(
                  fw, n.value) == 'webob.exc.HTTPInternalServerError'] \
            if hs else []
        if hs and not mk:
            # built in place: HTTPInternalServerError(...).generate_response
            class _V(object):
                pass
            for n in own_nodes_of(hs[0]):
                if isinstance(n, ast.Call) and ctx.raises.exc_name(
                        fw, n) == 'webob.exc.HTTPInternalServerError':
                    v_ = _V()
                    v_.value = n
                    mk.append(v_)
        fmt = [n for n in own_nodes_of(hs[0]) if isinstance(n, ast.Assign)
               and any(src(x).endswith('.json_formatter')
                       for x in n.targets) and prog.dotted(
                           fw.module, n.value, fw) ==
               'placement.util.json_error_formatter'] if hs else []
        # ... or handed to the constructor (json_formatter=...)
        fmt += [m for m in mk if C.kwarg(m.value, 'json_formatter')
                is not None and prog.dotted(
                    fw.module, C.kwarg(m.value, 'json_formatter'), fw) ==
                'placement.util.json_error_formatter']
        okf = body_call and catches and len(rets) == 1 and \
            'generate_response' in src(rets[0]) and len(mk) == 1 and \
            len(fmt) == 1 and not c04.handler_swallows(fw, hs[0]) is False
        # the handler returns a response on every path
        okf = okf and cfgmod.cfg_of(fw).must_pass(
            hs[0].body[0], cfgmod.EXIT, {rets[0]}) if rets else False
        why = 'body=%s catches-Exception=%s 500=%d formatter=%d' % (
            body_call, catches, len(mk), len(fmt))
    R.ob('R17.3', 'FaultWrapper:shape', okf,
         'FaultWrapper calls the application in a try, catches Exception '
         'and returns HTTPInternalServerError formatted by '
         'json_error_formatter', why, func=fw)
    R.count('R17.3', 1, 1)

    # ---- R17.4 ---------------------------------------------------------------------
    n4 = 0
    for f in C.handler_defs(ctx):
        n4 += 1
        uns = ctx.effects.unscoped_writes(f)
        R.ob('R17.4', '%s:writes-in-scope' % f.qname, not uns,
             'every write of the request is inside a writer scope, so a '
             'database fault rolls it back as a whole',
             '; '.join('%s %s in %s' % (e.op, e.table, e.func.qname)
                       for e in uns[:3]) or 'none', func=f,
             nontrivial=bool(ctx.effects.write_effects_below(f)))
    R.count('R17.4', n4, 42)
    c04.r44(ctx, R, 'R17.4')
    # start-up syncs are scoped too
    for q in ('placement.objects.trait:_trait_sync',
              'placement.objects.resource_class:_resource_classes_sync'):
        f = prog.func(q)
        R.ob('R17.4', '%s:scope' % q, ctx.effects.scope_kind(f) == 'writer',
             'the start-up synchronisation is one writer transaction',
             [d.qname for d in f.decorators], func=f)


def r175(ctx, R):
    """A retried body is re-runnable: what the failed attempt may have left
    in the (not rolled back) enclosing transaction is removed or skipped by
    the next attempt."""
    from psa.rules import c01, c05, c19
    prog = ctx.prog
    # _set_allocations: clean slate before insert
    c01.r12(ctx, R, 'R17.5')
    # start-up syncs: insert only what is missing
    c19.sync_difference(ctx, R, 'R17.5')
    # _set_aggregates: state is re-read inside the retried body and only
    # the difference is written; the generation bump is its last statement
    f = prog.func('placement.objects.resource_provider:_set_aggregates')
    g = cfgmod.cfg_of(f)
    reads = [c for c in C.calls_to(
        ctx, f, 'placement.objects.resource_provider:'
        '_get_aggregates_by_provider_id')]
    ok = len(reads) == 1 and not C.guarding_ifs(C.stmt_of(reads[0]), f.node)
    R.ob('R17.5', '_set_aggregates:rereads-associations', ok,
         'the current associations are read inside the retried body',
         len(reads), func=f)
    existing = None
    if ok:
        st = C.stmt_of(reads[0])
        existing = st.targets[0].id if isinstance(st, ast.Assign) and \
            isinstance(st.targets[0], ast.Name) else None
    ins = [e for e in ctx.effects.direct[f] if e.op == 'I']
    dels = [e for e in ctx.effects.direct[f] if e.op == 'D']
    okw = len(ins) == 1 and len(dels) == 1 and existing is not None
    why = 'insert=%d delete=%d' % (len(ins), len(dels))
    if okw:
        def loop_source(stmt):
            cur = getattr(stmt, '_parent', None)
            while cur is not None and cur is not f.node:
                if isinstance(cur, ast.For):
                    return cur
                cur = getattr(cur, '_parent', None)
            return None

        def derives(name, pred, depth=0):
            """name is (transitively) defined from an expression for which
            pred holds."""
            if depth > 4:
                return False
            for n in own_nodes(f.node):
                tgt = None
                if isinstance(n, ast.Assign) and isinstance(
                        n.targets[0], ast.Name) and n.targets[0].id == name:
                    if pred(n.value):
                        return True
                    tgt = n.value
                # d[k] = v inside "for x in <src>"
                if isinstance(n, ast.Assign) and isinstance(
                        n.targets[0], ast.Subscript) and src(
                            n.targets[0].value) == name:
                    lp = loop_source(n)
                    if lp is not None and isinstance(lp.iter, ast.Name) \
                            and derives(lp.iter.id, pred, depth + 1):
                        return True
            return False

        def mentions(e, depth=0):
            for x in ast.walk(e):
                if isinstance(x, ast.Name):
                    if x.id == existing:
                        return True
                    d = c05.single_def(f, x.id)
                    if d is not None and depth < 3 and d.value is not e \
                            and mentions(d.value, depth + 1):
                        return True
            return False

        def is_add_diff(e):
            return isinstance(e, ast.BinOp) and isinstance(
                e.op, ast.Sub) and mentions(e.right)

        def is_del_filter(e):
            return isinstance(e, ast.DictComp) and mentions(
                e.generators[0].iter) and len(e.generators[0].ifs) == 1 \
                and isinstance(e.generators[0].ifs[0], ast.Compare) and \
                isinstance(e.generators[0].ifs[0].ops[0], ast.NotIn)
        li = loop_source(ins[0].stmt)
        ld = loop_source(dels[0].stmt)

        def iter_name(lp):
            it = lp.iter if lp is not None else None
            if isinstance(it, ast.Call) and isinstance(
                    it.func, ast.Attribute):
                it = it.func.value
            return it.id if isinstance(it, ast.Name) else None
        deps = C.Deps(f)
        oki = li is not None and deps.reaches(li.iter, is_add_diff)
        okd = ld is not None and deps.reaches(ld.iter, is_del_filter)
        if ld is not None and not okd and iter_name(ld):
            # the same filter written as a loop (builder view)
            bv = C.builder_view(f, iter_name(ld))
            okd = bv is not None and len(bv['gens']) == 1 and mentions(
                bv['gens'][0][1]) and len(bv['conds']) == 1 and isinstance(
                    bv['conds'][0][0], ast.Compare) and (
                        isinstance(bv['conds'][0][0].ops[0], ast.NotIn)
                        and bv['conds'][0][1] or isinstance(
                            bv['conds'][0][0].ops[0], ast.In)
                        and not bv['conds'][0][1])
        okw = bool(oki and okd)
        why = 'insert over provided - existing: %s; delete over existing ' \
            'not provided: %s' % (bool(oki), bool(okd))
    R.ob('R17.5', '_set_aggregates:writes-difference-only', okw,
         'associations are inserted only for uuids not yet associated and '
         'deleted only for associations not requested, both computed from '
         'the re-read state', why, func=f)
    inc = [s for s in ctx.cg.calls_in(f)
           if any(c.name == 'increment_generation' for c in s.callees)]
    okg = len(inc) <= 1
    if len(inc) == 1:
        st = C.stmt_of(inc[0].node)
        after = g.reachable_from([st]) - {st}
        okg = not any(isinstance(x, ast.AST) and cfgmod.may_raise_stmt(x)
                      for x in after)
    R.ob('R17.5', '_set_aggregates:generation-bump-last', okg,
         'nothing that can fail (and trigger a retry) follows the '
         'generation increment (if the retried body has one)', len(inc),
         func=f)
    R.count('R17.5', 3, 3)


_run_c17 = run


def run(ctx, R):
    _run_c17(ctx, R)
    r175(ctx, R)
    # R17.6: the compensation that removes an auto-created consumer after a
    # failed (rolled back) write deletes by id alone - the in-memory object
    # may be ahead of the stored row (generation bumped, then rolled back),
    # so any further predicate can leave the record behind (shape of R4.6)
    from psa import sqlshape
    n6 = sqlshape.shape_rule(ctx, R, 'R17.6', [
        'placement.objects.consumer:_delete_consumer'])
    R.count('R17.6', n6, 1)


ACQUIRE = ('placement.handlers.util:', 'placement.handlers.allocation:'
           'inspect_consumers')


def r177(ctx, R):
    """Nothing touches the database after a handler's write has committed:
    once the writer transaction of a request has returned, a later query (a
    re-read for the response, a second write) can fail on its own - the
    client is then told the request failed although its effect is stored.
    The consumer acquisition that precedes an allocation write (projects,
    users, consumer types, the consumer record: handlers.util and
    inspect_consumers) is the documented exception and has its own clean-up
    rules (R17.4)."""
    E = ctx.effects
    n = 0
    for f in sorted(ctx.prog.funcs, key=lambda x: x.qname):
        if not f.module.name.startswith('placement.handlers.') or \
                f.module.name == 'placement.handlers.util':
            continue
        # inside a transaction scope a later statement shares the fate of
        # the earlier ones: the rule is about what follows the scope
        anc, scoped = f, False
        while anc is not None:
            scoped = scoped or bool(E.scope_kind(anc))
            anc = anc.parent
        if scoped:
            continue
        acc = []
        for s in ctx.cg.calls_in(f):
            ops = set()
            for c in s.callees:
                ops |= {op for op, _t in E.summary(c)}
            if ops:
                acc.append((C.stmt_of(s.node), s, ops))
        main = [(st, s) for st, s, ops in acc if ops & set('IUD') and not any(
            c.qbase.startswith(ACQUIRE) for c in s.callees)]
        if not main:
            continue
        g = cfgmod.cfg_of(f)
        for wst, w in main:
            n += 1
            reach = g.reachable_from(list(g.succ.get(wst, ())),
                                     normal_only=True)
            later = [(st, s) for st, s, _ops in acc if st is not wst
                     and st in reach and not C._in_handler(st, f.node)]
            R.ob('R17.7', '%s:after:%s' % (f.qname, src(w.node.func)),
                 not later,
                 'after the write has committed nothing in the handler goes '
                 'to the database again before the response',
                 ['line %d %s' % (st.lineno, src(s.node.func))
                  for st, s in later], func=f, node=wst)
    R.count('R17.7', n, 20)


_run_c17b = run


def run(ctx, R):
    _run_c17b(ctx, R)
    r177(ctx, R)


def r178(ctx, R):
    """ensure_consumer tells its caller "I created this consumer" by
    returning: the caller's clean-up can only remove what it was told about.
    So after the call that creates (and commits) the consumer nothing in
    ensure_consumer goes to the database again - a fault there escapes with
    the record stored and nobody knowing."""
    E = ctx.effects
    f = ctx.prog.func('placement.handlers.util:ensure_consumer')
    CREATE = 'placement.handlers.util:_create_consumer'
    g = cfgmod.cfg_of(f)
    acc = []
    for s in ctx.cg.calls_in(f):
        ops = set()
        for c in s.callees:
            ops |= {op for op, _t in E.summary(c)}
        if ops:
            acc.append((C.stmt_of(s.node), s))
    creates = [(st, s) for st, s in acc
               if any(c.qbase == CREATE for c in s.callees)]
    bad = []
    for wst, w in creates:
        reach = g.reachable_from(list(g.succ.get(wst, ())), normal_only=True)
        bad.extend((st, s) for st, s in acc if st is not wst and st in reach)
    R.ob('R17.8', 'ensure_consumer:nothing-after-create',
         len(creates) >= 1 and not bad,
         'after the consumer was created nothing in ensure_consumer reaches '
         'the database before it returns', ['line %d %s' % (
             st.lineno, src(s.node.func)) for st, s in bad] or
         '%d create call(s)' % len(creates), func=f)
    R.count('R17.8', len(creates), 1)


_run_c17c = run


def run(ctx, R):
    _run_c17c(ctx, R)
    r178(ctx, R)


# retried functions that run inside the transaction of their caller
RETRY_INSIDE_CALLER_TX = {
    'placement.objects.allocation:_set_allocations':
        'the allocation write is one transaction with the consumer updates '
        'of its handler (R18b); its retry re-runs it inside that '
        'transaction',
}


def r179(ctx, R):
    """A retry applies its function exactly once only if each attempt is a
    transaction of its own: the retried function is the outermost
    transaction scope on every way it is reached.  Called inside an open
    transaction its writer scope merely joins that one - a deadlock the
    database answered by rolling the whole transaction back loses what the
    caller had written before (the first of two start-up synchronisations,
    its "done" flag already set), and the retry completes on top of it."""
    prog = ctx.prog
    n = 0
    for q in sorted(EXPECTED_RETRY):
        if q in RETRY_INSIDE_CALLER_TX:
            continue
        for f in prog.funcs_named(q):
            n += 1
            outer = [g for g in prog.funcs if g is not f and
                     ctx.effects.scope_kind(g) and
                     f in ctx.cg.reachable([g])]
            R.ob('R17.9', '%s:own-transaction' % f.qname, not outer,
                 'no transaction scope is open around the retried function',
                 ['%s (%s)' % (g.qname, g.loc()) for g in outer][:3] or
                 'outermost scope on every path', func=f)
    R.count('R17.9', n, 2)


_run_c17d = run


def run(ctx, R):
    _run_c17d(ctx, R)
    r179(ctx, R)
