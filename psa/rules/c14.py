"""C14 - each microversion exposes exactly its documented surface."""
import ast
import json
import os
import re

from psa import cfg as cfgmod
from psa import model
from psa.gates import Interp, parse_version, UNK
from psa.model import own_nodes, own_nodes_of, src, Ref, Unknown
from psa.rules import common as C
from psa.rules import c05

EXPLANATION = (
    "Exhaustive over 40 microversions x 37 route/method pairs by abstract "
    "evaluation of the version predicates over their finite domain. R14.1: "
    "VERSIONS is contiguous and equals the headings of "
    "rest_api_version_history.rst; every gate constant and window bound is a "
    "member; windows of one handler are gap-free and end open. R14.2: per "
    "(route, method, version) availability (handler / 404 / 405) and the "
    "request schema selected; the schema selected at v is the newest of "
    "those the handler can select whose embedded version is <= v. R14.3: "
    "api-ref agreement - every 'Available as of microversion N' and every "
    "min_version of a request parameter in parameters.yaml is matched "
    "against availability / schema acceptance at N and N-1. R14.4: per "
    "route the set of (version, polarity) gates reachable from its handlers "
    "equals a hand-confirmed table. R14.5: deploy() wraps the application "
    "in MicroversionMiddleware with the service type, VERSIONS and the JSON "
    "formatter.")
ASSUMPTIONS = [
    "microversion_parse: Version.matches(min) <=> min <= v <= max; the "
    "middleware adds the openstack-api-version / Vary headers and answers "
    "406 outside VERSIONS",
    "response fields are checked through the gate table (R14.4), not "
    "field by field",
]

HERE = os.path.dirname(os.path.dirname(os.path.abspath(__file__)))
VALIDATORS = {
    'placement.util:extract_json': 1,
    'placement.util:validate_query_params': 1,
    'placement.handlers.inventory:_extract_inventory': 1,
    'placement.handlers.inventory:_extract_inventories': 1,
}
SCHEMA_VER = re.compile(r'_V?(\d+)_(\d+)$')


def _watch(ctx):
    def w(f, call):
        for nm in C.call_name(ctx, f, call):
            if nm in VALIDATORS:
                return VALIDATORS[nm]
        return None
    return w


def selected_schemas(ctx, handler, v):
    """Schemas (dotted names) validated against at version v, or Unknown."""
    G = ctx.gates
    impl, call = C.delegate_of(ctx, handler)
    binds = {}
    f = handler
    if impl is not None:
        for p, a in zip(impl.params, call.args):
            binds[p] = G.eval(handler, a, v, {})
        f = impl
    res = Interp(G, f, v, binds, _watch(ctx)).run()
    out = []
    for fn, node, val in res.observed:
        if isinstance(val, Ref):
            out.append(val.qname)
        else:
            out.append(None)
    return out


def _mentions_schema_module(prog, h):
    """A same-module helper that selects a schema: it names the
    placement.schemas package (a constant of it, or the module itself as
    the first argument of getattr)."""
    if h.decorators:
        return False
    for n in own_nodes(h.node):
        if isinstance(n, (ast.Attribute, ast.Name)):
            d = prog.dotted(h.module, n, h)
            if d and d.startswith('placement.schemas.'):
                return True
    return False


def version_list_const(ctx, modname):
    """(name, value) of the module-level constant that is a list of
    (major, minor) tuples - the first-match schema list."""
    env = ctx.prog.consteval.module_env(modname)
    hits = []
    for k, v in env.items():
        if isinstance(v, list) and v and all(
                isinstance(t, tuple) and len(t) == 2 and all(
                    isinstance(x, int) for x in t) for t in v):
            hits.append((k, v))
    if len(hits) != 1:
        raise model.AnalysisError(
            'expected one list of (major, minor) versions in %s, found %s'
            % (modname, [k for k, _v in hits]))
    return hits[0]


def schema_candidates(ctx, fs):
    """Schema constants a route may validate against: those referenced by
    its handler definitions (and their delegates), those named by a
    getattr(schema, fmt % tuple) over a constant list, plus the constants
    of the same schema module that share their stripped name prefix."""
    prog = ctx.prog
    refs = set()
    funcs = []
    for f in fs:
        funcs.append(f)
        impl, _c = C.delegate_of(ctx, f)
        if impl is not None:
            funcs.append(impl)
        for g in list(funcs):
            for h in ctx.cg.callees(g):
                if h.module is g.module and h not in funcs and \
                        _mentions_schema_module(prog, h):
                    funcs.append(h)
    for f in funcs:
        for n in own_nodes(f.node):
            if isinstance(n, ast.Attribute):
                d = prog.dotted(f.module, n, f)
                if d and d.startswith('placement.schemas.') and \
                        _const_exists(ctx, d):
                    refs.add(d)
            if isinstance(n, ast.Call) and isinstance(
                    n.func, ast.Name) and n.func.id == 'getattr' and len(
                        n.args) >= 2:
                base = prog.dotted(f.module, n.args[0], f)
                fmt = n.args[1]
                if base and isinstance(fmt, ast.BinOp) and isinstance(
                        fmt.left, ast.Constant):
                    # iterate the constant list the loop walks
                    lp = n
                    while lp is not None and not isinstance(lp, ast.For):
                        lp = getattr(lp, '_parent', None)
                    vals = ctx.gates.eval(f, lp.iter, ctx.gates.versions[0],
                                          {}) if lp is not None else None
                    if isinstance(vals, list):
                        for t in vals:
                            try:
                                d = '%s.%s' % (base, fmt.left.value % t)
                            except Exception:
                                continue
                            if _const_exists(ctx, d):
                                refs.add(d)
    fam = set(refs)
    for d in refs:
        mod, name = d.rsplit('.', 1)
        stem = SCHEMA_VER.sub('', name)
        env = prog.consteval.module_env(mod) or {}
        for other, val in env.items():
            if isinstance(val, dict) and SCHEMA_VER.sub('', other) == stem \
                    and not other.startswith('_'):
                fam.add('%s.%s' % (mod, other))
    return sorted(fam)


def embedded_version(name, base):
    m = SCHEMA_VER.search(name)
    if m:
        return (int(m.group(1)), int(m.group(2)))
    return base


def r141(ctx, R):
    G = ctx.gates
    vs = G.versions
    ok = all(v[0] == 1 for v in vs) and [v[1] for v in vs] == list(
        range(len(vs))) and len(vs) >= 40
    R.ob('R14.1', 'VERSIONS:contiguous', ok,
         'VERSIONS = 1.0, 1.1, ... without gaps or repeats',
         '%s .. %s (%d)' % (G.version_strings[0], G.version_strings[-1],
                            len(vs)))
    rst = ctx.prog.read_text('placement/rest_api_version_history.rst')
    heads = re.findall(r'^(\d+)\.(\d+) - .*\n~~~', rst, flags=re.M)
    hset = {(int(a), int(b)) for a, b in heads}
    R.ob('R14.1', 'history-headings', hset == set(vs) and len(heads) ==
         len(hset),
         'rest_api_version_history.rst has exactly one section per version',
         'missing %s extra %s' % (sorted(set(vs) - hset)[:4],
                                  sorted(hset - set(vs))[:4]))
    # gate constants are members
    n = 0
    bad = []
    for f in ctx.prog.funcs:
        for g in G.gates_in(f):
            n += 1
            if g.minv is not None and g.minv not in vs:
                bad.append('%s %s' % (f.loc(g.node), g.minv))
    R.ob('R14.1', 'gate-constants-are-versions', not bad,
         'every version tested in the code is a released microversion',
         bad[:4])
    R.count('R14.1', n, 66)
    # windows
    for path, meth, fs in C.routes(ctx):
        wins = []
        for f in fs:
            if f.version_window is None:
                continue
            lo, hi, st = f.version_window
            try:
                lo_t = parse_version(lo)
                hi_t = parse_version(hi) if hi else None
            except Exception:
                R.ob('R14.1', 'window:%s %s' % (meth, path), False,
                     'window bounds are version strings', (lo, hi), func=f)
                continue
            wins.append((lo_t, hi_t, st, f))
        if not wins:
            R.ob('R14.1', 'unversioned:%s %s' % (meth, path), len(fs) == 1,
                 'an unversioned handler has one definition', len(fs),
                 func=fs[0], nontrivial=False)
            continue
        wins.sort(key=lambda x: x[0])
        ok = all(w[0] in vs and (w[1] is None or w[1] in vs) for w in wins)
        gaps = []
        for a, b in zip(wins, wins[1:]):
            if a[1] is None or vs.index(a[1]) + 1 != vs.index(b[0]):
                if a[1] is None or vs.index(a[1]) + 1 < vs.index(b[0]):
                    gaps.append((a[1], b[0]))
        open_end = wins[-1][1] is None
        stat = {w[2] for w in wins}
        R.ob('R14.1', 'windows:%s %s' % (meth, path),
             ok and not gaps and open_end and len(stat) == 1 and
             len(wins) == len(fs),
             'version windows of one handler name are members of VERSIONS, '
             'leave no gap and the last one is open-ended',
             [('%d.%d' % w[0], '%d.%d' % w[1] if w[1] else None)
              for w in wins], func=wins[0][3])
    # the schema list of GET /allocation_candidates names existing schemas
    try:
        _lname, lst = version_list_const(
            ctx, 'placement.handlers.allocation_candidate')
    except model.AnalysisError:
        # no list of versions by which a schema is looked up by name: the
        # selection is then an ordinary chain, decided by R14.2
        R.note('R14.1 no by-name schema list in allocation_candidate')
        return
    env = ctx.prog.consteval.module_env('placement.schemas.'
                                        'allocation_candidate')
    okl = isinstance(lst, list) and all(
        isinstance(t, tuple) and 'GET_SCHEMA_%d_%d' % t in env for t in lst)
    desc = isinstance(lst, list) and lst == sorted(lst, reverse=True)
    R.ob('R14.1', '_GET_SCHEMA_MICROVERSIONS', okl and desc,
         'every listed version has a GET_SCHEMA_<maj>_<min> and the list is '
         'descending (first match wins)', lst)


def availability(ctx, fs, v):
    f, status = C.dispatch(ctx, fs, v)
    return f, status


def r142(ctx, R):
    G = ctx.gates
    n = 0
    table = {}
    for path, meth, fs in C.routes(ctx):
        if path == '':
            continue
        # first version at which the route answers
        first = None
        per_v = {}
        for v in G.versions:
            f, status = availability(ctx, fs, v)
            n += 1
            if f is None:
                per_v[v] = status
                continue
            if first is None:
                first = v
            sch = selected_schemas(ctx, f, v)
            per_v[v] = (f, sch)
        table[(meth, path)] = per_v
        # availability is upward closed
        avail = [v for v in G.versions if not isinstance(per_v[v], int)]
        okc = avail == [v for v in G.versions if first is not None
                        and v >= first]
        R.ob('R14.2', '%s %s:availability' % (meth, path), okc,
             'once introduced the route stays available at every later '
             'version', 'first=%s available at %d versions' % (
                 first, len(avail)), func=fs[0])
        # schema selection
        allsel = {}
        unknown = []
        for v in avail:
            f, sch = per_v[v]
            if any(s is None for s in sch):
                unknown.append(v)
            allsel[v] = [s for s in sch if s is not None]
        if unknown:
            raise model.AnalysisError(
                '%s %s: schema selection could not be evaluated at %s' % (
                    meth, path, ['%d.%d' % u for u in unknown[:3]]))
        selected = sorted({s for ss in allsel.values() for s in ss})
        if not selected:
            continue
        names = sorted(set(selected) | set(schema_candidates(ctx, fs)))
        embedded = {s: embedded_version(s.rsplit('.', 1)[1], first)
                    for s in names}
        bad = []
        for v in avail:
            ss = allsel[v]
            if len(ss) != 1:
                bad.append(('%d.%d' % v, 'validates %d schemas' % len(ss)))
                continue
            want = max((e for e in embedded.values() if e <= v),
                       default=None)
            got = embedded[ss[0]]
            if want is None or got != want:
                bad.append(('%d.%d' % v, ss[0].rsplit('.', 1)[1]))
        R.ob('R14.2', '%s %s:schema-selection' % (meth, path), not bad,
             'at every version the request is validated against the newest '
             'schema whose version is <= the request version (schemas: %s)'
             % [s.rsplit('.', 1)[1] for s in names], bad[:4], func=fs[0])
        # keys accepted at one version stay accepted later
        lost = []
        prev = None
        for v in avail:
            ss = allsel[v]
            if len(ss) != 1:
                continue
            sch = ctx.prog.const(*ss[0].rsplit('.', 1))
            keys = set((sch.get('properties') or {}))
            if prev is not None:
                pv, pkeys, psch = prev
                for k in sorted(pkeys):
                    if meth == 'GET':
                        okk = accepts_query_key(sch, k)
                    else:
                        okk = k in keys or not keys
                    if not okk:
                        lost.append(('%d.%d' % v, k))
            prev = (v, keys, sch)
        R.ob('R14.2', '%s %s:keys-monotone' % (meth, path), not lost,
             'a request key accepted at one version is accepted at every '
             'later version', lost[:4], func=fs[0], nontrivial=False)
    R.count('R14.2', len(table), 36)
    R.metrics['route_method_version_evaluations'] = n
    R.metrics['versions'] = len(G.versions)
    R.metrics['exhaustive_over'] = 'all declared route/method pairs x all entries of VERSIONS'
    return table


def _const_exists(ctx, dotted):
    try:
        v = ctx.prog.const(*dotted.rsplit('.', 1))
    except model.AnalysisError:
        return False
    return isinstance(v, dict)


# ---------------------------------------------------------------- api-ref
def parse_api_ref(ctx):
    """[(method, path, available_as_of, [(direction, name, param)])]"""
    import yaml
    params = yaml.safe_load(ctx.prog.read_text(
        'api-ref/source/parameters.yaml'))
    idx = ctx.prog.read_text('api-ref/source/index.rst')
    incs = re.findall(r'^\.\. include:: (\S+\.inc)', idx, flags=re.M)
    out = []
    avail_re = re.compile(r'available (?:starting from|as of) '
                          r'(?:micro)?version (\d+\.\d+)', re.I)
    for inc in incs:
        text = ctx.prog.read_text('api-ref/source/' + inc)
        titles = [m.start() for m in re.finditer(
            r'^[^\n]+\n={3,}[ \t]*$', text, flags=re.M)]
        meths = list(re.finditer(r'^\.\. rest_method:: *(\S+) +(\S+) *$',
                                 text, flags=re.M))
        if not meths:
            continue
        first_title = max([t for t in titles if t < meths[0].start()],
                          default=0)
        m = avail_re.search(text[:first_title])
        file_avail = parse_version(m.group(1)) if m else None
        for mm_ in meths:
            meth, path = mm_.group(1), mm_.group(2)
            start = max([t for t in titles if t < mm_.start()], default=0)
            nxt = [t for t in titles if t > mm_.start()]
            end = nxt[0] if nxt else len(text)
            section = text[start:end]
            head = section.split('\nRequest', 1)[0].split('\nResponse',
                                                          1)[0]
            m = avail_re.search(head)
            avail = parse_version(m.group(1)) if m else file_avail
            body = text[mm_.end():end]
            items = []
            direction = None
            lines = body.splitlines()
            for k, line in enumerate(lines):
                h = line.strip()
                under = lines[k + 1].strip() if k + 1 < len(lines) else ''
                if under.startswith('---') and h:
                    if re.match(r'^Request( \(.*\))?$', h):
                        direction = 'request'
                    elif re.match(r'^Response( \(.*\))?$', h):
                        direction = 'response'
                    else:
                        direction = None
                mm = re.match(r'^\s+- ([^:]+): (\S+)\s*$', line)
                if mm and direction:
                    items.append((direction, mm.group(1).strip(),
                                  mm.group(2)))
            out.append((meth, path, avail, items))
    return out, params


def accepts_query_key(schema, key):
    if key in (schema.get('properties') or {}):
        return True
    for pat in (schema.get('patternProperties') or {}):
        if re.search(pat, key):
            return True
    return schema.get('additionalProperties', True) is not False


def schema_has_key(schema, key, depth=0):
    if not isinstance(schema, dict) or depth > 12:
        return False
    for k, sub in (schema.get('properties') or {}).items():
        if k == key or schema_has_key(sub, key, depth + 1):
            return True
    for sub in (schema.get('patternProperties') or {}).values():
        if schema_has_key(sub, key, depth + 1):
            return True
    if isinstance(schema.get('items'), dict):
        return schema_has_key(schema['items'], key, depth + 1)
    for alt in schema.get('anyOf', []) + schema.get('oneOf', []):
        if schema_has_key(alt, key, depth + 1):
            return True
    return False


# documentation entries whose min_version does not describe acceptance of
# the key by the request schema, with the reason (triaged by reading)
DOC_NOTES = {
    ('PUT', '/resource_classes/{name}', 'available-as-of'):
        'the api-ref documents only the bodiless create-or-validate form '
        'introduced in 1.7; the route itself (rename form) exists from 1.2 '
        'as rest_api_version_history.rst section 1.2/1.7 says',
    ('POST', '/resource_providers/{uuid}/inventories', 'documented'):
        'the api-ref has no section for POST .../inventories although the '
        'route exists since 1.0 (documentation gap, not a version gate)',
}


def r143(ctx, R, table):
    G = ctx.gates
    docs, params = parse_api_ref(ctx)
    n = 0
    doc_routes = set()
    for meth, path, avail, items in docs:
        key = (meth, path)
        doc_routes.add(key)
        per_v = table.get(key)
        if per_v is None:
            R.ob('R14.3', 'doc-route:%s %s' % key, False,
                 'every documented operation is a declared route',
                 'not routed')
            continue
        first = next((v for v in G.versions
                      if not isinstance(per_v[v], int)), None)
        n += 1
        want = avail or (1, 0)
        if (meth, path, 'available-as-of') in DOC_NOTES and first != want:
            R.note('R14.3 available-as-of %s %s: %s' % (
                meth, path, DOC_NOTES[(meth, path, 'available-as-of')]))
            # the imprecision is pinned: the code side must stay as triaged
            R.ob('R14.3', 'available-as-of:%s %s' % key,
                 first == (1, 2) and want == (1, 7),
                 'route available from 1.2 (api-ref documents the 1.7 '
                 'form only)', 'first=%s doc=%s' % (first, want),
                 nontrivial=False)
            continue
        R.ob('R14.3', 'available-as-of:%s %s' % key, first == want,
             'the route first answers at the version the api-ref states '
             '(%d.%d)' % want, 'first available at %s' % (first,))
        for direction, name, pref in items:
            p = params.get(pref)
            if not isinstance(p, dict):
                R.ob('R14.3', 'param-ref:%s %s:%s' % (meth, path, pref),
                     False, 'parameter reference resolves in '
                     'parameters.yaml', 'missing', nontrivial=False)
                continue
            mv = p.get('min_version')
            if mv is None or direction != 'request':
                continue
            where = p.get('in')
            if where not in ('query', 'body'):
                continue
            mvt = parse_version(str(mv))
            if mvt not in G.versions:
                R.ob('R14.3', 'param-version:%s' % pref, False,
                     'min_version is a released microversion', mv)
                continue
            n += 1
            cons = '%s %s:%s %s@%s' % (meth, path, where, name, mv)
            if (meth, path, name) in DOC_NOTES:
                R.note('R14.3 %s: %s' % (cons, DOC_NOTES[(meth, path,
                                                          name)]))
                continue
            key_name = name.split('.')[-1]
            if key_name.endswith('N') and 'granular' in pref:
                key_name = key_name[:-1] + '1'
            res = {}
            for vv, label in ((mvt, 'at'), (G.versions[G.versions.index(
                    mvt) - 1] if G.versions.index(mvt) > 0 else None,
                    'below')):
                if vv is None or isinstance(per_v.get(vv), int) or \
                        per_v.get(vv) is None:
                    res[label] = None
                    continue
                f, sch = per_v[vv]
                if len(sch) != 1:
                    res[label] = None
                    continue
                schema = ctx.prog.const(*sch[0].rsplit('.', 1))
                if where == 'query':
                    res[label] = accepts_query_key(schema, key_name)
                else:
                    res[label] = schema_has_key(schema, key_name)
            ok = res.get('at') is True and res.get('below') in (False, None)
            R.ob('R14.3', cons, ok,
                 'the request %s parameter is accepted by the schema '
                 'selected at %s and not one version earlier' % (where, mv),
                 'accepted at %s: %s; one version below: %s' % (
                     mv, res.get('at'), res.get('below')))
    for (meth, path) in sorted(table):
        if (meth, path, 'documented') in DOC_NOTES and (
                meth, path) not in doc_routes:
            R.note('R14.3 %s %s: %s' % (meth, path, DOC_NOTES[(
                meth, path, 'documented')]))
            continue
        R.ob('R14.3', 'route-documented:%s %s' % (meth, path),
             (meth, path) in doc_routes,
             'every routed operation is documented in the api-ref',
             'documented' if (meth, path) in doc_routes else 'missing',
             nontrivial=False)
    R.count('R14.3', n, 45)


def _rest_after_guard(n):
    """Statements that follow ``if c: <never falls through>`` (no else) in
    the same block: they run exactly when c is false."""
    if n.orelse or not C._terminates(n.body):
        return []
    par = getattr(n, '_parent', None)
    for fld in ('body', 'orelse', 'finalbody'):
        blk = getattr(par, fld, None)
        if isinstance(blk, list) and any(n is x for x in blk):
            i = [k for k, x in enumerate(blk) if x is n][0]
            return blk[i + 1:]
    return []


def route_gates(ctx, fs):
    G = ctx.gates
    out = set()
    reach = ctx.cg.reachable(fs)
    for f in reach:
        mn = f.module.name
        if not (mn.startswith('placement.handlers.') or mn in (
                'placement.util', 'placement.lib')):
            continue
        for g in G.gates_in(f):
            par = getattr(g.node, '_parent', None)
            neg = isinstance(par, ast.UnaryOp) and isinstance(
                par.op, ast.Not)
            if g.minv is None:
                # matches((maj, min)) over a constant list
                arg = g.node.args[0] if g.node.args else None
                lp = par
                while lp is not None and not isinstance(lp, ast.For):
                    lp = getattr(lp, '_parent', None)
                vals = G.eval(f, lp.iter, G.versions[0], {}) if lp is not \
                    None else UNK
                if isinstance(vals, list) and all(
                        isinstance(t, tuple) for t in vals):
                    for t in vals:
                        out.add('+%d' % t[1])
                else:
                    out.add('+?')
                continue
            # a gate that selects between two non-empty branches has no
            # polarity of its own (if/else may be written either way round)
            top = par if neg else g.node
            up = getattr(top, '_parent', None)
            both = isinstance(up, ast.If) and up.test is top and (bool(
                up.orelse) or _rest_after_guard(up)) or isinstance(
                    up, ast.IfExp) and up.test is top
            # one-armed negated gates are '-N'; everything else is '+N'
            # (a two-armed gate reads the same whichever way round it is
            # written, and a guard clause is two-armed)
            # polarity is not part of the signature: "if not m: A" and
            # "if m: return ...; A" are the same gate; inverted gates are
            # decided per version by R14.2 / R14.3 / R14.6
            out.add('+%d' % g.minv[1])
    for f in fs:
        if f.version_window:
            lo, hi, st = f.version_window
            out.add('[%s,%s]%d' % (lo, hi or '', st))
    return sorted(out)


def r144(ctx, R):
    p = os.path.join(HERE, 'tables', 'gates.json')
    with open(p) as fh:
        frozen = json.load(fh)['routes']
    n = 0
    seen = set()
    for path, meth, fs in C.routes(ctx):
        if path == '':
            continue
        key = '%s %s' % (meth, path)
        seen.add(key)
        n += 1
        got = route_gates(ctx, fs)
        want = frozen.get(key)
        R.ob('R14.4', 'gates:%s' % key, want is not None and got ==
             sorted(want),
             'the version gates reachable from the route are exactly the '
             'confirmed ones %s' % (want,),
             'added %s removed %s' % (
                 sorted(set(got) - set(want or [])),
                 sorted(set(want or []) - set(got))), func=fs[0])
    for key in sorted(set(frozen) - seen):
        R.ob('R14.4', 'gates:%s' % key, False, 'route still declared',
             'route vanished')
    # the formatter gate (reached through json_formatter=, not by a call)
    jf = ctx.prog.func('placement.util:json_error_formatter')
    gs = [g.minv for g in ctx.gates.gates_in(jf)]
    R.ob('R14.4', 'gates:json_error_formatter', gs == [(1, 23)],
         "the error formatter's only gate is 1.23", gs, func=jf)
    R.count('R14.4', n, 36)


def _origins(ctx, fn, name_node, depth):
    """[(expression, function)] the name may hold: its single definition,
    or what the callers bind to the parameter (followed a few hops)."""
    from psa.rules.c05 import single_def
    if depth > 4:
        return []
    nm = name_node.id
    d = single_def(fn, nm)
    if d is not None:
        if isinstance(d.value, ast.Name):
            return _origins(ctx, fn, d.value, depth + 1)
        return [(d.value, fn)]
    out = []
    if nm in fn.params:
        i = fn.params.index(nm)
        for caller in sorted(ctx.cg.callers.get(fn, ()),
                             key=lambda x: x.qname):
            for s_ in ctx.cg.calls_in(caller):
                if fn not in s_.callees:
                    continue
                a_ = C.arg_for_param(s_.node, fn, nm)
                if a_ is None:
                    continue
                if isinstance(a_, ast.Name):
                    out.extend(_origins(ctx, caller, a_, depth + 1))
                else:
                    out.append((a_, caller))
    return out


def _nt_fields_of(ctx, fn, func_expr):
    """Field names when func_expr names a module-level namedtuple."""
    d = ctx.prog.dotted(fn.module, func_expr, fn)
    if not d or '.' not in d:
        return None
    mod, nm = d.rsplit('.', 1)
    m = ctx.prog.modules.get(mod)
    if m is None or nm not in m.assigns or len(m.assigns[nm]) != 1:
        return None
    v = m.assigns[nm][0].value
    if isinstance(v, ast.Call) and src(v.func).endswith('namedtuple') and \
            len(v.args) == 2:
        f_ = v.args[1]
        if isinstance(f_, ast.Constant) and isinstance(f_.value, str):
            return f_.value.replace(',', ' ').split()
        if isinstance(f_, (ast.List, ast.Tuple)):
            return [x.value for x in f_.elts if isinstance(x, ast.Constant)]
    return None


def _gates_of_test(ctx, f, t):
    """[(minv, polarity)] for the version gates an if-test depends on
    (flag names are followed to their single definition)."""
    from psa.rules.c05 import single_def
    out = []

    def rec(e, pol, depth=0, fn=f):
        if depth > 4:
            return
        if isinstance(e, ast.UnaryOp) and isinstance(e.op, ast.Not):
            rec(e.operand, not pol, depth, fn)
            return
        if isinstance(e, ast.BoolOp):
            for v in e.values:
                rec(v, pol, depth, fn)
            return
        g = ctx.gates.gate_of(fn, e)
        if g is not None and g.minv:
            out.append((g.minv, pol))
            return
        if isinstance(e, ast.Attribute) and isinstance(e.value, ast.Name):
            # a field of a record that carries version flags:
            # fmt.mappings with fmt = Record(mappings=matches((1, 34)), ...)
            for ctor, cfn in _origins(ctx, fn, e.value, 0):
                if not isinstance(ctor, ast.Call):
                    continue
                v = C.kwarg(ctor, e.attr)
                if v is None:
                    fields = _nt_fields_of(ctx, cfn, ctor.func)
                    if fields and e.attr in fields and fields.index(
                            e.attr) < len(ctor.args):
                        v = ctor.args[fields.index(e.attr)]
                if v is not None:
                    rec(v, pol, depth + 1, cfn)
            return
        if isinstance(e, ast.Name):
            d = single_def(fn, e.id)
            if d is not None:
                rec(d.value, pol, depth + 1, fn)
            elif e.id in fn.params:
                # a flag handed to a helper: what the callers bind to it
                i = fn.params.index(e.id)
                for caller in sorted(ctx.cg.callers.get(fn, ()),
                                     key=lambda x: x.qname):
                    for s_ in ctx.cg.calls_in(caller):
                        if fn not in s_.callees:
                            continue
                        a_ = C.kwarg(s_.node, e.id)
                        off = 1 if fn.cls is not None and fn.params and \
                            fn.params[0] in ('self', 'cls') else 0
                        if a_ is None and 0 <= i - off < len(s_.node.args):
                            a_ = s_.node.args[i - off]
                        if a_ is not None:
                            rec(a_, pol, depth + 1, caller)
    rec(t, True)
    return out


def _keys_written(stmts):
    ks = set()
    for s in stmts:
        for n in ast.walk(s):
            if isinstance(n, ast.Subscript) and isinstance(
                    n.ctx, ast.Store) and isinstance(
                        n.slice, ast.Constant) and isinstance(
                            n.slice.value, str):
                ks.add(n.slice.value)
            if isinstance(n, ast.Attribute) and isinstance(
                    n.ctx, ast.Store) and n.attr in (
                        'last_modified', 'cache_control', 'status', 'body',
                        'content_type'):
                ks.add('.' + n.attr)
            if isinstance(n, ast.Call) and isinstance(
                    n.func, ast.Attribute) and n.func.attr == 'append' and \
                    n.args and isinstance(n.args[0], ast.Constant):
                ks.add('append:%s' % n.args[0].value)
    return ks


def gated_keys(ctx, fs):
    """'+N:key' for every response key / header written under a version
    gate in the handler layer reachable from the route."""
    out = set()
    for f in ctx.cg.reachable(fs):
        mn = f.module.name
        if not (mn.startswith('placement.handlers.') or mn in (
                'placement.util', 'placement.lib')):
            continue
        for n in own_nodes(f.node):
            if not isinstance(n, ast.If):
                continue
            # guard-clause form: "if c: ...; return" + rest is read as
            # "if c: ... else: rest"
            orelse = n.orelse or _rest_after_guard(n)
            for minv, pol in _gates_of_test(ctx, f, n.test):
                for k in _keys_written(n.body):
                    out.add('%s%d:%s' % ('+' if pol else '-', minv[1], k))
                for k in _keys_written(orelse):
                    out.add('%s%d:%s' % ('-' if pol else '+', minv[1], k))
    return sorted(out)


def r146(ctx, R):
    p = os.path.join(HERE, 'tables', 'gated_keys.json')
    with open(p) as fh:
        frozen = json.load(fh)['routes']
    n = 0
    for path, meth, fs in C.routes(ctx):
        if path == '':
            continue
        key = '%s %s' % (meth, path)
        n += 1
        got = gated_keys(ctx, fs)
        want = sorted(frozen.get(key, []))
        R.ob('R14.6', 'gated-keys:%s' % key, got == want,
             'the response keys and headers written under each version gate '
             'are the confirmed ones',
             'added %s removed %s' % (sorted(set(got) - set(want)),
                                      sorted(set(want) - set(got))),
             func=fs[0])
    R.count('R14.6', n, 36)


def r147(ctx, R):
    """Version flags that are handed to the object layer are used there with
    the confirmed condition (today: allow_reparenting = 1.37)."""
    from psa import report
    from psa.rules import c09
    scratch = report.Recorder('C09')
    c09._run_c09(ctx, scratch)
    n = 0
    for o in scratch.obs:
        if 'reparent-gated' in o.construct or 'unparent-gated' in \
                o.construct or o.construct in ('handler:flag-bound-to-1.37',
                                               'save:forwards-flag'):
            n += 1
            R.obs.append(report.Obligation(
                'R14.7', '1.37:' + o.construct, o.ok,
                'below 1.37 an already parented provider can neither be '
                'moved nor detached: ' + o.expected, o.found, o.file,
                o.line, o.path, o.nontrivial))
    R.count('R14.7', n, 6)


def r145(ctx, R):
    prog = ctx.prog
    P = C.pipeline(ctx)
    f = P.func
    MM = 'microversion_parse.middleware.MicroversionMiddleware'
    cs = [(a, c) for a, callee, c in P.direct if callee == [MM]]
    ok = len(cs) == 1
    if ok:
        st, c = cs[0]
        args = [prog.dotted(f.module, a, f) or src(a) for a in c.args]
        jf = C.kwarg(c, 'json_error_formatter')
        ok = args[1:] == ['placement.microversion.SERVICE_TYPE',
                          'placement.microversion.VERSIONS']
        ok = ok and jf is not None and prog.dotted(f.module, jf, f) == \
            'placement.util.json_error_formatter'
        # wrapped before the other middlewares and not undone
        ok = ok and P.loop is not None and P.cfg.dominates(st, P.loop) \
            and not C.guarding_ifs(st, f.node) and P.ret_ok
    R.ob('R14.5', 'deploy:microversion-middleware', ok,
         'app = MicroversionMiddleware(app, SERVICE_TYPE, VERSIONS, '
         'json_error_formatter=util.json_error_formatter) before the outer '
         'middlewares', [src(c)[:90] for _a, c in cs], func=f)
    st = prog.const('placement.microversion', 'SERVICE_TYPE')
    R.ob('R14.5', 'SERVICE_TYPE', st == 'placement',
         "service type 'placement'", st)
    # handlers read the negotiated version from the environ key
    env = prog.const('placement.microversion', 'MICROVERSION_ENVIRON')
    R.ob('R14.5', 'MICROVERSION_ENVIRON', env == 'placement.microversion',
         "environ key '<service type>.microversion'", env,
         nontrivial=False)
    # _find_method semantics: the entry registered by version_handler
    # carries (lowest version, highest version, function) - as a tuple or as
    # a record - and the finder returns the function of the entry whose
    # bounds enclose the request's version
    from psa import pathval
    fm = prog.func('placement.microversion:_find_method')
    records = pathval.module_env(fm.module.tree).get('<records>', {})
    dec = prog.func('placement.microversion:version_handler>decorator')
    vh = prog.func('placement.microversion:version_handler')
    roles = {}          # element index -> 'min' | 'max' | 'func'
    why5 = []
    regs = []
    for c in own_nodes(dec.node):
        if isinstance(c, ast.Call) and isinstance(
                c.func, ast.Attribute) and c.func.attr == 'append' and \
                len(c.args) == 1 and 'VERSIONED_METHODS' in src(
                    C.inline_locals(dec, c.func.value)):
            regs.append(c)
    if len(regs) == 1:
        ent = regs[0].args[0]
        elems = None
        if isinstance(ent, ast.Tuple):
            elems = list(ent.elts)
        elif isinstance(ent, ast.Call) and isinstance(
                ent.func, ast.Name) and ent.func.id in records:
            fl = records[ent.func.id]
            elems = [pathval._record_field(ent, fl, nm) for nm in fl]
        if elems and all(e is not None for e in elems):
            ddeps = C.FlowDeps(dec)

            def from_param(e, pn):
                return pn is not None and ddeps.reaches(
                    e, lambda x: isinstance(x, ast.Name) and x.id == pn)
            p_min = (vh.params + [None, None])[0]
            p_max = (vh.params + [None, None])[1]
            for i, e in enumerate(elems):
                if isinstance(e, ast.Name) and e.id == (dec.params + [None])[
                        0]:
                    roles[i] = 'func'
                elif from_param(e, p_max) and not from_param(e, p_min):
                    roles[i] = 'max'
                elif from_param(e, p_min) and not from_param(e, p_max):
                    roles[i] = 'min'
    else:
        why5.append('%d registrations' % len(regs))
    inv = {v: k for k, v in roles.items()}
    cmpn = [c for c in own_nodes(fm.node) if isinstance(c, ast.Compare)
            and len(c.ops) == 2]
    okf = False
    ps = fm.params
    loops = [x for x in own_nodes(fm.node) if isinstance(x, ast.For)]
    if len(loops) == 1 and len(ps) >= 3 and sorted(
            roles.values()) == ['func', 'max', 'min']:
        lp = loops[0]

        def elem(e):
            """Index of the entry element an expression reads."""
            if isinstance(lp.target, ast.Tuple) and isinstance(
                    e, ast.Name):
                ns = [src(x) for x in lp.target.elts]
                return ns.index(e.id) if e.id in ns else None
            if isinstance(lp.target, ast.Name) and isinstance(
                    e, ast.Attribute) and isinstance(
                        e.value, ast.Name) and e.value.id == \
                    lp.target.id:
                for fl in records.values():
                    if e.attr in fl:
                        return fl.index(e.attr)
            if isinstance(lp.target, ast.Name) and isinstance(
                    e, ast.Subscript) and isinstance(
                        e.value, ast.Name) and e.value.id == \
                    lp.target.id and isinstance(
                        e.slice, ast.Constant):
                return e.slice.value
            return None

        def in_range(a, pol):
            return pol and isinstance(a, ast.Compare) and len(
                a.ops) == 2 and all(isinstance(o, ast.LtE)
                                    for o in a.ops) and elem(
                a.left) == inv['min'] and src(
                    a.comparators[0]) == ps[1] and elem(
                        a.comparators[1]) == inv['max']
        # per path: what is returned is the function of an entry the path
        # found to enclose the version; a path that raises the declared
        # status has not found one (early return from the loop, or a found
        # entry carried out of it, are the same paths)
        paths = pathval.paths_of(fm)
        rets = [p for p in paths if p.end == 'return']
        raises = [p for p in paths if p.end == 'raise']
        okf = bool(rets) and bool(raises)
        for p in rets:
            ret = p.stmts[-1]
            v = p.value_at(ret, ret.value) if ret.value is not None else None
            if not (v is not None and elem(v) == inv['func']
                    and pathval.holds(p, in_range)):
                okf = False
                why5.append('a path returns %s without the range test' %
                            (src(v) if v is not None else None))
        for p in raises:
            r_ = p.stmts[-1]
            if not (isinstance(r_, ast.Raise) and r_.exc is not None and src(
                    r_.exc).replace('webob.exc.', '') ==
                    'status_map[%s]' % ps[2]) or pathval.holds(p, in_range):
                okf = False
                why5.append('a raising path: %s' % src(r_)[:50])
        # the list walked is this name's registration list
        deps = C.FlowDeps(fm)
        okf = okf and deps.reaches(
            lp.iter, lambda x: isinstance(x, ast.Name)
            and x.id == 'VERSIONED_METHODS') and deps.reaches(
                lp.iter, lambda x: isinstance(x, ast.Name)
                and x.id == ps[0])
    R.ob('R14.5', '_find_method', okf,
         'a versioned handler runs iff min <= version <= max, otherwise the '
         'declared status is raised', [src(c) for c in cmpn] + [
             'entry roles %s' % sorted(roles.items())] + why5, func=fm)
    R.count('R14.5', 1, 1)


def r148(ctx, R):
    """1.26: reserved may equal total.  The branch taken from 1.26 on
    compares capacity with '<' and raises the ...ReservedCanBeTotal error,
    the older branch uses '<=' (whichever way round the if/else is
    written)."""
    prog = ctx.prog
    f = prog.func('placement.handlers.inventory:_validate_inventory_capacity')
    G = ctx.gates
    sel = []
    for i in own_nodes(f.node):
        if not isinstance(i, ast.If) or not i.orelse:
            continue
        t, neg = i.test, False
        if isinstance(t, ast.UnaryOp) and isinstance(t.op, ast.Not):
            t, neg = t.operand, True
        # the test itself, or a local flag bound to it
        g = C.flag_gate(ctx, f, t)
        if g is not None and g.minv == (1, 26):
            new, old = (i.orelse, i.body) if neg else (i.body, i.orelse)
            sel.append((new, old))

    def binds(stmts):
        out = {}
        for st in stmts:
            if isinstance(st, ast.Assign) and isinstance(
                    st.targets[0], ast.Name):
                out[st.targets[0].id] = prog.dotted(
                    f.module, st.value, f) or src(st.value)
        return out
    ok = False
    found = '%d selections on the 1.26 gate' % len(sel)
    if len(sel) == 1:
        nb, ob = binds(sel[0][0]), binds(sel[0][1])
        found = 'from 1.26: %s; before: %s' % (sorted(nb.values()),
                                               sorted(ob.values()))
        ok = set(nb) == set(ob) and sorted(nb.values()) == sorted([
            'operator.lt', 'placement.exception.'
            'InvalidInventoryCapacityReservedCanBeTotal']) and sorted(
                ob.values()) == sorted([
                    'operator.le',
                    'placement.exception.InvalidInventoryCapacity'])
    R.ob('R14.8', '_validate_inventory_capacity:1.26', ok,
         "from 1.26 a capacity of 0 is accepted ('<' and the "
         "ReservedCanBeTotal error), before it is not ('<=')", found, func=f)
    R.count('R14.8', 1, 1)


def run(ctx, R):
    r141(ctx, R)
    table = r142(ctx, R)
    r143(ctx, R, table)
    r144(ctx, R)
    r145(ctx, R)
    r146(ctx, R)
    r147(ctx, R)
    r148(ctx, R)
    # R14.10: the per-value parsers of `required` and `member_of` are called
    # only by the per-parameter functions that own the "repeated parameter"
    # gates (1.24 member_of, 1.39 required): a caller that walks the values
    # itself makes repetition count at every version
    prog = ctx.prog
    n10 = 0
    for single, plural in (
            ('placement.util:normalize_traits_qs_param',
             'placement.util:normalize_traits_qs_params'),
            ('placement.util:normalize_member_of_qs_param',
             'placement.util:normalize_member_of_qs_params')):
        sf = prog.func(single)
        callers = sorted({g.qbase for g in ctx.cg.callers.get(sf, ())})
        gated = [g_.minv for g_ in ctx.gates.gates_in(prog.func(plural))]
        n10 += 1
        R.ob('R14.10', '%s:called-by-plural-only' % single.split(':')[1],
             plural in callers and all(
                 c.startswith('placement.util:') for c in callers)
             and bool(gated),
             'the value parser is reached only inside placement.util, '
             'for repeated parameters through %s, which holds the '
             'repeated-parameter gate' % plural.split(':')[1],
             'callers %s; gates of the plural %s' % (
                 [c.split(':')[1] for c in callers], gated), func=sf)
    R.count('R14.10', n10, 2)
    # R14.9: the pre-1.29 restriction (at most one provider per tree) is
    # applied to the merged candidates, after the groups were combined (the
    # pipeline obligations of R20.3) - applied per group it cannot see two
    # groups landing on different providers of one tree
    from psa.rules import c20
    n9 = C.reuse_obligations(ctx, R, c20._run_c20, 'R14.9',
                             select=lambda o: o.rule == 'R20.3')
    R.count('R14.9', n9, 2)


def r1411(ctx, R):
    """The 409 for a consumer that a racing request created first is 1.28
    behaviour (consumer generations did not exist before): what
    ensure_consumer hands to _create_consumer as ``expect_new`` is the 1.28
    gate itself, not something that also holds below 1.28 (the body field is
    absent there, i.e. None)."""
    prog = ctx.prog
    f = prog.func('placement.handlers.util:ensure_consumer')
    callee = prog.func('placement.handlers.util:_create_consumer')
    calls = C.calls_to(ctx, f, callee.qbase)
    n = 0
    for c in calls:
        n += 1
        a = C.arg_for_param(c, callee, 'expect_new') if 'expect_new' in \
            callee.params else None
        g = C.flag_gate(ctx, f, a) if a is not None else None
        ok = g is not None and g.minv == (1, 28) and getattr(
            g, 'maxv', None) in (None, ())
        R.ob('R14.11', 'ensure_consumer:expect_new-is-the-1.28-gate', ok,
             'expect_new is bound to the 1.28 version predicate',
             '%s -> %s' % (src(a) if a is not None else None,
                           getattr(g, 'minv', None)), func=f, node=c)
    R.count('R14.11', n, 1)


_run_c14b = run


def run(ctx, R):
    _run_c14b(ctx, R)
    r1411(ctx, R)


# functions whose result is a timestamp, never None (read, not inferred)
TIMESTAMP_FUNCS = {
    'oslo_utils.timeutils.utcnow': 'the clock',
    'placement.util.pick_last_modified':
        'the later of its first argument and the object\'s updated_at / '
        'created_at, the clock when the object has neither',
    'max': 'of timestamps',
}
# attributes that hold the timestamp of a stored row
ROW_TIMESTAMPS = ('updated_at', 'created_at')


def _never_none(ctx, f, e, depth=0, path=None):
    """(ok, why): expression e (a path value of function f) cannot be None."""
    from psa import pathval
    if path is not None:
        es = src(e)

        def settles(a, pol):
            if pol and src(a) == es:
                return True             # tested truthy
            if isinstance(a, ast.Compare) and len(a.ops) == 1 and \
                    src(a.left) == es and isinstance(
                        a.comparators[0], ast.Constant) and \
                    a.comparators[0].value is None:
                return (isinstance(a.ops[0], ast.IsNot) and pol) or (
                    isinstance(a.ops[0], ast.Is) and not pol)
            return False
        if pathval.holds(path, settles):
            return True, 'tested on the path'
    if isinstance(e, ast.Constant):
        return e.value is not None, 'constant %r' % (e.value,)
    if isinstance(e, ast.BoolOp) and isinstance(e.op, ast.Or):
        # ``a or b`` is b whenever a is None
        return _never_none(ctx, f, e.values[-1], depth)
    if isinstance(e, ast.IfExp):
        for x in (e.body, e.orelse):
            ok, why = _never_none(ctx, f, x, depth)
            if not ok:
                return ok, why
        return True, 'both arms'
    if isinstance(e, ast.Attribute) and e.attr in ROW_TIMESTAMPS:
        return True, 'timestamp of a stored row'
    idx = None
    if isinstance(e, ast.Subscript) and isinstance(
            e.slice, ast.Constant) and isinstance(e.slice.value, int):
        idx = e.slice.value
        e = e.value
    if isinstance(e, ast.Call):
        d = ctx.prog.dotted(f.module, e.func, f) or src(e.func)
        if d in TIMESTAMP_FUNCS and idx is None:
            return True, d
        tgt = ctx.prog.lookup(d)
        gs = tgt if isinstance(tgt, list) else []
        if not gs or depth > 2:
            return False, 'result of %s' % src(e.func)
        for g in gs:
            ps = pathval.paths_of(g, lambda st: isinstance(st, ast.Return))
            seen = False
            for p in ps:
                rs = [s for s in p.stmts if isinstance(s, ast.Return)]
                if not rs:
                    continue
                seen = True
                rv = rs[-1].value
                if rv is None:
                    return False, '%s returns nothing on a path' % g.name
                if idx is not None:
                    if not (isinstance(rv, ast.Tuple) and
                            idx < len(rv.elts)):
                        return False, '%s: result not a tuple' % g.name
                    rv = rv.elts[idx]
                ok, why = _never_none(
                    ctx, g, p.value_at(rs[-1], rv), depth + 1, path=p)
                if not ok:
                    return False, '%s line %d returns %s' % (
                        g.name, rs[-1].lineno, why)
            if not seen:
                return False, '%s: no return seen' % g.name
        return True, 'every return of %s' % src(e.func)
    return False, src(e)[:60]


def r1412(ctx, R):
    """From 1.15 on every response with a body carries Last-Modified: webob
    drops the header when it is assigned None, so the value a handler
    assigns is a timestamp on every path - the newest one of what is listed
    and, when nothing is listed, the clock."""
    from psa import pathval
    n = 0
    for f in sorted(ctx.prog.funcs, key=lambda x: x.qname):
        if not f.module.name.startswith('placement.handlers.'):
            continue
        sts = [a for a in own_nodes(f.node) if isinstance(a, ast.Assign)
               and any(isinstance(t, ast.Attribute) and
                       t.attr == 'last_modified' for t in a.targets)]
        if not sts:
            continue
        ps = pathval.paths_of(f, lambda st: st in sts)
        for s in sts:
            n += 1
            ok, why = True, 'a timestamp on every path'
            for p in ps:
                if s not in p.stmts:
                    continue
                o, w = _never_none(ctx, f, p.value_at(s, s.value), path=p)
                if not o:
                    ok, why = False, w
                    break
            R.ob('R14.12', '%s:last-modified-is-a-time' % f.qname, ok,
                 'the value assigned to response.last_modified is never '
                 'None', why, func=f, node=s)
    R.count('R14.12', n, 15)


_run_c14c = run


def run(ctx, R):
    _run_c14c(ctx, R)
    r1412(ctx, R)
