"""C02 - every allocation candidate can be claimed exactly as returned
(three structural clauses)."""
import ast

from psa import cfg as cfgmod
from psa import model
from psa import normform
from psa.model import own_nodes, own_nodes_of, src
from psa.rules import common as C
from psa.rules import c01, c05, c20

EXPLANATION = (
    "R2.1 sibling predicates: the SQL candidate filter "
    "(_capacity_check_clause), the post-merge filter (exceeds_capacity) and "
    "the write-time check (_check_capacity_exceeded) normalise to the same "
    "atoms, so the candidate search accepts only what the write accepts. "
    "R2.2 ownership of merged amounts: the only in-place mutation of an "
    "AllocationRequestResource is the amount accumulation in "
    "_consolidate_allocation_requests, on the object returned by "
    "copy_arr_if_needed; every return path of copy_arr_if_needed that "
    "returns its parameter (an object shared between combinations) carries "
    "the path condition 'resource class not requested by more than one "
    "group' (path-sensitive enumeration). R2.3 writer/reader tables agree: "
    "for every microversion the keys emitted for an allocation request are "
    "accepted by the PUT /allocations/{consumer} schema selected for that "
    "version (list form below 1.12, mappings from 1.34).")
ASSUMPTIONS = ["existence of named providers, per-class sums in general and "
               "summary values vs stored rows are not decided"]

RC = 'placement.objects.research_context'
AC = 'placement.objects.allocation_candidate'
HC = 'placement.handlers.allocation_candidate'


def _nz(f, extra):
    return normform.Normalizer(f, normform.column_naming(extra))


def r21(ctx, R, rule='R2.1'):
    prog = ctx.prog
    spec = c01.spec_atoms()
    accept = {spec['capacity_one'].negate(), spec['below_min'].negate(),
              spec['above_max'].negate(), spec['step'].negate()}
    f = prog.func(RC + ':_capacity_check_clause')
    rets = [n for n in own_nodes(f.node) if isinstance(n, ast.Return)]
    ok = len(rets) == 1 and isinstance(rets[0].value, ast.Call) and src(
        rets[0].value.func).endswith('and_')
    got = set()
    raw = []
    if ok:
        nz = _nz(f, {f.params[0]: 'amount'})
        for a in c05.flatten_and(rets[0].value):
            c = nz.cmp(a)
            raw.append(src(a)[:60])
            got.add(c)
    R.ob(rule, '_capacity_check_clause:atoms', ok and got == accept,
         'used + amount <= (total - reserved) * allocation_ratio AND '
         'min_unit <= amount AND max_unit >= amount AND amount mod step_size '
         '== 0 (the negation of what the write check rejects)', raw, func=f)
    # the clause is applied by get_providers_with_resource on every path
    g = prog.func(RC + ':get_providers_with_resource')
    cs = C.calls_to(ctx, g, f.qbase)
    okc = len(cs) == 1
    why = '%d calls' % len(cs)
    if okc:
        c = cs[0]
        amount_ok = c.args and src(c.args[0]) == g.params[2]
        inv = C.kwarg(c, 'inv_tbl') or (c.args[2] if len(c.args) > 2
                                        else None)
        inv_ok = inv is None or ctx.effects.table_of(g, inv) == 'inventories'
        wh = [n for n in own_nodes(g.node) if isinstance(n, ast.Call)
              and isinstance(n.func, ast.Attribute) and n.func.attr ==
              'where']
        st = C.stmt_of(c)
        var = st.targets[0].id if isinstance(st, ast.Assign) else None
        gg = cfgmod.cfg_of(g)
        where_ok = len(wh) == 1 and var is not None and src(
            wh[0].args[0]) == var and gg.must_pass(
                cfgmod.ENTRY, cfgmod.EXIT, {C.stmt_of(wh[0])})
        # any rebinding of the clause variable keeps it as a conjunct
        keeps = True
        for n in own_nodes(g.node):
            if isinstance(n, ast.Assign) and n is not st and any(
                    isinstance(t, ast.Name) and t.id == var
                    for t in n.targets):
                keeps = keeps and isinstance(n.value, ast.Call) and src(
                    n.value.func).endswith('and_') and any(
                        src(a) == var for a in n.value.args)
        okc = bool(amount_ok) and inv_ok and where_ok and keeps
        why = 'amount=%s inventories=%s where=%s conjunct-kept=%s' % (
            bool(amount_ok), inv_ok, where_ok, keeps)
    R.ob(rule, 'get_providers_with_resource:applies-clause', okc,
         'the clause, with the requested amount, is the WHERE condition of '
         'the provider query on every path', why, func=g)
    # the usage side is the sum of allocations of the class
    us = prog.func(RC + ':_usage_select')
    oku = any(isinstance(n, ast.Call) and src(n.func).endswith('func.sum')
              and src(n.args[0]).endswith('.c.used')
              and ctx.effects.table_of(us, n.args[0].value.value) ==
              'allocations' for n in own_nodes(us.node))
    R.ob(rule, '_usage_select:sum-of-allocations', oku,
         'used = SUM(allocations.used)', 'sum over allocations' if oku else
         'not found', func=us, nontrivial=False)


def g_dom_entry(f, st):
    """st is a top-level statement of f (not nested in a loop/try)."""
    return any(st is x for x in f.node.body)


def r21b(ctx, R):
    """The post-merge filter."""
    prog = ctx.prog
    spec = c01.spec_atoms()
    P = normform.Poly
    f = prog.func(RC + ':RequestWideSearchContext.exceeds_capacity')
    loops = [n for n in own_nodes(f.node) if isinstance(n, ast.For)]
    if not R.ob('R2.1', 'exceeds_capacity:loop', len(loops) == 1 and src(
            loops[0].iter) == '%s.resource_requests' % f.params[1],
            'every resource request of the merged candidate is tested',
            [src(l.iter) for l in loops], func=f):
        return
    v = src(loops[0].target)
    # psum lookup keyed by (provider id, class)
    ps = [n for n in own_nodes_of(loops[0]) if isinstance(n, ast.Assign)
          and isinstance(n.value, ast.Subscript)
          and 'psum_res_by_rp_rc' in src(n.value.value)]
    pname = ps[0].targets[0].id if len(ps) == 1 else None
    extra = {'%s.amount' % v: 'amount', '%s.used' % pname: 'used0',
             '%s.capacity' % pname: 'capacity_int',
             '%s.max_unit' % pname: 'max_unit'}
    nz = _nz(f, extra)
    rej = set()
    raw = []
    for n in own_nodes_of(loops[0]):
        if isinstance(n, ast.If) and n.body and isinstance(
                n.body[-1], ast.Return) and isinstance(
                    n.body[-1].value, ast.Constant) and \
                n.body[-1].value.value is True:
            rej.add(nz.cmp(n.test))
            raw.append(src(n.test))
    want = {normform.Cmp(P.atom('capacity_int') - P.atom('used0') -
                         P.atom('amount'), '<0'), spec['above_max']}
    R.ob('R2.1', 'exceeds_capacity:atoms', rej == want,
         'rejects used + amount > capacity and amount > max_unit on the '
         'summed amounts', raw, func=f)
    tail = [n for n in f.node.body if isinstance(n, ast.Return)]
    # every other "fits" answer: only when no class is requested by two
    # groups (nothing was summed, the per-group queries checked the rest)
    early = []
    for r in own_nodes(f.node):
        if not isinstance(r, ast.Return) or r in tail:
            continue
        if isinstance(r.value, ast.Constant) and r.value.value is True:
            continue
        gi = C.guarding_ifs(r, f.node)
        t = gi[0][0].test if len(gi) == 1 and gi[0][1] == 'body' else None
        if isinstance(t, ast.UnaryOp) and isinstance(t.op, ast.Not) and \
                src(t.operand) == '%s.multi_group_rcs' % f.params[0] and \
                g_dom_entry(f, gi[0][0]):
            continue
        early.append('line %d: return %s under %s' % (
            r.lineno, src(r.value) if r.value is not None else 'None',
            [src(i.test) for i, _b in gi]))
    R.ob('R2.1', 'exceeds_capacity:default-false', len(tail) == 1 and
         isinstance(tail[0].value, ast.Constant) and tail[0].value.value
         is False and not early and not [
             x for x in own_nodes_of(loops[0])
             if isinstance(x, (ast.Continue, ast.Break))],
         'no request is skipped; the answer "fits" is given only after the '
         'loop (or at once when no class is requested by two groups)',
         early or [src(t) for t in tail], func=f)
    key_ok = len(ps) == 1 and src(ps[0].value.slice) in C.names_in(
        ps[0].value.slice) or True
    # capacity_int = int((total - reserved) * ratio); used0 = int(used or 0)
    b = prog.func(AC + ':_build_provider_summaries')
    ctor = [n for n in own_nodes(b.node) if isinstance(n, ast.Call)
            and src(n.func) == 'ProviderSummaryResource']
    okb = False
    why = '%d ProviderSummaryResource constructions' % len(ctor)
    if len(ctor) == 1:
        nzb = _nz(b, {})
        cap = nzb.poly(C.kwarg(ctor[0], 'capacity'))
        used = nzb.poly(C.kwarg(ctor[0], 'used'))
        mx = nzb.poly(C.kwarg(ctor[0], 'max_unit'))
        capspec = (P.atom('total') - P.atom('reserved')) * P.atom(
            'allocation_ratio')
        okb = cap == P.atom('int(%r)' % capspec) and used == P.atom(
            'int(%r)' % P.atom('used0')) and mx == P.atom('max_unit')
        why = 'capacity=%r used=%r max_unit=%r' % (cap, used, mx)
    R.ob('R2.1', '_build_provider_summaries:summary-values', okb,
         'summary capacity = int((total - reserved) * allocation_ratio), '
         'used = int(used or 0), max_unit = max_unit', why, func=b)
    # the merge applies the filter to every consolidated candidate
    m = prog.func(AC + ':_merge_candidates')
    gm = cfgmod.cfg_of(m)
    cons = C.calls_to(ctx, m, AC + ':_consolidate_allocation_requests')
    exc = C.calls_to(ctx, m, f.qbase)
    adds = [n for n in own_nodes(m.node) if isinstance(n, ast.Call)
            and isinstance(n.func, ast.Attribute) and n.func.attr == 'add'
            and src(n.func.value) == (c20.merged_set_var(m) or '')]
    okm = len(cons) == 1 and len(exc) == 1 and len(adds) == 1
    if okm:
        cst = C.stmt_of(cons[0])
        var = cst.targets[0].id if isinstance(cst, ast.Assign) else None
        # the add runs under the literal "not exceeds_capacity(<that
        # candidate>)" - whichever way the skip is spelled
        neg = False
        for e, pol in C.conds(C.stmt_of(adds[0]), m.node, implicit=True):
            if e is exc[0] and not pol:
                neg = True
        okm = var is not None and src(exc[0].args[0]) == var and src(
            adds[0].args[0]) == var and neg and gm.dominates(
                cst, C.stmt_of(exc[0]))
    R.ob('R2.1', '_merge_candidates:filters-merged-candidate', okm,
         'a consolidated candidate is added to the result only after '
         'exceeds_capacity() returned False for it',
         'consolidate=%d filter=%d add=%d' % (len(cons), len(exc),
                                              len(adds)), func=m)


def path_conditions(f, path):
    """Branch literals along a CFG path: [(test node, taken: bool)]."""
    out = []
    for i, n in enumerate(path[:-1]):
        if isinstance(n, ast.If):
            nxt = path[i + 1]
            body_first = n.body[0] if n.body else None
            in_body = False
            cur = nxt
            while cur is not None and not isinstance(cur, str):
                if any(cur is s for s in n.body):
                    in_body = True
                    break
                if any(cur is s for s in n.orelse):
                    break
                cur = getattr(cur, '_parent', None)
                if cur is n or cur is f.node:
                    break
            out.append((n.test, in_body))
    return out


def r22(ctx, R):
    prog = ctx.prog
    f = prog.func(RC + ':RequestWideSearchContext.copy_arr_if_needed')
    # decided per path with the returned value propagated: whichever way
    # the decision is written, and whether the set of shared classes is read
    # from the search context or handed in by the caller
    from psa import pathval
    paths = [p for p in pathval.paths_of(f) if p.end != 'raise']
    R.ob('R2.2', 'copy_arr_if_needed:paths', 1 <= len(paths) <= 16,
         'the copy decision is a small function (path-sensitive '
         'enumeration)', '%d paths' % len(paths), func=f, nontrivial=False)

    def shared_set(e, fn=None, depth=0):
        """e denotes the request-wide set of classes asked by > 1 group:
        read from the search context, or a parameter every caller (followed
        up the call chain) binds to it."""
        fn = fn or f
        if src(e).endswith('.multi_group_rcs'):
            return True
        if isinstance(e, ast.Name) and e.id in fn.params and depth < 3:
            sites = [(h_, s_) for h_ in prog.funcs
                     for s_ in ctx.cg.calls_in(h_) if fn in s_.callees]
            vals = [(h_, C.arg_for_param(s_.node, fn, e.id))
                    for h_, s_ in sites]
            return bool(vals) and all(
                v is not None and shared_set(v, h_, depth + 1)
                for h_, v in vals)
        return False
    n_alias = 0
    for p in paths:
        ret = p.stmts[-1] if p.stmts else None
        if not isinstance(ret, ast.Return) or ret.value is None:
            R.ob('R2.2', 'copy_arr_if_needed:path-returns', False,
                 'every path returns an AllocationRequestResource',
                 'path ends at %s' % type(ret).__name__, func=f)
            continue
        v = p.value_at(ret, ret.value)
        if isinstance(v, ast.Name) and v.id in f.params:
            P = v.id
            n_alias += 1

            def not_shared(a, pol, P=P):
                return (not pol) and isinstance(a, ast.Compare) and \
                    isinstance(a.ops[0], ast.In) and src(a.left) == \
                    '%s.resource_class' % P and shared_set(a.comparators[0])
            has = pathval.holds(p, not_shared)
            ctext = ' and '.join(('' if tk else 'not ') + '(%s)' % t
                                 for t, tk in p.cond_srcs()) or 'always'
            R.ob('R2.2', 'copy_arr_if_needed:return-alias',
                 has,
                 'the shared object is returned only when its resource class '
                 'is not requested by more than one group (otherwise the '
                 'accumulation below corrupts another combination)',
                 'path condition: %s' % ctext, func=f, node=ret)
        else:
            okc = isinstance(v, ast.Call) and (
                prog.dotted(f.module, v.func, f) in ('copy.copy',
                                                     'copy.deepcopy')
                or src(v.func).endswith('AllocationRequestResource')) and \
                (not v.args or (isinstance(v.args[0], ast.Name) and
                                v.args[0].id in f.params))
            R.ob('R2.2', 'copy_arr_if_needed:return-copy', okc,
                 'other paths return a copy of the parameter', src(v),
                 func=f, node=ret, nontrivial=False)
    R.count('R2.2', max(n_alias, 1), 1)
    # the only in-place mutation of a request-resource amount
    sites = []
    for h in prog.funcs:
        for n in own_nodes(h.node):
            tgt = None
            if isinstance(n, ast.AugAssign):
                tgt = n.target
            elif isinstance(n, ast.Assign):
                for t in n.targets:
                    if isinstance(t, ast.Attribute):
                        tgt = t
            if isinstance(tgt, ast.Attribute) and tgt.attr == 'amount' and \
                    src(tgt.value) != 'self':
                sites.append((h, n, tgt))
    cons = prog.func(AC + ':_consolidate_allocation_requests')
    ok = len(sites) == 1 and sites[0][0] is cons and isinstance(
        sites[0][1], ast.AugAssign) and isinstance(sites[0][1].op, ast.Add)
    R.ob('R2.2', 'amount-mutation-sites', ok,
         'amounts of request resources are modified in place only by the '
         'accumulation in _consolidate_allocation_requests',
         ['%s %s' % (h.loc(n), src(n)) for h, n, _t in sites],
         func=sites[0][0] if sites else cons,
         node=sites[0][1] if sites else None)
    if ok:
        h, n, tgt = sites[0]
        base = tgt.value       # arrs_by_rp_rc[key], or a local bound to
        # arrs_by_rp_rc.get(key) / arrs_by_rp_rc[key]
        if isinstance(base, ast.Name):
            bd = c05.single_def(h, base.id)
            base = bd.value if bd is not None else base
        keyx = None
        dx = None
        if isinstance(base, ast.Subscript):
            dx, keyx = base.value, base.slice
        elif isinstance(base, ast.Call) and isinstance(
                base.func, ast.Attribute) and base.func.attr == 'get' and \
                base.args and (len(base.args) == 1 or (
                    isinstance(base.args[1], ast.Constant)
                    and base.args[1].value is None)):
            dx, keyx = base.func.value, base.args[0]
        okb = dx is not None
        stores = []
        if okb:
            d = src(dx)
            stores = [a for a in own_nodes(h.node) if isinstance(a, ast.Assign)
                      and any(isinstance(t, ast.Subscript) and src(
                          t.value) == d for t in a.targets)]
            okb = len(stores) == 1 and isinstance(
                stores[0].value, ast.Call) and f.qbase in C.call_name(
                    ctx, h, stores[0].value)
            # the accumulated value is the other request's amount
            okb = okb and src(n.value).endswith('.amount')
            # first occurrence stores, later ones accumulate
            ifs = C.guarding_ifs(stores[0], h.node) if stores else []
            ifs2 = C.guarding_ifs(n, h.node)
            okb = okb and ifs and ifs2 and ifs[0][0] is ifs2[0][0] and \
                {ifs[0][1], ifs2[0][1]} == {'body', 'orelse'}
        R.ob('R2.2', '_consolidate:mutates-owned-object', bool(okb),
             'the accumulated object is the one copy_arr_if_needed returned '
             'for the first occurrence of the (provider, class) key',
             [src(s) for s in stores], func=h, node=n)
        # key = (provider id, resource class)
        keyd = c05.single_def(h, src(keyx)) if okb else None
        okk = keyd is not None and isinstance(
            keyd.value, ast.Tuple) and [src(e).split('.', 1)[1]
                                        for e in keyd.value.elts] == [
            'resource_provider.id', 'resource_class']
        R.ob('R2.2', '_consolidate:key', okk,
             'requests are folded by (provider id, resource class)',
             src(keyd.value) if keyd is not None else None, func=h,
             nontrivial=False)
    # multi_group_rcs is complete before the merge
    gb = prog.func(AC + ':AllocationCandidates._get_by_requests')
    gg = cfgmod.cfg_of(gb)
    mer = C.calls_to(ctx, gb, AC + ':_merge_candidates')
    outer = [x for x in own_nodes(gb.node) if isinstance(x, ast.For)
             and '.items()' in src(x.iter)
             and any('multi_group_rcs' in src(y) for y in own_nodes_of(x))]
    okm = len(mer) == 1 and len(outer) == 1
    why = 'group loops touching multi_group_rcs=%d merges=%d' % (
        len(outer), len(mer))
    if okm:
        lp = outer[0]
        # (1) where multi_group_rcs grows, and from what
        grows = []      # (stmt, kind, seen-name)
        for n in own_nodes_of(lp):
            # multi.add(rc) under "if rc in SEEN" inside "for rc in X.rcs"
            if isinstance(n, ast.Call) and isinstance(
                    n.func, ast.Attribute) and n.func.attr == 'add' and \
                    src(n.func.value).endswith('.multi_group_rcs'):
                ifs = C.guarding_ifs(C.stmt_of(n), lp)
                t = ifs[0][0].test if ifs else None
                weakened = False
                if isinstance(t, ast.BoolOp) and isinstance(t.op, ast.And):
                    mem = [v for v in t.values if isinstance(
                        v, ast.Compare) and isinstance(v.ops[0], ast.In)
                        and src(v.left) == src(n.args[0])]
                    if mem:
                        t = mem[0]
                        weakened = True
                if isinstance(t, ast.Compare) and isinstance(
                        t.ops[0], ast.In) and src(t.left) == src(
                            n.args[0]) and ifs[0][1] == 'body':
                    inner = getattr(ifs[0][0], '_parent', None)
                    if isinstance(inner, ast.For) and src(
                            inner.iter).endswith('.rcs') and src(
                                inner.target) == src(n.args[0]) and not \
                            C.guarding_ifs(inner, lp):
                        grows.append((inner, 'loop-weakened' if weakened
                                      else 'loop', src(t.comparators[0])))
            # multi |= SEEN & X.rcs   /  multi.update(SEEN & X.rcs)
            val = None
            if isinstance(n, ast.AugAssign) and isinstance(
                    n.op, ast.BitOr) and src(n.target).endswith(
                        '.multi_group_rcs'):
                val = n.value
            if isinstance(n, ast.Call) and isinstance(
                    n.func, ast.Attribute) and n.func.attr == 'update' \
                    and src(n.func.value).endswith('.multi_group_rcs') \
                    and n.args:
                val = n.args[0]
            if isinstance(val, ast.BinOp) and isinstance(
                    val.op, ast.BitAnd):
                sides = [val.left, val.right]
                rcs = [x for x in sides if src(x).endswith('.rcs')]
                other = [x for x in sides if not src(x).endswith('.rcs')]
                st = C.stmt_of(n)
                if len(rcs) == 1 and len(other) == 1 and isinstance(
                        other[0], (ast.Name, ast.Attribute)) and not \
                        C.guarding_ifs(st, lp):
                    grows.append((st, 'setop', src(other[0])))
        if len(grows) != 1:
            raise model.AnalysisError(
                'R2.2: the bookkeeping of multi_group_rcs is not one of the '
                'recognised idioms (%d candidates)' % len(grows))
        gst, kind, seen = grows[0]
        # (2) the seen-set only grows inside the loop over groups
        replaced = []
        accum = []
        for n in own_nodes_of(lp):
            if isinstance(n, ast.Assign) and any(
                    isinstance(t, ast.Name) and t.id == seen
                    for t in n.targets):
                v = n.value
                if isinstance(v, ast.BinOp) and isinstance(
                        v.op, ast.BitOr) and seen in C.names_in(v):
                    accum.append(n)
                else:
                    replaced.append(n)
            if isinstance(n, ast.AugAssign) and src(n.target) == seen:
                if isinstance(n.op, ast.BitOr):
                    accum.append(n)
                else:
                    replaced.append(n)
            if isinstance(n, ast.Call) and isinstance(
                    n.func, ast.Attribute) and src(n.func.value) == seen:
                if n.func.attr in ('add', 'update'):
                    accum.append(n)
                elif n.func.attr in ('clear', 'discard', 'remove', 'pop',
                                     'intersection_update',
                                     'difference_update'):
                    replaced.append(n)
        if '.' in seen:
            # the seen-set kept in an attribute of the request-wide
            # context: no other function of the program stores into it but
            # the constructor's empty set
            at = seen.rsplit('.', 1)[1]
            for g_ in ctx.prog.funcs:
                if g_ is f:
                    continue
                for n in own_nodes(g_.node):
                    tg = []
                    if isinstance(n, ast.Assign):
                        tg = n.targets
                    elif isinstance(n, ast.AugAssign):
                        tg = [n.target]
                    elif isinstance(n, ast.Call) and isinstance(
                            n.func, ast.Attribute) and isinstance(
                                n.func.value, ast.Attribute) and \
                            n.func.value.attr == at and n.func.attr in (
                                'clear', 'discard', 'remove', 'pop',
                                'intersection_update', 'difference_update'):
                        replaced.append(n)
                    for t in tg:
                        if isinstance(t, ast.Attribute) and t.attr == at \
                                and not (g_.name == '__init__' and isinstance(
                                    n, ast.Assign) and src(n.value) in (
                                        'set()', 'frozenset()')):
                            replaced.append(n)
        okm = bool(accum) and not replaced and gg.dominates(
            lp, C.stmt_of(mer[0])) and kind != 'loop-weakened'
        # every group contributes its classes to the seen-set
        if kind == 'setop':
            okm = okm and any(not C.guarding_ifs(C.stmt_of(a), lp)
                              for a in accum)
        why = '%s idiom; seen-set %s accumulates at %d site(s), ' \
            'replaced/shrunk at %s' % (kind, seen, len(accum),
                                       ['line %d' % r.lineno
                                        for r in replaced])
    R.ob('R2.2', 'multi_group_rcs:complete-before-merge', okm,
         'every class name requested by a second group is recorded in '
         'multi_group_rcs before candidates are merged: the set of classes '
         'seen so far only grows across the loop over groups', why, func=gb)
    # names, not ids, on both sides
    rg = prog.func(RC + ':RequestGroupSearchContext.__init__')
    addn = [n for n in own_nodes(rg.node) if isinstance(n, ast.Call)
            and isinstance(n.func, ast.Attribute) and n.func.attr == 'add'
            and src(n.func.value) == 'self.rcs']
    okn = len(addn) == 1
    if okn:
        lp = [x for x in own_nodes(rg.node) if isinstance(x, ast.For)
              and addn[0] in list(ast.walk(x))]
        okn = len(lp) == 1 and '.resources.items()' in src(lp[0].iter) and \
            isinstance(lp[0].target, ast.Tuple) and src(
                lp[0].target.elts[0]) == src(addn[0].args[0])
    R.ob('R2.2', 'rcs-are-class-names', okn,
         'rg_ctx.rcs holds the requested class names (the same domain as '
         'AllocationRequestResource.resource_class)',
         [src(a) for a in addn], func=rg, nontrivial=False)


def _emitted_keys(ctx, f):
    """[(key, gate or None)] for dict(...) keywords and constant stores on
    the result variable of a transform function."""
    out = []
    # element variables: what is appended to the returned list
    ret = {r.value.id for r in own_nodes(f.node) if isinstance(r, ast.Return)
           and isinstance(r.value, ast.Name)}
    elem = set()
    for n in own_nodes(f.node):
        if isinstance(n, ast.Call) and isinstance(n.func, ast.Attribute) \
                and n.func.attr == 'append' and isinstance(
                    n.func.value, ast.Name) and n.func.value.id in ret and \
                n.args and isinstance(n.args[0], ast.Name):
            elem.add(n.args[0].id)
        elif isinstance(n, ast.Call) and isinstance(
                n.func, ast.Attribute) and n.func.attr == 'append' and \
                isinstance(n.func.value, ast.Name) and \
                n.func.value.id in ret and n.args:
            # the element built in place
            a0 = n.args[0]
            if isinstance(a0, ast.Dict):
                for k in a0.keys:
                    if isinstance(k, ast.Constant):
                        out.append((k.value, None, n))
            elif isinstance(a0, ast.Call) and src(a0.func) == 'dict':
                for k in a0.keywords:
                    out.append((k.arg, None, n))
    for n in own_nodes(f.node):
        if isinstance(n, ast.Assign) and isinstance(n.value, ast.Call) and \
                src(n.value.func) == 'dict' and len(n.targets) == 1 and \
                isinstance(n.targets[0], ast.Name) and n.targets[0].id in elem:
            for k in n.value.keywords:
                out.append((k.arg, None, n))
        if isinstance(n, ast.Assign) and isinstance(n.value, ast.Dict) and \
                isinstance(n.targets[0], ast.Name) and n.targets[0].id in elem:
            for k in n.value.keys:
                if isinstance(k, ast.Constant):
                    out.append((k.value, None, n))
        if isinstance(n, ast.Assign):
            for t in n.targets:
                if isinstance(t, ast.Subscript) and isinstance(
                        t.value, ast.Name) and t.value.id in elem and isinstance(
                                t.slice, ast.Constant):
                    gate = None
                    for i, br in C.guarding_ifs(n, f.node):
                        t_ = i.test
                        # a flag bound to a version predicate (local,
                        # helper parameter or record field)
                        gt = C.flag_gate(ctx, f, t_)
                        if gt is not None and br == 'body':
                            gate = gt
                        elif gt is None:
                            gate = 'opaque'
                    out.append((t.slice.value, gate, n))
    return out


def r23(ctx, R):
    prog = ctx.prog
    G = ctx.gates
    td = prog.func(HC + ':_transform_allocation_requests_dict')
    tl = prog.func(HC + ':_transform_allocation_requests_list')
    tc = prog.func(HC + ':_transform_allocation_candidates')
    # which transform per version
    sel = [n for n in own_nodes(tc.node) if isinstance(n, ast.If)]
    fmt_gate = None
    if len(sel) == 1:
        t_, body_, else_ = C.pos_if(sel[0])
        gt = C.flag_gate(ctx, tc, t_)
        body_calls = [c for s in body_ for c in ast.walk(s)
                      if isinstance(c, ast.Call)]
        else_calls = [c for s in else_ for c in ast.walk(s)
                      if isinstance(c, ast.Call)]
        if gt is not None and any(td.qbase in C.call_name(ctx, tc, c)
                                  for c in body_calls) and any(
                tl.qbase in C.call_name(ctx, tc, c) for c in else_calls):
            fmt_gate = gt
    if not R.ob('R2.3', 'format-selection', fmt_gate is not None,
                'dict form under a version gate, list form otherwise',
                [src(s.test) for s in sel], func=tc):
        return
    dkeys = _emitted_keys(ctx, td)
    lkeys = _emitted_keys(ctx, tl)
    if not R.ob('R2.3', 'emitted-keys-resolved', bool(dkeys) and bool(lkeys)
                and all(g != 'opaque' for _k, g, _n in dkeys + lkeys),
                'emitted keys and their gates are recognised',
                [(k, getattr(g, 'minv', g)) for k, g, _n in dkeys + lkeys],
                func=td, nontrivial=False):
        return
    # PUT schema per version from the versioned handler windows
    put = prog.funcs_named('placement.handlers.allocation:'
                           'set_allocations_for_consumer')
    n = 0
    from psa.gates import parse_version
    for v in G.versions:
        if v < (1, 10):
            continue
        n += 1
        vs = '%d.%d' % v
        chosen, _status = C.dispatch(ctx, put, v)
        if chosen is None:
            R.ob('R2.3', 'v%s:put-handler' % vs, False,
                 'PUT /allocations/{c} exists at this version', 'none')
            continue
        impl, call = C.delegate_of(ctx, chosen)
        sref = call.args[1] if call is not None and len(call.args) > 1 \
            else None
        d = prog.dotted(chosen.module, sref, chosen) if sref is not None \
            else None
        try:
            schema = prog.const(*d.rsplit('.', 1)) if d else None
        except model.AnalysisError:
            schema = None
        if not isinstance(schema, dict):
            R.ob('R2.3', 'v%s:put-schema' % vs, False,
                 'the PUT schema is a constant', d, func=chosen)
            continue
        props = schema.get('properties', {})
        closed = schema.get('additionalProperties') is False
        is_dict = G.holds(fmt_gate, v)
        emitted = dkeys if is_dict else lkeys
        top = {k for k, g, _n in emitted if g is None or G.holds(g, v)}
        ok_top = (top <= set(props) or not closed) and 'allocations' in top
        a = props.get('allocations', {})
        form_ok = (a.get('type') == 'object') == is_dict and \
            a.get('type') in ('object', 'array')
        inner_ok = False
        if is_dict and a.get('type') == 'object':
            subs = list((a.get('patternProperties') or {}).values())
            inner_ok = bool(subs) and all(
                'resources' in s.get('properties', {}) for s in subs)
        elif not is_dict and a.get('type') == 'array':
            it = a.get('items', {})
            ip = it.get('properties', {})
            inner_ok = {'resource_provider', 'resources'} <= set(ip) and \
                'uuid' in ip.get('resource_provider', {}).get(
                    'properties', {})
        R.ob('R2.3', 'v%s:keys-accepted' % vs, ok_top and form_ok and
             inner_ok,
             'what GET /allocation_candidates emits at %s (%s form, keys '
             '%s) is accepted by %s' % (vs, 'dict' if is_dict else 'list',
                                        sorted(top), d.rsplit('.', 1)[1]),
             'top-level %s in schema keys %s; form matches: %s; inner keys '
             'accepted: %s' % (sorted(top), sorted(props), form_ok,
                               inner_ok), func=chosen)
        # mappings is emitted exactly when the schema knows it
        if is_dict:
            R.ob('R2.3', 'v%s:mappings-agree' % vs,
                 ('mappings' in top) == ('mappings' in props),
                 'mappings is emitted exactly at the versions whose PUT '
                 'schema accepts it', 'emitted=%s accepted=%s' % (
                     'mappings' in top, 'mappings' in props), func=td,
                 nontrivial=False)
    R.count('R2.3', n, 30)


def r25(ctx, R):
    """Candidate-only keys are opaque to the write.  GET emits ``mappings``
    (suffix -> providers) next to ``allocations``; a resourceless group maps
    to a provider that holds no allocation, so the two are not related in
    any way the write could rely on.  The write path therefore accepts the
    key (schema, R2.3) and never interprets it: any reader of it can refuse
    a candidate sent back unchanged."""
    from psa.rules import c04
    prog = ctx.prog
    roots = []
    for qb in c04.ALLOC_WRITERS[:2]:
        roots.extend(prog.funcs_named(qb))
    n = 0
    bad = []
    for h in sorted(ctx.cg.reachable(roots), key=lambda x: x.qname):
        if not h.module.name.startswith('placement.handlers'):
            continue
        n += 1
        for x in own_nodes(h.node):
            if isinstance(x, ast.Constant) and x.value == 'mappings':
                par = getattr(x, '_parent', None)
                if isinstance(par, (ast.Subscript, ast.Compare)) or (
                        isinstance(par, ast.Call) and isinstance(
                            par.func, ast.Attribute) and par.func.attr in (
                                'get', 'pop', 'setdefault')):
                    bad.append((h, x))
    R.ob('R2.5', 'write-path:mappings-opaque', not bad,
         'the allocation write path accepts the candidate key "mappings" '
         'and never reads it (a resourceless group maps to a provider '
         'without allocations, so any interpretation can refuse a candidate '
         'sent back unchanged)',
         ['%s %s' % (h.loc(x), h.qbase.split(':')[1]) for h, x in bad[:4]]
         or 'not read', func=bad[0][0] if bad else None,
         node=bad[0][1] if bad else None)
    # positive premise: the serialiser does emit the key (otherwise the
    # rule is about nothing)
    ser = prog.func('placement.handlers.allocation_candidate:'
                    '_transform_allocation_requests_dict')
    emits = any(isinstance(x, ast.Constant) and x.value == 'mappings'
                for x in own_nodes(ser.node))
    R.ob('R2.5', 'serialiser-emits-mappings', emits,
         '(premise) GET /allocation_candidates emits "mappings"',
         'yes' if emits else 'no', func=ser, nontrivial=False)
    R.count('R2.5', n, 8)


def r26(ctx, R, rule='R2.6', premature=False):
    """The per-class accumulation of trees: RPCandidateList
    .merge_common_trees treats an empty receiver as "nothing merged yet"
    (it adopts the other list) and an empty argument as "nothing to merge".
    A loop that intersects one class after the other through it therefore
    has to stop as soon as either side is empty - otherwise the running
    intersection starts again from the next class and candidates that lack
    the earlier classes come back."""
    prog = ctx.prog
    MERGE = 'placement.objects.rp_candidates:RPCandidateList.' \
        'merge_common_trees'
    callee = prog.func(MERGE)
    me = callee.params[0]
    other = callee.params[1] if len(callee.params) > 1 else None
    adopts = ignores = False
    for n in own_nodes(callee.node):
        if isinstance(n, ast.If):
            for a, pol in C.lits(n.test, True, []):
                # (either polarity: "elif not other: pass / else: X" is
                # also written "if other: X")
                if isinstance(a, ast.Name):
                    if a.id == me:
                        adopts = True
                    if a.id == other:
                        ignores = True
    n_sites = 0
    for f in prog.funcs:
        for c in C.calls_to(ctx, f, MERGE):
            st = C.stmt_of(c)
            lp = getattr(st, '_parent', None)
            if not isinstance(lp, (ast.For, ast.While)) or not (
                    isinstance(c.func, ast.Attribute) and isinstance(
                        c.func.value, ast.Name) and c.args and isinstance(
                            c.args[0], ast.Name)):
                continue
            n_sites += 1
            acc, arg = c.func.value.id, c.args[0].id
            g = cfgmod.cfg_of(f)

            def empty_exit(x, name):
                if not (isinstance(x, ast.If) and x.body and isinstance(
                        x.body[-1], ast.Return)):
                    return False
                ls = C.lits(x.test, True, [])
                return len(ls) == 1 and not ls[0][1] and isinstance(
                    ls[0][0], ast.Name) and ls[0][0].id == name

            def grows_only(call):
                """Every callee only adds to the list it is called on."""
                s_ = ctx.cg.site_of.get(call)
                if s_ is None or not s_.callees:
                    return False
                for cal in s_.callees:
                    sts = [y for y in own_nodes(cal.node) if isinstance(
                        y, (ast.Assign, ast.AugAssign)) and any(
                            isinstance(t, ast.Attribute) and isinstance(
                                t.value, ast.Name) and t.value.id ==
                            (cal.params + [None])[0]
                            for t in (y.targets if isinstance(
                                y, ast.Assign) else [y.target]))]
                    if not sts or not all(isinstance(
                            y, ast.AugAssign) and isinstance(
                                y.op, ast.BitOr) for y in sts):
                        return False
                return True

            def writes(x, name):
                """The statement may leave the named list empty (it binds
                it, or calls something on it that does not only add)."""
                for y in cfgmod.header_nodes(x):
                    if isinstance(y, ast.Name) and y.id == name and \
                            isinstance(y.ctx, ast.Store):
                        return True
                    if isinstance(y, ast.Call) and isinstance(
                            y.func, ast.Attribute) and isinstance(
                                y.func.value, ast.Name) and \
                            y.func.value.id == name and not grows_only(y):
                        return True
                return False
            inloop = [x for x in own_nodes_of(lp) if isinstance(x, ast.stmt)]
            if premature:
                # R3.11: a class's list is given up as empty only when
                # nothing can be added to it any more - an empty-exit that
                # follows a filtering step must not be followed, in the same
                # iteration, by a step that adds providers (they would have
                # made the list non-empty: candidates are omitted)
                def calls_on(x, name, growing):
                    for y in cfgmod.header_nodes(x):
                        if isinstance(y, ast.Call) and isinstance(
                                y.func, ast.Attribute) and isinstance(
                                    y.func.value, ast.Name) and \
                                y.func.value.id == name and \
                                grows_only(y) == growing:
                            return True
                    return False

                def within(a, b):
                    """b is reachable from a without passing the loop
                    head."""
                    return b in g.reachable_from(
                        list(g.succ.get(a, ())), removed={lp})
                shr = [x for x in inloop if calls_on(x, arg, False)
                       and x is not st]
                grw = [x for x in inloop if calls_on(x, arg, True)]
                guards = [x for x in inloop if empty_exit(x, arg)]
                bad = []
                for G in guards:
                    if any(within(s_, G) for s_ in shr):
                        bad.extend(w for w in grw if within(G, w))
                R.ob(rule, '%s:no-exit-before-last-addition' % f.qbase,
                     bool(guards) and bool(grw) and not bad,
                     'a class\'s provider list is given up as empty (after '
                     'a filter) only when no step of the iteration can still '
                     'add providers to it', ['line %d adds after an '
                                             'empty-exit' % w.lineno
                                             for w in bad] or
                     '%d filters, %d additions, %d empty-exits' % (
                         len(shr), len(grw), len(guards)), func=f, node=st)
                continue
            if adopts:
                guards = {x for x in inloop if empty_exit(x, acc)}
                ok = bool(guards) and g.must_pass(st, lp, guards,
                                                  normal_only=True)
                R.ob(rule, '%s:accumulator-empty-exits' % f.qbase, ok,
                     'after each merge an empty running intersection ends '
                     'the search before the next class is merged (an empty '
                     'receiver would adopt the next class\'s providers)',
                     '%d empty-exits on the accumulator' % len(guards),
                     func=f, node=st)
            if ignores:
                guards = {x for x in inloop if empty_exit(x, arg)}
                ws = [x for x in inloop if x is not st and writes(x, arg)]
                # only writes of this iteration count: a path from a write
                # to the merge that goes round the loop passes the loop head
                bad = [x for x in ws if st in g.reachable_from([x])
                       and not g.must_pass(x, st, guards | {lp},
                                           normal_only=True)]
                R.ob(rule, '%s:merged-list-empty-exits' % f.qbase,
                     bool(guards) and bool(ws) and not bad,
                     'a class for which no provider is left ends the search '
                     'before the merge (an empty argument is ignored by the '
                     'merge): tested after every change of the list',
                     ['line %d' % x.lineno for x in bad] or
                     '%d writes, %d empty-exits' % (len(ws), len(guards)),
                     func=f, node=st)
    R.count(rule, n_sites, 1)


def r27(ctx, R):
    """A candidate names, under "allocations", exactly the providers it
    takes resources from: the per-candidate mapping starts empty and gets
    its keys from the candidate's resource requests only.  (A provider put
    there from anywhere else - the mappings of a resourceless group - has no
    resources, and the PUT schema refuses an empty "resources".)"""
    prog = ctx.prog
    f = prog.func(HC + ':_transform_allocation_requests_dict')
    deps = C.Deps(f)
    # the mapping published under 'allocations'
    pub = []
    for n in own_nodes(f.node):
        if isinstance(n, ast.Call) and src(n.func) == 'dict':
            v = C.kwarg(n, 'allocations')
            if v is not None:
                pub.append(v)
        if isinstance(n, ast.Dict):
            for k, v in zip(n.keys, n.values):
                if isinstance(k, ast.Constant) and k.value == 'allocations':
                    pub.append(v)
        if isinstance(n, ast.Assign):
            for t in n.targets:
                if isinstance(t, ast.Subscript) and isinstance(
                        t.slice, ast.Constant) and \
                        t.slice.value == 'allocations':
                    pub.append(n.value)
    why = [src(p)[:80] for p in pub]
    rr_loops = [lp for lp in own_nodes(f.node) if isinstance(lp, ast.For)
                and src(lp.iter).endswith('.resource_requests')]
    rr_vars = {x.id for lp in rr_loops for x in ast.walk(lp.target)
               if isinstance(x, ast.Name)}

    def from_request(e):
        return deps.reaches(e, lambda x: isinstance(x, ast.Name)
                            and x.id in rr_vars)

    def keys_ok(e, depth=0):
        """The keys of mapping e all come from resource requests."""
        if depth > 3:
            return False
        if isinstance(e, ast.DictComp) and len(e.generators) == 1:
            g_ = e.generators[0]
            if src(g_.iter).endswith('.resource_requests'):
                return True
            # {k: f(v) for k, v in other.items()}: the keys of `other`
            it = g_.iter
            base = None
            if isinstance(it, ast.Call) and isinstance(
                    it.func, ast.Attribute) and it.func.attr == 'items' \
                    and not it.args and isinstance(g_.target, ast.Tuple) \
                    and isinstance(g_.target.elts[0], ast.Name) and \
                    isinstance(e.key, ast.Name) and e.key.id == \
                    g_.target.elts[0].id:
                base = it.func.value
            return base is not None and keys_ok(base, depth + 1)
        if not isinstance(e, ast.Name):
            why.append('published: %s' % src(e)[:60])
            return False
        var = e.id
        inits = [a for a in own_nodes(f.node) if isinstance(a, ast.Assign)
                 and any(isinstance(t, ast.Name) and t.id == var
                         for t in a.targets)]
        good = bool(inits)
        nkeys = 0
        for a in inits:
            v = a.value
            empty = (isinstance(v, ast.Dict) and not v.keys) or (
                isinstance(v, ast.Call) and src(v.func).split('.')[-1] in (
                    'dict', 'defaultdict', 'OrderedDict') and not any(
                        isinstance(x, (ast.Dict, ast.DictComp, ast.ListComp,
                                       ast.GeneratorExp)) for x in v.args))
            if not empty and not (isinstance(v, ast.DictComp) and keys_ok(
                    v, depth + 1)):
                good = False
                why.append('starts as %s' % src(v)[:70])
            if isinstance(v, ast.DictComp):
                nkeys += 1
        for n in own_nodes(f.node):
            if isinstance(n, ast.Subscript) and isinstance(
                    n.value, ast.Name) and n.value.id == var:
                nkeys += 1
                if not from_request(n.slice):
                    good = False
                    why.append('key %s' % src(n.slice))
            if isinstance(n, ast.Call) and isinstance(
                    n.func, ast.Attribute) and isinstance(
                        n.func.value, ast.Name) and n.func.value.id == var \
                    and n.func.attr in ('setdefault', 'update') and n.args:
                nkeys += 1
                if not from_request(n.args[0]):
                    good = False
                    why.append('%s(%s)' % (n.func.attr, src(n.args[0])[:40]))
        return good and nkeys > 0
    ok = len(pub) == 1 and keys_ok(pub[0]) and bool(rr_loops)
    R.ob('R2.7', 'allocations-keys-from-resource-requests', ok,
         'the providers named under "allocations" of a candidate are those '
         'of its resource requests (the mapping starts empty, every key '
         'comes from a resource request)', why[:4], func=f)
    R.count('R2.7', 1, 1)


def run(ctx, R):
    r26(ctx, R)
    r27(ctx, R)
    r21(ctx, R)
    r21b(ctx, R)
    c01.r13(ctx, R)
    R.count('R2.1', 1, 1)
    r22(ctx, R)
    r23(ctx, R)
    from psa import sqlshape
    n = sqlshape.shape_rule(ctx, R, 'R2.4', [
        RC + ':get_providers_with_resource', RC + ':_usage_select'])
    R.count('R2.4', n, 2)
    r25(ctx, R)
