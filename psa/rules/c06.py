"""C06 - consumer generations prevent lost updates."""
import ast

from psa import cfg as cfgmod
from psa import model
from psa.model import own_nodes, own_nodes_of, src
from psa.rules import common as C
from psa.rules import c05, c10

EXPLANATION = (
    "R6.1: Consumer.increment_generation is a compare-and-swap (same shape "
    "obligations as R5.1). R6.2: in ensure_consumer, under the 1.28 gate, "
    "every path on which a consumer loaded from the database reaches the "
    "return passes a raising comparison with the request's "
    "consumer_generation - including the lost-creation-race path through "
    "_create_consumer - and the not-found path requires null. R6.3: the "
    "allocation write increments every visited consumer inside its writer "
    "scope; Consumer.update never writes generation; creation races surface "
    "as ConsumerExists through the unique constraint on consumers.uuid. "
    "R6.4: every Allocation handed to the write carries the consumer object "
    "that was generation-checked, not one re-read later.")
ASSUMPTIONS = [
    "the schedule statement follows from R6.1-R6.4 + DBMS atomicity; it is "
    "not re-derived",
]

CONS_INCR = 'placement.objects.consumer:Consumer.increment_generation'
CONS_GET = 'placement.objects.consumer:Consumer.get_by_uuid'
ENSURE = 'placement.handlers.util:ensure_consumer'
CREATE = 'placement.handlers.util:_create_consumer'
GET_ALLOCS = ('placement.objects.allocation:get_all_by_consumer_id',
              'placement.objects.allocation:get_all_by_resource_provider')


def gen_param(ctx, f):
    """The parameter of f that callers bind to the body field
    'consumer_generation' (by position at every call site)."""
    idx = None
    for g in ctx.prog.funcs:
        for s_ in ctx.cg.calls_in(g):
            if f not in s_.callees:
                continue
            here = set()
            pairs = list(enumerate(s_.node.args)) + [
                (f.params.index(k.arg), k.value) for k in s_.node.keywords
                if k.arg in f.params]
            deps = C.Deps(g)
            for i, a in pairs:
                if deps.reaches(a, lambda x: isinstance(x, ast.Constant)
                                and x.value == 'consumer_generation'):
                    here.add(i)
            idx = here if idx is None else (idx & here)
    if idx and len(idx) == 1:
        i = list(idx)[0]
        return f.params[i] if i < len(f.params) else None
    return None


def _is_gen_cmp(e, param):
    """``X.generation != <param>`` (either order) -> name X, else None."""
    if not (isinstance(e, ast.Compare) and len(e.ops) == 1 and isinstance(
            e.ops[0], ast.NotEq)):
        return None
    a, b = e.left, e.comparators[0]
    for x, y in ((a, b), (b, a)):
        if isinstance(x, ast.Attribute) and x.attr == 'generation' and \
                isinstance(x.value, ast.Name) and isinstance(
                    y, ast.Name) and y.id == param:
            return x.value.id
    return None


def _is_null_test(e, param):
    return isinstance(e, ast.Compare) and len(e.ops) == 1 and isinstance(
        e.ops[0], ast.IsNot) and src(e.left) == param and src(
            e.comparators[0]) == 'None'


def _conflict_raises(ctx, f):
    """[(raise stmt, literals)] for the 409 concurrent-update raises of f;
    literals = the branch literals under which the raise runs, whatever the
    spelling (nested ifs, merged ``and``, negated tests)."""
    out = []
    for r in own_nodes(f.node):
        if isinstance(r, ast.Raise) and c05.is_conflict_raise(ctx, f, r)[0]:
            out.append((r, C.conds(r, f.node)))
    return out


def _gen_compare_ifs(ctx, f, param=None):
    """(top-level if statement, X, other literals) for each 409 raise that
    runs exactly when ``X.generation != <param>`` and the other literals
    hold; the raise must be the only statement of its branch."""
    out = []
    if param is None:
        param = gen_param(ctx, f)
    for r, ls in _conflict_raises(ctx, f):
        xs = [(_is_gen_cmp(e, param), e) for e, pol in ls if pol]
        xs = [(x, e) for x, e in xs if x]
        if len(xs) != 1:
            continue
        blk = getattr(r, '_parent', None)
        if not (isinstance(blk, ast.If) and blk.body == [r]):
            continue
        rest = [(e, pol) for e, pol in ls if e is not xs[0][1]]
        out.append((C.outer_if(r, f.node), xs[0][0], rest))
    return out


def _flag_name(ctx, f, minv):
    """Local name singly bound to a gate with the given minimum version."""
    for n in own_nodes(f.node):
        if isinstance(n, ast.Assign) and len(n.targets) == 1 and isinstance(
                n.targets[0], ast.Name):
            g = ctx.gates.gate_of(f, n.value)
            if g is not None and g.minv == minv:
                if c05.single_def(f, n.targets[0].id) is not None:
                    return n.targets[0].id
    return None


def _only_flag(rest, flag):
    """The remaining literals are exactly the positive version flag."""
    return len(rest) == 1 and rest[0][1] and isinstance(
        rest[0][0], ast.Name) and rest[0][0].id == flag


def r62(ctx, R):
    prog = ctx.prog
    f = prog.func(ENSURE)
    g = cfgmod.cfg_of(f)
    flag = _flag_name(ctx, f, (1, 28))
    if not R.ob('R6.2', 'ensure_consumer:flag', flag is not None,
                'a local flag is bound to want_version.matches((1, 28))',
                flag, func=f):
        return
    # (a) direct load
    loads = [s.node for s in ctx.cg.calls_in(f)
             if any(c.qbase == CONS_GET for c in s.callees)]
    R.ob('R6.2', 'ensure_consumer:load-site', len(loads) == 1,
         'one Consumer.get_by_uuid in ensure_consumer', '%d' % len(loads),
         func=f, nontrivial=False)
    cmps = _gen_compare_ifs(ctx, f)
    for ld in loads:
        st = C.stmt_of(ld)
        var = st.targets[0].id if isinstance(st, ast.Assign) and isinstance(
            st.targets[0], ast.Name) else None
        via = set()
        for top_if, x, rest in cmps:
            if x == var and _only_flag(rest, flag):
                via.add(top_if)
        ok = bool(via) and g.must_pass(st, cfgmod.EXIT, via,
                                       normal_only=True)
        R.ob('R6.2', 'ensure_consumer:loaded-consumer-compared', ok,
             'after a successful load, every path to the return passes '
             '"if <1.28 flag>: if consumer.generation != '
             'consumer_generation: raise 409"',
             'ok' if ok else 'a path from the load reaches the return '
             'without the comparison', func=f, node=ld)
    # (b) not-found path requires null
    handlers = [h for n in own_nodes(f.node) if isinstance(n, ast.Try)
                for h in n.handlers
                if any(ld in list(own_nodes_of(n)) for ld in loads)]
    creates = [s.node for s in ctx.cg.calls_in(f)
               if any(c.qbase == CREATE for c in s.callees)]
    R.ob('R6.2', 'ensure_consumer:create-site', len(creates) == 1,
         'one _create_consumer call', '%d' % len(creates), func=f,
         nontrivial=False)
    for cr in creates:
        cst = C.stmt_of(cr)
        nulls = []
        gp = gen_param(ctx, f)
        for r, ls in _conflict_raises(ctx, f):
            blk = getattr(r, '_parent', None)
            if not (isinstance(blk, ast.If) and blk.body == [r]):
                continue
            nt = [e for e, pol in ls if pol and _is_null_test(e, gp)]
            rest = [(e, pol) for e, pol in ls if not (nt and e is nt[0])]
            if len(nt) == 1 and _only_flag(rest, flag):
                nulls.append(C.outer_if(r, f.node))
        ok = bool(nulls) and all(g.dominates(x, cst) for x in nulls[:1])
        R.ob('R6.2', 'ensure_consumer:not-found-requires-null', ok,
             'creating the consumer is dominated by "if <1.28 flag>: if '
             'consumer_generation is not None: raise 409"',
             'ok' if ok else 'the create is reachable without the null '
             'test', func=f, node=cr)
    # (c) the lost-creation-race path
    cf = prog.func(CREATE)
    cg_ = cfgmod.cfg_of(cf)
    cloads = [s.node for s in ctx.cg.calls_in(cf)
              if any(c.qbase == CONS_GET for c in s.callees)]
    if cloads:
        for ld in cloads:
            st = C.stmt_of(ld)
            # (i) param-guarded rejection inside _create_consumer
            via = set()
            pname = None
            for n in own_nodes(cf.node):
                if isinstance(n, ast.If) and isinstance(
                        n.test, ast.Name) and n.test.id in cf.params and \
                        n.body and isinstance(n.body[-1], ast.Raise) and \
                        not n.orelse and c05.is_conflict_raise(
                            ctx, cf, n.body[-1])[0]:
                    via.add(n)
                    pname = n.test.id
            inner = bool(via) and cg_.must_pass(st, cfgmod.EXIT, via,
                                                normal_only=True)
            bound = False
            found = 'no param-guarded rejection after the re-read'
            if inner:
                found = 'rejection under parameter %s' % pname
                for cr in creates:
                    kv = C.kwarg(cr, pname)
                    if kv is None and pname in cf.params and \
                            cf.params.index(pname) < len(cr.args):
                        kv = cr.args[cf.params.index(pname)]
                    if kv is not None and isinstance(
                            kv, ast.Name) and kv.id == flag:
                        bound = True
                    else:
                        found += '; call site passes %s' % (
                            src(kv) if kv is not None else 'nothing')
            # (ii) comparison in ensure_consumer after the create call
            outer = False
            for cr in creates:
                cst = C.stmt_of(cr)
                tgt = cst.targets[0] if isinstance(cst, ast.Assign) else None
                var = None
                if isinstance(tgt, ast.Tuple) and tgt.elts and isinstance(
                        tgt.elts[0], ast.Name):
                    var = tgt.elts[0].id
                via2 = set()
                for top_if, x, rest in cmps:
                    if x != var or not g.dominates(cst, top_if):
                        continue
                    # allowed guards: the flag and/or "not created"
                    okg = any(pol and isinstance(e, ast.Name)
                              and e.id == flag for e, pol in rest)
                    if okg:
                        via2.add(top_if)
                if via2 and g.must_pass(cst, cfgmod.EXIT, via2,
                                        normal_only=True):
                    outer = True
            ok = (inner and bound) or outer
            R.ob('R6.2', 'ensure_consumer>_create_consumer', ok,
                 'a consumer re-read after losing the creation race is '
                 'rejected (or generation-compared) under the 1.28 flag '
                 'before it is returned', found if not ok else 'ok',
                 func=cf, node=ld)
            # the rejection precedes the consumer-type update
            ups = [s.node for s in ctx.cg.calls_in(cf) if any(
                c.qbase == 'placement.objects.consumer:Consumer.update'
                for c in s.callees)]
            if inner and ups:
                okp = all(any(cg_.dominates(v, C.stmt_of(u)) for v in via)
                          for u in ups)
                R.ob('R6.2', '_create_consumer:reject-before-update', okp,
                     'the rejection precedes the consumer-type update',
                     'ok' if okp else 'update first', func=cf, node=ups[0])


def r63(ctx, R):
    prog = ctx.prog
    c10._r10_2(ctx, R, 'R6.3')
    # Consumer.update does not write generation
    upd = prog.func('placement.objects.consumer:Consumer.update>_update_in_db')
    es = [e for e in ctx.effects.direct[upd] if e.op == 'U']
    ok = len(es) == 1 and es[0].columns is not None and 'generation' not \
        in es[0].columns
    R.ob('R6.3', 'Consumer.update:no-generation-write', ok,
         'Consumer.update sets project/user/type only',
         [repr(e) for e in es], func=upd)
    # Consumer.create maps DBDuplicateEntry -> ConsumerExists
    cr = prog.func('placement.objects.consumer:Consumer.create>_create_in_db')
    okc = False
    found = 'no handler'
    for n in own_nodes(cr.node):
        if isinstance(n, ast.ExceptHandler):
            hts = ctx.raises.handler_types(cr, n) or []
            rs = [ctx.raises.exc_name(cr, x.exc) for x in own_nodes_of(n)
                  if isinstance(x, ast.Raise) and x.exc is not None]
            found = '%s -> %s' % (hts, rs)
            if 'oslo_db.exception.DBDuplicateEntry' in hts and rs == [
                    'placement.exception.ConsumerExists']:
                okc = True
    R.ob('R6.3', 'Consumer.create:duplicate->ConsumerExists', okc,
         'a duplicate consumers.uuid surfaces as ConsumerExists', found,
         func=cr)
    # unique constraint on consumers.uuid
    m = prog.module('placement.db.sqlalchemy.models')
    cls = m.classes.get('Consumer')
    oku = False
    if cls is not None and '__table_args__' in cls.attrs:
        for n in ast.walk(cls.attrs['__table_args__']):
            if isinstance(n, ast.Call) and src(n.func).endswith(
                    'UniqueConstraint') and [
                        a.value for a in n.args
                        if isinstance(a, ast.Constant)] == ['uuid']:
                oku = True
    R.ob('R6.3', 'models.Consumer:unique-uuid', oku,
         "UniqueConstraint('uuid') on consumers", 'present' if oku else
         'missing')
    # the ConsumerExists path in _create_consumer exists (race detection)
    cf = prog.func(CREATE)
    hs = [n for n in own_nodes(cf.node) if isinstance(n, ast.ExceptHandler)
          and 'placement.exception.ConsumerExists' in (
              ctx.raises.handler_types(cf, n) or [])]
    R.ob('R6.3', '_create_consumer:handles-ConsumerExists', len(hs) == 1,
         'the creation race is handled', '%d handlers' % len(hs), func=cf,
         nontrivial=False)


def _checked_dict_params(ctx, f):
    """Parameters of f that every caller binds to the uuid -> consumer dict
    returned (first) by inspect_consumers."""
    INSPECT = 'placement.handlers.allocation:inspect_consumers'
    idx = None
    sites = 0
    for g in ctx.prog.funcs:
        for s_ in ctx.cg.calls_in(g):
            if f not in s_.callees:
                continue
            sites += 1
            here = set()
            for i, a in enumerate(s_.node.args):
                if not isinstance(a, ast.Name):
                    continue
                for n in own_nodes(g.node):
                    if isinstance(n, ast.Assign) and isinstance(
                            n.value, ast.Call) and INSPECT in C.call_name(
                                ctx, g, n.value) and isinstance(
                                    n.targets[0], ast.Tuple) and \
                            n.targets[0].elts and src(
                                n.targets[0].elts[0]) == a.id:
                        here.add(i)
            idx = here if idx is None else (idx & here)
    if not sites or not idx:
        return set()
    return {f.params[i] for i in idx if i < len(f.params)}


def _checked_consumer_names(ctx, f):
    """Names in f bound to a generation-checked consumer."""
    out = set()
    for n in own_nodes(f.node):
        if not isinstance(n, ast.Assign):
            continue
        v = n.value
        if isinstance(v, ast.Call) and ENSURE in C.call_name(ctx, f, v):
            t = n.targets[0]
            if isinstance(t, ast.Tuple) and t.elts and isinstance(
                    t.elts[0], ast.Name):
                out.add(t.elts[0].id)
        if isinstance(v, ast.Subscript) and isinstance(
                v.value, ast.Name) and v.value.id in _checked_dict_params(
                    ctx, f):
            for t in n.targets:
                if isinstance(t, ast.Name):
                    out.add(t.id)
    return out


def _checked_params(ctx, h, reach):
    """Parameters of h that every caller in the write path binds to a
    generation-checked consumer of its own."""
    idx = None
    for g in reach:
        for s_ in ctx.cg.calls_in(g):
            if h not in s_.callees:
                continue
            checked = _checked_consumer_names(ctx, g)
            here = set()
            for i, a in enumerate(s_.node.args):
                if isinstance(a, ast.Name) and a.id in checked:
                    here.add(i)
            for kw in s_.node.keywords:
                if kw.arg in h.params and isinstance(
                        kw.value, ast.Name) and kw.value.id in checked:
                    here.add(h.params.index(kw.arg))
            idx = here if idx is None else (idx & here)
    return {h.params[i] for i in (idx or ()) if i < len(h.params)}


def _rebound(ctx, h, call, reach):
    """The list read by ``call`` is walked by a loop, on every path to the
    normal exit, whose body unconditionally stores a checked consumer into
    ``<element>.consumer`` (before the element is used otherwise)."""
    g = cfgmod.cfg_of(h)
    st = C.stmt_of(call)
    if not (isinstance(st, ast.Assign) and isinstance(
            st.targets[0], ast.Name) and st.value is call):
        return False, 'the re-read list is not bound to a name'
    lst = st.targets[0].id
    checked = _checked_consumer_names(ctx, h) | _checked_params(
        ctx, h, reach)
    good = set()
    for lp in own_nodes(h.node):
        if not (isinstance(lp, ast.For) and src(lp.iter) == lst
                and isinstance(lp.target, ast.Name)):
            continue
        v = lp.target.id
        binds = [b for b in lp.body if isinstance(b, ast.Assign) and any(
            src(t) == '%s.consumer' % v for t in b.targets)
            and isinstance(b.value, ast.Name) and b.value.id in checked]
        if not binds:
            continue
        # nothing hands the element on before it is re-bound
        first = lp.body.index(binds[0])
        early = [x for stx in lp.body[:first] for x in ast.walk(stx)
                 if isinstance(x, ast.Call) and any(
                     isinstance(a, ast.Name) and a.id == v for a in x.args)]
        if not early:
            good.add(lp)
    if not good:
        return False, 'no loop over %s stores a checked consumer (%s) ' \
            'into the elements: they keep the consumer re-read by %s' % (
                lst, sorted(checked), src(call.func))
    if not g.must_pass(st, cfgmod.EXIT, good, normal_only=True):
        return False, 'a path leaves %s without the re-binding loop' % \
            h.name
    return True, 'ok'


def r64(ctx, R):
    prog = ctx.prog
    n = n_reread = 0
    for qb in ('placement.handlers.allocation:_set_allocations_for_consumer',
               'placement.handlers.allocation:create_allocation_list'):
        f = prog.func(qb)
        g = cfgmod.cfg_of(f)
        checked = _checked_consumer_names(ctx, f)
        R.ob('R6.4', '%s:checked-consumer' % f.qbase, bool(checked),
             'the function holds the generation-checked consumer',
             sorted(checked), func=f, nontrivial=False)
        # constructor path
        for s in ctx.cg.calls_in(f):
            if any(c.qbase == 'placement.handlers.allocation:_new_allocations'
                   for c in s.callees):
                n += 1
                callee = [c for c in s.callees if c.qbase ==
                          'placement.handlers.allocation:_new_allocations'][0]
                cparam = None
                for x in own_nodes(callee.node):
                    if isinstance(x, ast.Call) and src(x.func).endswith(
                            'Allocation'):
                        kv = C.kwarg(x, 'consumer')
                        if isinstance(kv, ast.Name) and kv.id in \
                                callee.params:
                            cparam = kv.id
                a = C.arg_for_param(s.node, callee, cparam) if cparam \
                    else None
                ok = isinstance(a, ast.Name) and a.id in checked
                R.ob('R6.4', '%s:new-allocations' % f.qbase, ok,
                     'new Allocation objects carry the checked consumer',
                     src(a) if a is not None else None, func=f, node=s.node)
    # re-read path: every function of the write request path that re-reads
    # a consumer's allocations re-binds each of them to the checked
    # consumer (its own, or the one its callers pass in) before they leave
    from psa.rules import c04
    roots = []
    for qb in c04.ALLOC_WRITERS:
        roots.extend(prog.funcs_named(qb))
    reach = ctx.cg.reachable(roots)
    for h in sorted(reach, key=lambda x: x.qname):
        if not h.module.name.startswith('placement.handlers'):
            continue
        for s in ctx.cg.calls_in(h):
            if not any(c.qbase in GET_ALLOCS for c in s.callees):
                continue
            n_reread += 1
            ok, why = _rebound(ctx, h, s.node, reach)
            R.ob('R6.4', '%s:reread-allocations' % h.qbase, ok,
                 'Allocation objects re-read from the database are '
                 're-bound to the generation-checked consumer before '
                 'they are handed to the write', why, func=h, node=s.node)
    # Allocation objects built from DB rows do carry their own consumer
    ga = prog.func(GET_ALLOCS[0])
    own = any(isinstance(x, ast.Call) and src(x.func).endswith('Consumer')
              for x in own_nodes(ga.node))
    R.ob('R6.4', 'get_all_by_consumer_id:constructs-consumer', own,
         '(premise) the reader constructs a Consumer from the row it read',
         'yes' if own else 'no: premise of the rule is gone', func=ga,
         nontrivial=False)
    # at least one site of each kind (merging the two re-read sites into one
    # helper is not a loss of anchors)
    R.count('R6.4', min(n, 1) + min(n_reread, 1), 2)


def r68(ctx, R, rule='R6.8'):
    """The consumer object an Allocation carries is replaced only by the
    request handlers, and only with the generation-checked consumer (R6.4).
    The object layer never re-binds it: a consumer re-read there (e.g. in
    the provider-conflict retry of replace_all) would make the in-transaction
    compare-and-swap compare the database with itself."""
    prog = ctx.prog
    bad = []
    n = 0
    for f in prog.funcs:
        mn = f.module.name
        if not mn.startswith('placement.objects') and not mn.startswith(
                'placement.handlers'):
            continue
        for x in own_nodes(f.node):
            if isinstance(x, ast.Assign):
                for t in x.targets:
                    if isinstance(t, ast.Attribute) and t.attr == \
                            'consumer' and not (isinstance(
                                t.value, ast.Name) and t.value.id == 'self'):
                        n += 1
                        if not mn.startswith('placement.handlers'):
                            bad.append('%s %s' % (f.loc(x), src(x)[:50]))
    R.ob(rule, 'allocation.consumer:stored-by-handlers-only', not bad,
         'outside its constructor an Allocation\'s consumer is re-bound '
         'only in the handler layer (to the checked consumer, R6.4)',
         bad[:3] or '%d handler sites' % n, loc=None)
    R.count(rule, max(n, 1), 1)


def run(ctx, R):
    c05.cas_shape(ctx, R, 'R6.1', CONS_INCR, 'consumers', 'consumer-cas')
    R.count('R6.1', 1, 1)
    r68(ctx, R)
    r62(ctx, R)
    R.count('R6.2', 1, 1)
    r63(ctx, R)
    r64(ctx, R)
    from psa import sqlshape
    n = sqlshape.shape_rule(ctx, R, 'R6.5', [
        'placement.objects.consumer:_get_consumer_by_uuid',
        'placement.objects.allocation:_get_allocations_by_consumer_uuid'])
    R.count('R6.5', n, 2)
    from psa.rules import genstate
    n = genstate.generation_writers(ctx, R, 'R6.6')
    R.count('R6.6', n, 6)
    n = sqlshape.shape_rule(ctx, R, 'R6.7', [
        CONS_INCR,
        'placement.objects.consumer:Consumer.update>_update_in_db'])
    R.count('R6.7', n, 2)
