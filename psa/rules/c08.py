"""C08 - stored records never dangle; entities in use cannot be removed."""
import ast

from psa import cfg as cfgmod
from psa import model
from psa.model import own_nodes, own_nodes_of, src
from psa.rules import common as C

EXPLANATION = (
    "R8.1: DELETE statements on the FK-less tables exist only in a closed "
    "table of functions. R8.2: each DELETE of an inventory, provider, "
    "resource class or trait is dominated, in the same writer scope, by a "
    "query of the referencing table on the same key whose non-empty result "
    "raises the in-use exception; delete_consumers_if_no_allocations keeps "
    "the 'no allocation row' conjunct. R8.3: deleting a provider first "
    "deletes its inventories and associations. R8.4: ids written into "
    "inventories and associations come from loaded objects / the class "
    "cache, and allocation INSERTs follow the capacity check which raises "
    "for a missing inventory. R8.5: in-use exceptions are answered 409 and "
    "the cannot-delete-standard ones 400 in every handler they can reach.")
ASSUMPTIONS = ["existence of providers named in allocation writes is checked "
               "by the handlers (R4.3 / C15)"]

RPM = 'placement.objects.resource_provider'
DELETE_SITES = {
    'allocations': {
        'placement.objects.allocation:_delete_allocations_for_consumer',
        'placement.objects.allocation:_delete_allocations_by_ids'},
    'inventories': {RPM + ':_delete_inventory_from_provider',
                    RPM + ':ResourceProvider._delete'},
    'resource_providers': {RPM + ':_delete_rp_record'},
    'resource_provider_aggregates': {RPM + ':_set_aggregates',
                                     RPM + ':ResourceProvider._delete'},
    'resource_provider_traits': {RPM + ':_delete_traits_from_provider',
                                 RPM + ':ResourceProvider._delete'},
    'resource_classes': {
        'placement.objects.resource_class:ResourceClass._destroy'},
    'traits': {'placement.objects.trait:Trait._destroy_in_db'},
    'consumers': {
        'placement.objects.consumer:_delete_consumer',
        'placement.objects.consumer:delete_consumers_if_no_allocations'},
    'placement_aggregates': set(),
    'projects': set(), 'users': set(), 'consumer_types': set(),
}
EXC = 'placement.exception.'


def raise_ifs(ctx, f, exc):
    out = []
    for n in own_nodes(f.node):
        if isinstance(n, ast.If) and n.body and isinstance(
                n.body[-1], ast.Raise) and n.body[-1].exc is not None and \
                ctx.raises.exc_name(f, n.body[-1].exc) == exc:
            out.append(n)
    return out


def _value_of_test(f, test):
    """The expression whose truthiness the guard tests (follow one name).
    Only a bare name or a call counts: a compound condition may let a
    non-empty result through."""
    from psa.rules.c05 import single_def
    if not isinstance(test, (ast.Name, ast.Call)):
        return None
    if isinstance(test, ast.Name):
        d = single_def(f, test.id)
        if d is None or (isinstance(d.value, ast.List) and
                         not d.value.elts):
            return _accumulated_from(f, test.id)
        return _same_emptiness(f, d.value)
    return test


def _same_emptiness(f, e, depth=0):
    """e, or the collection e is empty exactly together with: an
    element-wise copy (comprehension without condition, list() / sorted() /
    tuple() / set() of it), a name bound once to such, a list filled by one
    unconditional append per element of a loop."""
    from psa.rules.c05 import single_def
    if depth > 4:
        return e
    if isinstance(e, (ast.ListComp, ast.SetComp, ast.GeneratorExp)) and len(
            e.generators) == 1 and not e.generators[0].ifs:
        return _same_emptiness(f, e.generators[0].iter, depth + 1)
    if isinstance(e, ast.Call) and isinstance(
            e.func, ast.Name) and e.func.id in (
                'list', 'sorted', 'tuple', 'set', 'frozenset') and len(
                    e.args) == 1 and not e.keywords:
        return _same_emptiness(f, e.args[0], depth + 1)
    if isinstance(e, ast.Name) and e.id not in f.params:
        d = single_def(f, e.id)
        if d is not None and d.value is not e and not (
                isinstance(d.value, ast.List) and not d.value.elts):
            return _same_emptiness(f, d.value, depth + 1)
        acc = _accumulated_from(f, e.id, depth + 1)
        if acc is not None:
            return acc
    return e


def _accumulated_from(f, name, depth=0):
    """``name = []`` then, in one loop that is under no condition,
    ``name.append(..)`` under no condition: the iterable of that loop."""
    stores = [n for n in own_nodes(f.node) if isinstance(n, ast.Assign)
              and any(isinstance(t, ast.Name) and t.id == name
                      for t in n.targets)]
    if len(stores) != 1 or not (isinstance(
            stores[0].value, ast.List) and not stores[0].value.elts):
        return None
    adds = [n for n in own_nodes(f.node) if isinstance(n, ast.Call)
            and isinstance(n.func, ast.Attribute)
            and isinstance(n.func.value, ast.Name)
            and n.func.value.id == name]
    if len(adds) != 1 or adds[0].func.attr != 'append':
        return None
    st = C.stmt_of(adds[0])
    lp = getattr(st, '_parent', None)
    if not isinstance(lp, ast.For) or st not in lp.body or lp.orelse or \
            C.guarding_ifs(lp, f.node) or any(
                isinstance(x, (ast.Break, ast.Continue, ast.Return))
                for x in ast.walk(lp)):
        return None
    return _same_emptiness(f, lp.iter, depth + 1)


def _tables_in(ctx, f, e, depth=0):
    ts = set()
    for n in ast.walk(e):
        if isinstance(n, (ast.Name, ast.Attribute)):
            t = ctx.effects.table_of(f, n)
            if t:
                ts.update(t.split('|'))
            elif isinstance(n, ast.Name) and depth < 3:
                from psa.rules.c05 import single_def
                d = single_def(f, n.id)
                if d is not None and d.value is not e:
                    ts |= _tables_in(ctx, f, d.value, depth + 1)
    return ts


def _params_in(f, e, depth=0):
    ps = set()
    for n in ast.walk(e):
        if isinstance(n, ast.Name):
            if n.id in f.params:
                ps.add(n.id)
            elif depth < 3:
                from psa.rules.c05 import single_def
                d = single_def(f, n.id)
                if d is not None and d.value is not e:
                    ps |= _params_in(f, d.value, depth + 1)
    return ps


def guard_rule(ctx, R, rule, q, exc, ref_table, del_table, label,
               del_pred=None):
    """The DELETE on del_table in q is dominated by a guard that queries
    ref_table on a common key and raises exc."""
    f = ctx.prog.func(q)
    g = cfgmod.cfg_of(f)
    dels = [e for e in ctx.effects.direct[f]
            if e.op == 'D' and e.table == del_table]
    if del_pred is not None:
        dels = del_pred(f, dels)
    guards = raise_ifs(ctx, f, exc)
    ok = len(guards) >= 1 and len(dels) >= 1
    R.ob(rule, '%s:guard-exists' % label, ok,
         'a guard raising %s and the DELETE on %s exist' % (
             exc.rsplit('.', 1)[1], del_table),
         'guards=%d deletes=%d' % (len(guards), len(dels)), func=f)
    if not ok:
        return
    gd = guards[0]
    val = _value_of_test(f, gd.test)
    tabs = _tables_in(ctx, f, val) if val is not None else set()
    R.ob(rule, '%s:guard-reads-%s' % (label, ref_table), ref_table in tabs,
         'the guard tests (the bare result of) a query of %s' % ref_table,
         sorted(tabs) if val is not None else 'compound condition: %s' %
         src(gd.test), func=f, node=gd)
    gparams = _params_in(f, val) if val is not None else set()
    for d in dels:
        okd = g.dominates(gd, d.stmt) and not C.guarding_ifs(gd, f.node)
        R.ob(rule, '%s:guard-dominates-delete' % label, okd,
             'the in-use guard dominates the DELETE and is unconditional',
             'ok' if okd else 'a path reaches the DELETE without the guard',
             func=f, node=d.node)
        dparams = _params_in(f, d.build) | _params_in(f, d.node)
        common = (gparams & dparams) - {f.params[0]}
        if not common:
            # different columns of one entity: every key parameter is bound
            # to an attribute of the same object at the only call site
            keys = (gparams | dparams) - {f.params[0]}
            sites = [cs for c in ctx.cg.callers.get(f, ())
                     for cs in ctx.cg.calls_in(c) if f in cs.callees]
            if len(sites) == 1 and keys:
                call = sites[0].node
                # positional or keyword binding alike
                bound = {k: C.arg_for_param(call, f, k) for k in keys}
                objs = set()
                for k in keys:
                    a = bound.get(k)
                    if isinstance(a, ast.Attribute) and isinstance(
                            a.value, ast.Name):
                        objs.add(a.value.id)
                    else:
                        objs.add(None)
                if len(objs) == 1 and None not in objs:
                    common = keys
        R.ob(rule, '%s:same-key' % label, bool(common),
             'guard and DELETE are keyed by the same entity',
             'guard %s delete %s' % (sorted(gparams), sorted(dparams)),
             func=f, node=d.node, nontrivial=False)
    R.ob(rule, '%s:scope' % label, ctx.effects.scope_kind(f) == 'writer' or
         all(ctx.effects.scope_kind(c) == 'writer'
             for c in ctx.cg.callers.get(f, ())),
         'guard and DELETE share one writer scope',
         [d.qname for d in f.decorators], func=f, nontrivial=False)


def inventory_delete_guard(ctx, R, rule):
    guard_rule(ctx, R, rule, RPM + ':_delete_inventory_from_provider',
               EXC + 'InventoryInUse', 'allocations', 'inventories',
               'inventory-delete')
    # _set_inventory's delete branch goes through the guarded helper
    f = ctx.prog.func(RPM + ':_set_inventory')
    cs = C.calls_to(ctx, f, RPM + ':_delete_inventory_from_provider')
    R.ob(rule, '_set_inventory:delete-through-guarded-helper', len(cs) == 1,
         '_set_inventory removes classes through the guarded helper',
         '%d calls' % len(cs), func=f, nontrivial=False)


def r81(ctx, R):
    n = 0
    site_funcs = set()
    for f in ctx.prog.funcs:
        for e in ctx.effects.direct[f]:
            if e.op != 'D':
                continue
            n += 1
            allowed = DELETE_SITES.get(e.table)
            ok = allowed is not None and f.qbase in allowed
            site_funcs.add(f.qbase)
            R.ob('R8.1', 'delete:%s in %s' % (e.table, f.qbase), ok,
                 'DELETE on %s only in %s' % (e.table, sorted(
                     x.split(':')[1] for x in (allowed or []))),
                 f.qname, func=f, node=e.node)
    R.count('R8.1', len(site_funcs), 11)
    # who may call the unguarded helpers
    who = {
        RPM + ':_delete_rp_record': {RPM + ':ResourceProvider._delete'},
        'placement.objects.consumer:_delete_consumer': {
            'placement.objects.consumer:Consumer.delete'},
        'placement.objects.consumer:Consumer.delete': {
            'placement.handlers.allocation:delete_consumers'},
        RPM + ':_delete_traits_from_provider': {RPM + ':_set_traits'},
    }
    for q, allowed in sorted(who.items()):
        f = ctx.prog.func(q)
        cs = {c.qbase for c in ctx.cg.callers.get(f, ())}
        R.ob('R8.1', 'callers:%s' % q.split(':')[1], cs <= allowed,
             'called only from %s' % sorted(x.split(':')[1]
                                            for x in allowed), sorted(cs),
             func=f)


def r82(ctx, R):
    inventory_delete_guard(ctx, R, 'R8.2')
    q = RPM + ':ResourceProvider._delete'
    # provider delete: allocations guard dominates every delete + the record
    f = ctx.prog.func(q)
    g = cfgmod.cfg_of(f)
    rec = C.calls_to(ctx, f, RPM + ':_delete_rp_record')
    R.ob('R8.2', 'provider-delete:record-call', len(rec) == 1,
         'one call deleting the provider row', '%d' % len(rec), func=f)
    for exc, ref in ((EXC + 'ResourceProviderInUse', 'allocations'),
                     (EXC + 'CannotDeleteParentResourceProvider',
                      'resource_providers')):
        guards = [x for x in raise_ifs(ctx, f, exc)
                  if not _in_handler(x, f.node)]
        ok = len(guards) == 1
        R.ob('R8.2', 'provider-delete:guard:%s' % exc.rsplit('.', 1)[1], ok,
             'a guard raises %s' % exc.rsplit('.', 1)[1],
             '%d guards' % len(guards), func=f)
        if not ok:
            continue
        gd = guards[0]
        val = _value_of_test(f, gd.test)
        tabs = set()
        if val is not None:
            tabs = _tables_in(ctx, f, val)
            for c in ast.walk(val):
                if isinstance(c, ast.Call):
                    s = ctx.cg.site_of.get(c)
                    for h in (s.callees if s else []):
                        tabs |= {x[1] for x in ctx.effects.summary(h)
                                 if x[0] == 'R'}
        R.ob('R8.2', 'provider-delete:guard-reads:%s' % ref, ref in tabs,
             'the guard tests a query of %s' % ref, sorted(tabs), func=f,
             node=gd)
        key = f.params[1] if len(f.params) > 1 else None
        R.ob('R8.2', 'provider-delete:guard-key:%s' % ref,
             val is not None and key in _params_in(f, val),
             'the guard is keyed by the provider being deleted',
             src(val)[:70] if val is not None else None, func=f, node=gd,
             nontrivial=False)
        targets = [e.stmt for e in ctx.effects.direct[f] if e.op in 'DU']
        targets += [C.stmt_of(x) for x in rec]
        bad = [t for t in targets if not g.dominates(gd, t)]
        R.ob('R8.2', 'provider-delete:guard-dominates:%s' % ref,
             not bad and not C.guarding_ifs(gd, f.node),
             'the guard dominates every write of the delete transaction',
             ['line %d' % b.lineno for b in bad], func=f, node=gd)
    guard_rule(ctx, R, 'R8.2',
               'placement.objects.resource_class:ResourceClass._destroy',
               EXC + 'ResourceClassInUse', 'inventories', 'resource_classes',
               'class-delete')
    guard_rule(ctx, R, 'R8.2', 'placement.objects.trait:Trait._destroy_in_db',
               EXC + 'TraitInUse', 'resource_provider_traits', 'traits',
               'trait-delete')
    # destroy() passes the identity of the object it was called on
    for q, inner in (
            ('placement.objects.resource_class:ResourceClass.destroy',
             'placement.objects.resource_class:ResourceClass._destroy'),
            ('placement.objects.trait:Trait.destroy',
             'placement.objects.trait:Trait._destroy_in_db')):
        f = ctx.prog.func(q)
        cs = C.calls_to(ctx, f, inner)
        ok = len(cs) == 1 and all(
            src(a).startswith('self.') for a in cs[0].args)
        R.ob('R8.2', '%s:passes-own-identity' % q.split(':')[1], ok,
             'destroy() deletes the object it was called on',
             [src(c) for c in cs], func=f, nontrivial=False)
    # consumers without allocations
    f = ctx.prog.func(
        'placement.objects.consumer:delete_consumers_if_no_allocations')
    dels = [e for e in ctx.effects.direct[f] if e.op == 'D']
    conj = []
    join_ok = False
    for n in own_nodes(f.node):
        if isinstance(n, ast.Call) and isinstance(
                n.func, ast.Attribute) and n.func.attr == 'where':
            from psa.rules.c05 import flatten_and
            for a in n.args:
                conj.extend(flatten_and(a))
        if isinstance(n, ast.Call) and src(n.func).endswith('outerjoin'):
            args = [ctx.effects.table_of(f, a) for a in n.args[:2]]
            cond = src(n.args[2]) if len(n.args) > 2 else ''
            join_ok = args == ['consumers', 'allocations'] and \
                '.uuid ==' in cond and '.consumer_id' in cond
    isnull = [c for c in conj if isinstance(c, ast.Call) and isinstance(
        c.func, ast.Attribute) and c.func.attr == 'is_' and c.args and src(
            c.args[0]) == 'None' and src(c.func.value).endswith(
                '.c.consumer_id') and ctx.effects.table_of(
                    f, c.func.value.value.value) == 'allocations']
    R.ob('R8.2', 'consumers-without-allocations:is-null', bool(isnull)
         and join_ok,
         'the candidates are consumers LEFT JOIN allocations WHERE '
         'allocations.consumer_id IS NULL', [src(c)[:50] for c in conj],
         func=f)
    sel_in = [c for c in conj if isinstance(c, ast.Call) and isinstance(
        c.func, ast.Attribute) and c.func.attr == 'in_']
    names = [src(c.args[0]) for c in sel_in if c.args]
    okd = len(dels) == 1 and f.params[1] in names and any(
        n_ not in f.params for n_ in names)
    # the deleted set is the filtered one, not the caller's list
    dwhere = [c for c in sel_in if c.args and src(c.args[0]) != f.params[1]]
    from psa.rules.c05 import single_def
    okf = False
    if dwhere:
        d = single_def(f, src(dwhere[0].args[0]))
        # (through intermediate names: rows = execute(...).fetchall(); ids =
        # list(map(itemgetter(0), rows)))
        okf = d is not None and 'execute' in src(
            C.inline_locals(f, d.value))
    R.ob('R8.2', 'consumers-without-allocations:delete-filtered', okd and okf,
         'only consumers returned by that query are deleted', names, func=f)
    R.count('R8.2', 1, 1)


def _in_handler(node, stop):
    cur = getattr(node, '_parent', None)
    while cur is not None and cur is not stop:
        if isinstance(cur, ast.ExceptHandler):
            return True
        cur = getattr(cur, '_parent', None)
    return False


def r83(ctx, R):
    q = RPM + ':ResourceProvider._delete'
    f = ctx.prog.func(q)
    g = cfgmod.cfg_of(f)
    rec = C.calls_to(ctx, f, RPM + ':_delete_rp_record')
    if len(rec) != 1:
        R.ob('R8.3', 'provider-delete:record-call', False, 'one call',
             len(rec), func=f)
        return
    rst = C.stmt_of(rec[0])
    key = f.params[1]
    n = 0
    for tbl in ('inventories', 'resource_provider_aggregates',
                'resource_provider_traits'):
        ds = [e for e in ctx.effects.direct[f]
              if e.op == 'D' and e.table == tbl]
        ok = len(ds) >= 1 and all(g.dominates(e.stmt, rst) for e in ds)
        keyed = all(key in C.names_in(e.node) or any(
            key in C.names_in(v) for v in _defs_used(f, e.node))
            for e in ds)
        n += 1
        R.ob('R8.3', 'provider-delete:cascade:%s' % tbl, ok and keyed,
             'rows of %s for the provider are deleted before the provider '
             'row' % tbl, 'deletes=%d keyed=%s' % (len(ds), keyed), func=f,
             node=ds[0].node if ds else rst)
    R.count('R8.3', n, 3)


def _defs_used(f, node):
    out = []
    for nm in C.names_in(node):
        for n in own_nodes(f.node):
            if isinstance(n, ast.Assign) and any(
                    isinstance(t, ast.Name) and t.id == nm
                    for t in n.targets):
                out.append(n.value)
    return out


def r84(ctx, R):
    prog = ctx.prog
    from psa.rules.c05 import single_def
    # class ids come from the class cache (raises for unknown names)
    n = 0
    for q in (RPM + ':_add_inventory', RPM + ':_update_inventory',
              RPM + ':_delete_inventory', RPM + ':_set_inventory'):
        f = prog.func(q)
        ids = [c for c in own_nodes(f.node) if isinstance(c, ast.Call)
               and isinstance(c.func, ast.Attribute)
               and c.func.attr == 'id_from_string'
               and src(c.func.value).endswith('rc_cache')]
        n += 1
        R.ob('R8.4', '%s:class-id-from-cache' % q.split(':')[1], bool(ids),
             'resource class ids are looked up in the class cache, which '
             'raises ResourceClassNotFound for unknown names',
             '%d lookups' % len(ids), func=f)
    # inventory rows are written for the provider object passed in
    f = prog.func(RPM + ':_add_inventory_to_provider')
    vals = [c for c in own_nodes(f.node) if isinstance(c, ast.Call)
            and isinstance(c.func, ast.Attribute) and c.func.attr ==
            'values']
    okv = len(vals) == 1 and src(C.kwarg(vals[0], 'resource_provider_id')
                                 or ast.Constant(None)) == '%s.id' % \
        f.params[1]
    R.ob('R8.4', '_add_inventory_to_provider:provider-id', okv,
         'inventory rows carry the id of the provider object passed in',
         [src(v)[:80] for v in vals], func=f)
    # trait associations: only existing traits reach set_traits
    h = prog.func('placement.handlers.trait:update_traits_for_resource_provider')
    st = []
    targ = None          # the traits argument as spelled in the handler
    for c, _recv, meth in C.mutator_sites(ctx, h):
        if meth != 'set_traits':
            continue
        st.append(c)
        if isinstance(c.func, ast.Attribute) and c.func.attr == meth:
            targ = c.args[0] if c.args else None
        else:
            # through a helper: the helper's parameter that it passes on
            s_ = ctx.cg.site_of.get(c)
            for g_ in (s_.callees if s_ is not None else []):
                for c2, _r2, m2 in C.mutator_sites(ctx, g_, depth=0):
                    if m2 == meth and c2.args and isinstance(
                            c2.args[0], ast.Name) and c2.args[0].id in \
                            g_.params:
                        j = g_.params.index(c2.args[0].id)
                        if j < len(c.args):
                            targ = c.args[j]
    found = targ.id if len(st) == 1 and isinstance(targ, ast.Name) else None

    def _missing_test(t):
        # truth of (requested names - names of the objects found)
        if not isinstance(t, ast.Name) or found is None:
            return False
        d = single_def(h, t.id)
        return d is not None and isinstance(d.value, ast.BinOp) and \
            isinstance(d.value.op, ast.Sub) and C.depends_on(
                h, d.value.right, found) and not C.depends_on(
                    h, d.value.left, found)
    bads = [x for x in own_nodes(h.node) if isinstance(x, ast.If)
            and x.body and isinstance(x.body[-1], ast.Raise)
            and ctx.raises.exc_name(h, x.body[-1].exc) ==
            'webob.exc.HTTPBadRequest' and _missing_test(x.test)]
    okt = len(st) == 1 and bads and cfgmod.cfg_of(h).dominates(
        bads[0], C.stmt_of(st[0]))
    arg_ok = False
    if len(st) == 1 and isinstance(targ, ast.Name):
        d = single_def(h, targ.id)
        arg_ok = d is not None and 'placement.objects.trait:get_all' in \
            C.call_name(ctx, h, d.value) if d is not None and isinstance(
                d.value, ast.Call) else False
    R.ob('R8.4', 'update_traits:only-existing-traits', bool(okt) and arg_ok,
         'traits named in the body are loaded from the database and an '
         'unknown name is rejected before set_traits',
         'guard=%s loaded=%s' % (bool(okt), arg_ok), func=h)
    # aggregate ids come from _ensure_aggregate
    f = prog.func(RPM + ':_set_aggregates')
    ens = C.calls_to(ctx, f, RPM + ':_ensure_aggregate')
    ins = [e for e in ctx.effects.direct[f] if e.op == 'I']
    oka = len(ens) == 1 and len(ins) == 1
    if oka:
        # the id written into the association row derives from the
        # _ensure_aggregate call (whatever builds the collection in between)
        deps = C.Deps(f)
        vals = [k.value for x in own_nodes(f.node)
                if isinstance(x, ast.Call) and isinstance(
                    x.func, ast.Attribute) and x.func.attr == 'values'
                for k in x.keywords if k.arg == 'aggregate_id']
        oka = len(vals) == 1 and deps.reaches(
            vals[0], lambda x: x is ens[0])
    R.ob('R8.4', '_set_aggregates:aggregate-id', oka,
         'association rows use the id returned by _ensure_aggregate',
         '%d ensure calls' % len(ens), func=f)
    # mutator receivers are providers read in the handler (404 otherwise)
    RP_GET = RPM + ':ResourceProvider.get_by_uuid'
    muts = {'add_inventory', 'delete_inventory', 'set_inventory',
            'update_inventory', 'set_traits', 'set_aggregates', 'destroy',
            'save'}
    for hf in C.handler_defs(ctx):
        impl, _ = C.impl_of(ctx, hf)
        for _call, recv, meth in C.mutator_sites(ctx, impl) + [
                (s.node, s.node.func.value, s.method)
                for s in ctx.cg.calls_in(impl)
                if s.method in ('destroy', 'save') and isinstance(
                    s.node.func, ast.Attribute) and any(
                    g.cls is not None and g.cls.name == 'ResourceProvider'
                    for g in s.callees)]:
            if True:
                d = single_def(impl, recv.id) if isinstance(
                    recv, ast.Name) else None
                ok = d is not None and isinstance(d.value, ast.Call) and \
                    RP_GET in C.call_name(ctx, impl, d.value)
                n += 1
                R.ob('R8.4', '%s:%s-on-loaded-provider' % (
                    hf.qname, meth), ok,
                    'the mutator is applied to a provider loaded in this '
                    'request (a missing one is a 404)',
                    src(d.value)[:60] if d is not None else 'unknown '
                    'receiver', func=impl, node=_call, nontrivial=False)
    R.count('R8.4', n, 12)


INUSE_MAP = {
    EXC + 'InventoryInUse': 'webob.exc.HTTPConflict',
    EXC + 'ResourceProviderInUse': 'webob.exc.HTTPConflict',
    EXC + 'CannotDeleteParentResourceProvider': 'webob.exc.HTTPConflict',
    EXC + 'ResourceClassInUse': 'webob.exc.HTTPConflict',
    EXC + 'TraitInUse': 'webob.exc.HTTPConflict',
    EXC + 'ResourceClassCannotDeleteStandard': 'webob.exc.HTTPBadRequest',
    EXC + 'TraitCannotDeleteStandard': 'webob.exc.HTTPBadRequest',
    EXC + 'ResourceClassCannotUpdateStandard': 'webob.exc.HTTPBadRequest',
}


def r85(ctx, R):
    n = 0
    for f in C.handler_defs(ctx):
        n += 1
        esc = ctx.raises.escaping(f)
        reach = ctx.cg.reachable([f])
        layer = [h for h in reach
                 if h.module.name.startswith('placement.handlers.')]
        # which in-use exceptions are raised below this handler at all
        below = set()
        for h in reach:
            for x, node, via in ctx.raises.sites[h]:
                if x in INUSE_MAP and via == 'raise':
                    below.add(x)
        for x in sorted(below):
            R.ob('R8.5', '%s:%s:converted' % (f.qname, x.rsplit('.', 1)[1]),
                 x not in esc,
                 '%s does not leave the handler unconverted' %
                 x.rsplit('.', 1)[1],
                 'escapes' if x in esc else 'converted', func=f,
                 path=ctx.raises.witness(f, x) if x in esc else None)
        for h in layer:
            for node in own_nodes(h.node):
                if not isinstance(node, ast.ExceptHandler):
                    continue
                hts = ctx.raises.handler_types(h, node) or []
                for t in hts:
                    if t not in INUSE_MAP:
                        continue
                    rs = [ctx.raises.exc_name(h, r.exc)
                          for r in own_nodes_of(node)
                          if isinstance(r, ast.Raise) and r.exc is not None]
                    ok = rs == [INUSE_MAP[t]]
                    R.ob('R8.5', '%s:%s:status' % (
                        h.qbase, t.rsplit('.', 1)[1]), ok,
                        'answered with %s' % INUSE_MAP[t].rsplit('.', 1)[1],
                        rs, func=h, node=node)
    R.count('R8.5', n, 42)


def run(ctx, R):
    r81(ctx, R)
    r82(ctx, R)
    r83(ctx, R)
    r84(ctx, R)
    from psa.rules import c01
    c01.r12(ctx, R, 'R8.4')
    # an allocation for a (provider, class) without an inventory row is
    # refused by the capacity check (the obligations of R1.3 that say so)
    n13 = C.reuse_obligations(
        ctx, R, c01.r13, 'R8.4',
        select=lambda o: 'missing-inventory' in o.construct
        or 'guard-on-every-iteration' in o.construct)
    if n13 < 2:
        R.ob('R8.4', 'capacity-check:missing-inventory-refused', False,
             'the capacity check can be shown to refuse an allocation '
             'without an inventory row', 'the check no longer has the '
             'shape R1.3 decides (%d of its obligations found)' % n13)
    R.count('R8.4b', max(n13, 2), 2)
    r85(ctx, R)
    from psa import sqlshape
    n = sqlshape.shape_rule(ctx, R, 'R8.6', [
        RPM + ':_delete_inventory_from_provider',
        RPM + ':_has_child_providers',
        'placement.objects.consumer:delete_consumers_if_no_allocations'])
    R.count('R8.6', n, 3)
    # R8.7: the unconditional Consumer.delete() of the handlers' cleanup is
    # licensed only by a truthful created-new-consumer flag (otherwise a
    # failing request removes the consumer another request's committed
    # allocations refer to)
    from psa.rules import c12
    n7 = C.reuse_obligations(ctx, R, c12.r128, 'R8.7')
    R.count('R8.7', n7, 1)
