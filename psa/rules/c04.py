"""C04 - rejected writes leave no trace; multi-entity writes are atomic."""
import ast

from psa import cfg as cfgmod
from psa import model
from psa.effects import is_core
from psa.model import own_nodes, own_nodes_of, src
from psa.rules import common as C

EXPLANATION = (
    "R4.1: every INSERT/UPDATE/DELETE reachable from a routed handler lies "
    "below a writer-scope function. R4.2: per handler at most one call site "
    "outside any scope leads to a transaction root that writes "
    "invariant-bearing tables; all other roots write only auxiliary tables "
    "(projects, users, consumer types, consumer insert/delete). R4.3: after "
    "consumers have been created for a request, every call that may raise a "
    "project or webob exception lies in a try whose catch-all handler "
    "deletes those consumers and re-raises. R4.4: except clauses below a "
    "writer root that do not re-raise are limited to a table of idempotent "
    "inserts and the bounded allocation retry. R4.5: handlers signal errors "
    "only by raising and convert object-layer exceptions outside the writer "
    "scope.")
ASSUMPTIONS = [
    "a rolled-back transaction restores the prior state (DBMS)",
]

ALLOC_WRITERS = [
    'placement.handlers.allocation:_set_allocations_for_consumer',
    'placement.handlers.allocation:set_allocations',
    'placement.handlers.reshaper:reshape',
]
ENSURE = 'placement.handlers.util:ensure_consumer'
INSPECT = 'placement.handlers.allocation:inspect_consumers'
DELETE_CONSUMERS = 'placement.handlers.allocation:delete_consumers'

# (function qbase, caught type) -> reason
SWALLOW_TABLE = {
    ('placement.objects.resource_provider:_add_traits_to_provider',
     'oslo_db.exception.DBDuplicateEntry'):
        'idempotent association insert; the generation CAS that follows '
        'detects the racing writer',
    ('placement.objects.resource_provider:_set_aggregates',
     'oslo_db.exception.DBDuplicateEntry'):
        'idempotent association insert',
    ('placement.objects.trait:_trait_sync',
     'oslo_db.exception.DBDuplicateEntry'):
        'start-up sync raced by another process: nothing to do',
    ('placement.objects.resource_class:_resource_classes_sync',
     'oslo_db.exception.DBDuplicateEntry'):
        'start-up sync raced by another process: nothing to do',
    ('placement.objects.allocation:replace_all',
     'placement.exception.ResourceProviderConcurrentUpdateDetected'):
        'bounded server-side retry; the while-else re-raises when the '
        'retries are exhausted',
    ('placement.exception:_BaseException.__init__', 'Exception'):
        'message formatting fallback, no stored state involved',
}

# calls after consumer creation whose project exceptions are infeasible
R43_ALLOW = {
    ('placement.objects.allocation:get_all_by_consumer_id',
     'placement.exception.ResourceClassNotFound'):
        'raised only for a stored allocation whose class id is dangling, '
        'which C08 excludes',
}


def root_call_sites(ctx, entry):
    """[(caller, call node, root func)] : call sites in unscoped code
    reachable from entry that enter a scope-decorated function."""
    out = []
    seen = set()
    stack = [entry]
    while stack:
        f = stack.pop()
        if f in seen:
            continue
        seen.add(f)
        for s in ctx.cg.calls_in(f):
            for g in s.callees:
                if ctx.effects.scope_kind(g):
                    out.append((f, s.node, g))
                else:
                    stack.append(g)
    return out


def core_effects(ctx, root):
    return sorted(x for x in ctx.effects.summary(root) if is_core(*x))


def aux_writes(ctx, root):
    return sorted(x for x in ctx.effects.summary(root)
                  if x[0] in 'IUD' and not is_core(*x))


def update_in_create_is_race_only(ctx):
    """The consumer-type update in _create_consumer is reachable only when
    the caller did not require a new consumer (repaired F3 shape): the
    ``consumer.update()`` call is dominated by ``if <param>: raise``."""
    f = ctx.prog.func('placement.handlers.util:_create_consumer')
    ups = [s.node for s in ctx.cg.calls_in(f)
           if any(g.qbase == 'placement.objects.consumer:Consumer.update'
                  for g in s.callees)]
    if not ups:
        return True, 'no consumer.update() in _create_consumer'
    g = cfgmod.cfg_of(f)
    for u in ups:
        ust = C.stmt_of(u)
        ok = False
        for n in own_nodes(f.node):
            if isinstance(n, ast.If) and isinstance(n.test, ast.Name) and \
                    n.test.id in f.params and len(n.body) >= 1 and \
                    isinstance(n.body[-1], ast.Raise) and not n.orelse and \
                    g.dominates(n, ust):
                # the parameter is bound to the 1.28 gate at every call site
                p = n.test.id
                bound = True
                sites = [cs for c in ctx.cg.callers.get(f, ())
                         for cs in ctx.cg.calls_in(c) if f in cs.callees]
                for cs in sites:
                    kv = C.kwarg(cs.node, p)
                    if kv is None and f.params.index(p) < len(cs.node.args):
                        kv = cs.node.args[f.params.index(p)]
                    gate = None
                    if isinstance(kv, ast.Name):
                        from psa.rules.c05 import single_def
                        d = single_def(cs.caller, kv.id)
                        gate = ctx.gates.gate_of(cs.caller, d.value) \
                            if d is not None else None
                    if gate is None or gate.minv != (1, 28):
                        bound = False
                if bound and sites:
                    ok = True
                elif not bound:
                    return False, 'the expect-new parameter is not bound ' \
                        'to the 1.28 gate at its call site'
        if not ok:
            return False, 'consumer.update() at line %d is not behind an ' \
                'expect-new rejection' % u.lineno
    return True, 'ok'


def check_roots(ctx, R, rule, handlers=None):
    """R4.1 + R4.2 for every routed handler. Returns the count."""
    n = 0
    race_ok, race_why = update_in_create_is_race_only(ctx)
    for f in (handlers or C.handler_defs(ctx)):
        uns = ctx.effects.unscoped_writes(f)
        R.ob(rule + '.1' if rule == 'R4' else rule + 'a',
             '%s:writes-in-scope' % f.qname, not uns,
             'every write reachable from the handler is below a writer '
             'scope', '; '.join('%s %s in %s' % (e.op, e.table, e.func.qname)
                                for e in uns[:3]) or 'none', func=f)
        sites = root_call_sites(ctx, f)
        core_sites = []
        for caller, node, root in sites:
            ce = core_effects(ctx, root)
            if not ce:
                continue
            if ctx.effects.scope_kind(root) != 'writer':
                continue
            core_sites.append((caller, node, root, ce))
        if not ctx.effects.write_effects_below(f):
            continue
        n += 1
        # the consumer-type update on the lost creation race
        flagged = []
        for caller, node, root, ce in core_sites:
            if root.qbase == \
                    'placement.objects.consumer:Consumer.update>_update_in_db' \
                    and caller.qbase == \
                    'placement.objects.consumer:Consumer.update':
                pass
            flagged.append((caller, node, root, ce))
        # group by root function + caller chain start
        distinct = {}
        for caller, node, root, ce in flagged:
            distinct.setdefault((caller.qname, node.lineno, root.qname),
                                (caller, node, root, ce))
        items = list(distinct.values())
        # exemption: Consumer.update reached through _create_consumer
        main = []
        for caller, node, root, ce in items:
            if root.qbase.startswith(
                    'placement.objects.consumer:Consumer.update') and \
                    _only_via_create_consumer(ctx, f, caller):
                R.ob(rule + '.2' if rule == 'R4' else rule + 'b',
                     '%s:race-only-update' % f.qname, race_ok,
                     'the consumer-type update outside the main transaction '
                     'is reachable only on the lost-creation-race path of a '
                     'request that did not require a new consumer', race_why,
                     func=caller, node=node)
                continue
            main.append((caller, node, root, ce))
        ok = len(main) <= 1
        # one call site inside a loop is as many transactions as the loop
        # has iterations - unless the loop ends with the first call that
        # returns (a retry loop: break / return right after the call)
        for caller, node, root, ce in main:
            cur = getattr(C.stmt_of(node), '_parent', None)
            st0 = C.stmt_of(node)
            while cur is not None and cur is not caller.node:
                if isinstance(cur, (ast.For, ast.While)):
                    g0 = cfgmod.cfg_of(caller)
                    # normal successors of the call statement inside the
                    # loop: must leave the loop (break/return) before the
                    # next iteration
                    nxt = g0.reachable_from([st0], normal_only=True)
                    again = cur in nxt and not _leaves_loop_first(
                        g0, st0, cur)
                    if again:
                        ok = False
                        R.ob(rule + '.2' if rule == 'R4' else rule + 'b',
                             '%s:core-transaction-per-iteration' % f.qname,
                             False,
                             'a transaction that writes invariant-bearing '
                             'tables is not opened once per element of a '
                             'loop (each iteration would commit on its own)',
                             '%s -> %s in a loop at line %d' % (
                                 caller.loc(node), root.qname, cur.lineno),
                             func=caller, node=node)
                    break
                cur = getattr(cur, '_parent', None)
        if len(main) > 1:
            # mutually exclusive sites in one function are one transaction
            fs = {c.qname for c, _n, _r, _ce in main}
            if len(fs) == 1:
                caller = main[0][0]
                g = cfgmod.cfg_of(caller)
                sts = [C.stmt_of(nn) for _c, nn, _r, _ce in main]
                ok = True
                for i, a in enumerate(sts):
                    for b in sts[i + 1:]:
                        if a is b or b in g.reachable_from(
                                [a], normal_only=True) or a in \
                                g.reachable_from([b], normal_only=True):
                            ok = False
        R.ob(rule + '.2' if rule == 'R4' else rule + 'b',
             '%s:one-core-transaction' % f.qname, ok,
             'at most one transaction of the request writes '
             'invariant-bearing tables',
             '; '.join('%s -> %s %s' % (c.loc(nn), r.qname, ce)
                       for c, nn, r, ce in main) or 'no core write',
             func=main[0][0] if main else f,
             node=main[0][1] if main else None)
    return n


def _leaves_loop_first(g, st, loop):
    """After statement st (normal completion) control leaves ``loop``
    (break / return / raise) before it can reach the loop head again."""
    # the loop head is reachable from st only through statements of the
    # loop body; cut the exits: if the head is still reachable when break
    # and return statements are removed, an iteration can follow
    exits = set()
    for x in ast.walk(loop):
        if isinstance(x, (ast.Break, ast.Return)) and x is not st:
            exits.add(x)
    reach = g.reachable_from([st], removed=exits, normal_only=True)
    return loop not in reach


def _only_via_create_consumer(ctx, handler, caller):
    """caller (Consumer.update) is reached from unscoped code only through
    handlers.util:_create_consumer."""
    tgt = ctx.prog.func('placement.handlers.util:_create_consumer')
    seen = set()
    stack = [handler]
    while stack:
        f = stack.pop()
        if f in seen or f is tgt:
            continue
        seen.add(f)
        for s in ctx.cg.calls_in(f):
            for g in s.callees:
                if g is caller:
                    return False
                if not ctx.effects.scope_kind(g):
                    stack.append(g)
    return True


def cleanup_handler(ctx, f, t):
    """Catch-all handler of try ``t`` that calls delete_consumers and
    re-raises: returns the delete_consumers call or None."""
    for h in t.handlers:
        calls = [n for n in own_nodes_of(h) if isinstance(n, ast.Call)
                 and DELETE_CONSUMERS in C.call_name(ctx, f, n)]
        reraises = any(isinstance(n, ast.With) and cfgmod.is_reraise_with(n)
                       for n in own_nodes_of(h)) or any(
            isinstance(n, ast.Raise) and n.exc is None
            for n in own_nodes_of(h))
        if not cfgmod.handler_is_catch_all(h):
            # a narrower clause in front of the catch-all takes its
            # exceptions away from the clean-up unless it cleans up too
            if not (calls and reraises):
                return None
            continue
        if calls and reraises:
            return calls[0]
    return None


def _project_raises(ctx, f, call):
    return {x for x in ctx.raises.call_raises(f, call)
            if x.startswith('placement.exception.')
            or x.startswith('webob.exc.') or x.startswith('selfattr:')
            or x == 'webob.exc.status_map[]'}


def _only_via_allowed(ctx, c, x, seen=None):
    """Exception x can leave function c only through calls that end in a
    (function, exception) pair of R43_ALLOW: the allow-table is keyed by
    where the exception originates, so wrapping the allowed call in a
    helper changes nothing."""
    if (c.qbase, x) in R43_ALLOW:
        return True
    seen = seen if seen is not None else set()
    if c in seen or len(seen) > 12:
        return False
    seen.add(c)
    found = False
    for y, node, via in ctx.raises.sites.get(c, ()):
        if y != x or via == 'reraise':
            continue
        if via == 'raise':
            return False
        site = ctx.cg.site_of.get(node)
        gs = [g for g in (site.callees if site is not None else [])
              if x in ctx.raises.summary.get(g, ())]
        if not gs:
            return False
        for g in gs:
            if not _only_via_allowed(ctx, g, x, seen):
                return False
            found = True
    return found


def _closure_covered(ctx, impl, g, call=None):
    """A local closure whose body is one try with the cleanup handler - or
    the same function at module level of the handler layer, the list it
    hands to delete_consumers being a parameter bound to a plain name of
    the caller (which name is the business of the cleanup-argument
    obligation)."""
    body = [s for s in g.node.body if not (
        isinstance(s, ast.Expr) and isinstance(s.value, ast.Constant))]
    # statements in front of the try that call nothing cannot fail in a
    # way the request would answer for
    while len(body) > 1 and isinstance(body[0], ast.Assign) and not any(
            isinstance(n, ast.Call) for n in ast.walk(body[0])):
        body = body[1:]
    if not (len(body) == 1 and isinstance(body[0], ast.Try)):
        return False
    dc = cleanup_handler(ctx, g, body[0])
    if dc is None:
        return False
    if g.parent is impl:
        return True
    if call is None or g.parent is not None or not dc.args or not \
            isinstance(dc.args[0], ast.Name) or \
            dc.args[0].id not in g.params:
        return False
    a = C.arg_for_param(call, g, dc.args[0].id)
    return isinstance(a, ast.Name)


def r43(ctx, R, rule='R4.3'):
    prog = ctx.prog
    n = 0
    for qb in ALLOC_WRITERS:
        for impl in prog.funcs_named(qb):
            acq = []
            for s in ctx.cg.calls_in(impl):
                if any(g.qbase in (ENSURE, INSPECT) for g in s.callees):
                    acq.append(s.node)
            n += 1
            if not R.ob(rule, '%s:acquisition' % impl.qname, len(acq) == 1,
                        'one ensure_consumer/inspect_consumers call',
                        '%d' % len(acq), func=impl, nontrivial=False):
                continue
            a_st = C.stmt_of(acq[0])
            g = cfgmod.cfg_of(impl)
            after = g.reachable_from([a_st], normal_only=True) - {a_st}
            for s in ctx.cg.calls_in(impl):
                st = C.stmt_of(s.node)
                if st not in after and not _inside(st, after):
                    continue
                if s.node is acq[0]:
                    continue
                # calls inside except handlers convert after the cleanup
                if _in_except_handler(s.node, impl.node):
                    continue
                exc = _project_raises(ctx, impl, s.node)
                exc = {x for x in exc if not (s.callees and all(
                    _only_via_allowed(ctx, c, x) for c in s.callees
                    if x in ctx.raises.summary.get(c, ())) and any(
                        x in ctx.raises.summary.get(c, ())
                        for c in s.callees))}
                if not exc:
                    continue
                covered = False
                for t in C.enclosing_trys(s.node, impl.node):
                    if cleanup_handler(ctx, impl, t) is not None:
                        covered = True
                if not covered and s.callees and all(
                        _closure_covered(ctx, impl, c, s.node)
                        for c in s.callees):
                    covered = True
                # a try whose only purpose is conversion around a covered
                # closure call
                R.ob(rule, '%s:call:%s' % (
                    impl.qname, '|'.join(sorted(c.qbase.split(':')[1]
                                                for c in s.callees))
                    or src(s.node.func)), covered,
                    'a failing call after consumers were created runs the '
                    'delete_consumers cleanup before the error leaves',
                    'may raise %s outside the cleanup try' % sorted(exc)[:3]
                    if not covered else 'covered', func=impl, node=s.node,
                    path=ctx.raises.witness(
                        s.callees[0], sorted(exc)[0]) if s.callees and
                    not covered else None)
            # raise statements after the acquisition outside handlers
            for r in C.raise_stmts(impl):
                if r not in after or _in_except_handler(r, impl.node):
                    continue
                covered = any(cleanup_handler(ctx, impl, t) is not None
                              for t in C.enclosing_trys(r, impl.node))
                R.ob(rule, '%s:raise@%d' % (impl.qname, r.lineno), covered,
                     'an explicit rejection after consumers were created '
                     'runs the cleanup', src(r)[:60], func=impl, node=r)
            # the cleanup names the consumers this request created
            for c in s_closures(ctx, impl):
                body = c.node.body
                t = [x for x in body if isinstance(x, ast.Try)]
                if not t:
                    continue
                dc = cleanup_handler(ctx, c, t[0])
                if dc is None:
                    continue
                arg = src(dc.args[0]) if dc.args else ''
                acq_tgt = a_st.targets[0] if isinstance(
                    a_st, ast.Assign) else None
                names = [x.id for x in ast.walk(acq_tgt)
                         if isinstance(x, ast.Name)] if acq_tgt is not \
                    None else []
                okn = any(nm in arg for nm in names)
                R.ob(rule, '%s:cleanup-argument' % impl.qname, okn,
                     'delete_consumers() receives what the acquisition '
                     'returned', arg, func=c, node=dc)
    # inspect_consumers: the k-th failure deletes the consumers created so far
    f = prog.func(INSPECT)
    ens = [s.node for s in ctx.cg.calls_in(f)
           if any(g.qbase == ENSURE for g in s.callees)]
    ok = False
    why = '%d ensure_consumer calls' % len(ens)
    if len(ens) == 1:
        dc = None
        for t in C.enclosing_trys(ens[0], f.node):
            dc = dc or cleanup_handler(ctx, f, t)
        why = 'ensure_consumer is not inside a try with the cleanup'
        if dc is not None:
            lst = src(dc.args[0]) if dc.args else ''
            appends = [x for x in own_nodes(f.node) if isinstance(x, ast.Call)
                       and isinstance(x.func, ast.Attribute)
                       and x.func.attr == 'append'
                       and src(x.func.value) == lst]
            rets = [x for x in own_nodes(f.node) if isinstance(x, ast.Return)]
            # the list is returned - itself, or as a field of the record
            # that is returned
            ok = bool(appends) and all(
                lst in src(r.value) or lst.startswith(src(r.value) + '.')
                for r in rets)
            why = 'cleanup list %s, %d appends' % (lst, len(appends))
            # the append is conditional only on the created flag
            for ap in appends:
                ifs = C.guarding_ifs(C.stmt_of(ap), f.node)
                if len(ifs) != 1 or not isinstance(ifs[0][0].test, ast.Name):
                    ok = False
                    why = 'append condition %s' % [src(i[0].test)
                                                   for i in ifs]
    R.ob(rule, 'inspect_consumers:kth-failure', ok,
         'a failure while ensuring the k-th consumer deletes the consumers '
         'created for the first k-1', why, func=f)
    # delete_consumers deletes every element
    dcf = prog.func(DELETE_CONSUMERS)
    loops = [x for x in own_nodes(dcf.node) if isinstance(x, ast.For)]
    okd = len(loops) == 1 and src(loops[0].iter) == dcf.params[0] and any(
        isinstance(x, ast.Call) and isinstance(x.func, ast.Attribute)
        and x.func.attr == 'delete' and src(x.func.value) == src(
            loops[0].target) for x in own_nodes_of(loops[0]))
    whyd = 'loop shape'
    if okd:
        # ... under no condition, and as the first thing that can fail in
        # its iteration (a look at the record first - "is it still ours?" -
        # compares the stored generation with the one a rolled-back write
        # left in the object, and keeps the record of a refused request)
        lp = loops[0]
        dl = [x for x in own_nodes_of(lp) if isinstance(x, ast.Call)
              and isinstance(x.func, ast.Attribute)
              and x.func.attr == 'delete'
              and src(x.func.value) == src(lp.target)]
        st = C.stmt_of(dl[0])
        ifs = C.guarding_ifs(st, lp)
        before = [c_ for c_ in own_nodes_of(lp) if isinstance(c_, ast.Call)
                  and (c_.lineno, c_.col_offset) < (
                      dl[0].lineno, dl[0].col_offset)
                  and not src(c_.func).startswith('LOG.')]
        if ifs or before:
            okd = False
            whyd = 'the delete is conditional on %s / preceded by %s' % (
                [src(i[0].test)[:50] for i in ifs],
                [src(c_)[:50] for c_ in before])
    R.ob(rule, 'delete_consumers:all-elements', okd,
         'delete_consumers() calls .delete() on every consumer passed, '
         'unconditionally', whyd, func=dcf)
    return n


def s_closures(ctx, impl):
    """The handler's local closures, plus the transaction-scoped functions
    of the handler layer it (or one of those closures) calls directly: a
    write closure moved to module level, with the captured values passed as
    arguments, is the same transaction root."""
    out = []
    todo = [impl]
    while todo:
        cur = todo.pop()
        for fs in cur.nested.values():
            for x in fs:
                if x not in out:
                    out.append(x)
                    todo.append(x)
    frontier = [impl] + list(out)
    for _depth in range(3):
        nxt = []
        for g in frontier:
            for s_ in ctx.cg.calls_in(g):
                for c in s_.callees:
                    if c.parent is not None or c in out or c is impl or \
                            not c.module.name.startswith(
                                'placement.handlers'):
                        continue
                    if ctx.effects.scope_kind(c):
                        out.append(c)
                    elif c.module is impl.module and \
                            c.node.name.startswith('_') and any(
                                ctx.effects.scope_kind(d) and
                                d.module is impl.module
                                for s2 in ctx.cg.calls_in(c)
                                for d in s2.callees):
                        # a private helper of the handler's module that
                        # opens the transaction: the closure that used to
                        # wrap the write, moved to module level
                        out.append(c)
                        nxt.append(c)
        frontier = nxt
    return out


def _inside(st, stmts):
    cur = getattr(st, '_parent', None)
    while cur is not None:
        if cur in stmts:
            return True
        cur = getattr(cur, '_parent', None)
    return False


def _in_except_handler(node, stop):
    cur = getattr(node, '_parent', None)
    while cur is not None and cur is not stop:
        if isinstance(cur, ast.ExceptHandler):
            return True
        cur = getattr(cur, '_parent', None)
    return False


def handler_swallows(f, h):
    """The except clause may complete normally (does not re-raise)."""
    g = cfgmod.cfg_of(f)
    if not h.body:
        return True
    inside = set()
    for s in h.body:
        for n in ast.walk(s):
            if isinstance(n, ast.stmt):
                inside.add(n)
    seen = g.reachable_from([h.body[0]], normal_only=True)
    for n in seen:
        if isinstance(n, str):
            if n == cfgmod.EXIT:
                return True
            continue
        if n not in inside:
            return True
    return False


def below_writer_roots(ctx):
    roots = [f for f in ctx.prog.funcs
             if ctx.effects.scope_kind(f) == 'writer']
    return ctx.cg.reachable(roots)


def r44(ctx, R, rule='R4.4'):
    n = 0
    used = set()
    for f in sorted(below_writer_roots(ctx), key=lambda x: x.qname):
        for node in own_nodes(f.node):
            if not isinstance(node, ast.ExceptHandler):
                continue
            n += 1
            hts = ctx.raises.handler_types(f, node) or ['<bare>']
            sw = handler_swallows(f, node)
            if not sw:
                R.ob(rule, '%s:except %s' % (f.qbase, '|'.join(hts)), True,
                     're-raises or converts', 'ok', func=f, node=node,
                     nontrivial=False)
                continue
            keys = [(f.qbase, t) for t in hts]
            ok = all(k in SWALLOW_TABLE for k in keys)
            used.update(k for k in keys if k in SWALLOW_TABLE)
            R.ob(rule, '%s:except %s' % (f.qbase, '|'.join(hts)), ok,
                 'an except clause inside a transaction re-raises, converts '
                 'or is a listed idempotent-insert/retry idiom',
                 'swallows %s' % hts if not ok else
                 'listed: %s' % SWALLOW_TABLE[keys[0]], func=f, node=node)
    return n


def r45(ctx, R, rule='R4.5'):
    n = 0
    for f in C.handler_defs(ctx):
        layer = [h for h in ctx.cg.reachable([f])
                 if h.module.name.startswith('placement.handlers.')]
        for h in layer:
            for node in own_nodes(h.node):
                if isinstance(node, ast.Assign) and any(
                        isinstance(t, ast.Attribute) and t.attr == 'status'
                        for t in node.targets):
                    n += 1
                    v = node.value
                    # status codes chosen from variables are bound to
                    # constants in the same function
                    vals = []
                    if isinstance(v, ast.Constant):
                        vals = [v.value]
                    elif isinstance(v, ast.Name):
                        vals = [d.value.value for d in own_nodes(h.node)
                                if isinstance(d, ast.Assign) and any(
                                    isinstance(t, ast.Name) and t.id == v.id
                                    for t in d.targets) and isinstance(
                                        d.value, ast.Constant)]
                        a = h.node.args
                        for p, dv in zip([x.arg for x in a.args][
                                -len(a.defaults):] if a.defaults else [],
                                a.defaults):
                            if p == v.id and isinstance(dv, ast.Constant):
                                vals.append(dv.value)
                        for s in ctx.cg.callers.get(h, ()):
                            for cs in ctx.cg.calls_in(s):
                                if h in cs.callees:
                                    kv = C.kwarg(cs.node, v.id)
                                    if isinstance(kv, ast.Constant):
                                        vals.append(kv.value)
                    ok = bool(vals) and all(
                        isinstance(x, int) and 200 <= x < 300 for x in vals)
                    R.ob(rule, '%s:status@%s' % (h.qbase, src(node.value)),
                         ok, 'handlers set only success statuses on the '
                         'response object; errors are raised', vals, func=h,
                         node=node, nontrivial=False)
    # writer closures inside handlers contain no try (conversion happens
    # outside the scope, i.e. after rollback)
    for f in ctx.prog.funcs:
        if f.module.name.startswith('placement.handlers.') and \
                ctx.effects.scope_kind(f) == 'writer':
            n += 1
            trys = [x for x in own_nodes(f.node) if isinstance(x, ast.Try)]
            R.ob(rule, '%s:no-try-in-scope' % f.qname, not trys,
                 'the handler-level writer closure does not catch: '
                 'conversion to an HTTP error happens after rollback',
                 '%d try statements' % len(trys), func=f)
    return n


def run(ctx, R):
    n = check_roots(ctx, R, 'R4')
    R.count('R4.2', n, 25)
    n3 = r43(ctx, R)
    R.count('R4.3', n3, 3)
    n4 = r44(ctx, R)
    R.count('R4.4', n4, 8)
    n5 = r45(ctx, R)
    R.count('R4.5', n5, 30)
    from psa import sqlshape
    n6 = sqlshape.shape_rule(ctx, R, 'R4.6', [
        'placement.objects.consumer:_delete_consumer'])
    R.count('R4.6', n6, 1)
