"""C19 - standard traits/classes present and immutable; custom namespaced."""
import ast

from psa import cfg as cfgmod
from psa import model
from psa import regexlang
from psa.model import own_nodes, own_nodes_of, src
from psa.rules import common as C
from psa.rules import c05, c08

EXPLANATION = (
    "R19.1: the name patterns used when creating classes and traits denote "
    "a subset of CUSTOM_[A-Z0-9_]+ anchored at both ends of the string "
    "(regex parsed with re._parser; no string is matched). R19.2: both name "
    "schemas carry maxLength <= 255. R19.3: the validation call dominates "
    "create()/save() in the four creating handlers and the created name is "
    "the validated value. R19.4: destroy/save refuse ids below "
    "MIN_CUSTOM_RESOURCE_CLASS_ID (= 10000) and traits not starting with "
    "CUSTOM_ before the delete; _get_next_id returns >= MIN on every path "
    "and _create_in_db assigns it; an id collision is retried, a name "
    "collision becomes ResourceClassExists. R19.5: status mapping (409 / "
    "idempotent 204). R19.6: loadapp -> update_database -> both ensure_sync; "
    "each sync inserts only the difference with what is stored; standard "
    "class ids are the enumeration index.")
ASSUMPTIONS = ["contents of os-traits / os-resource-classes",
               "jsonschema applies 'pattern' with re.search"]

COMMON = 'placement.schemas.common'
RCM = 'placement.objects.resource_class'
TM = 'placement.objects.trait'
ALLOWED_CHARS = set('ABCDEFGHIJKLMNOPQRSTUVWXYZ0123456789_')


def _origin_name(ctx, value):
    env = ctx.prog.consteval.module_env(COMMON)
    m = ctx.prog.module(COMMON)
    best = None
    for name, sts in m.assigns.items():
        if env.get(name) == value:
            ln = sts[0].lineno
            if best is None or ln < best[0]:
                best = (ln, name)
    return best[1] if best else '<pattern>'


def r191(ctx, R):
    prog = ctx.prog
    rc_schema = prog.const('placement.schemas.resource_class',
                           'POST_RC_SCHEMA_V1_2')
    put_schema = prog.const('placement.schemas.resource_class',
                            'PUT_RC_SCHEMA_V1_2')
    tr_schema = prog.const('placement.schemas.trait', 'CUSTOM_TRAIT')
    pats = {}
    for label, sch in (('POST_RC_SCHEMA_V1_2.name',
                        rc_schema['properties']['name']),
                       ('PUT_RC_SCHEMA_V1_2.name',
                        put_schema['properties']['name']),
                       ('CUSTOM_TRAIT', tr_schema)):
        p = sch.get('pattern')
        if not isinstance(p, str):
            R.ob('R19.1', '%s:has-pattern' % label, False,
                 'the name schema constrains the name with a pattern', p)
            continue
        pats.setdefault(p, []).append(label)
        R.ob('R19.2', '%s:maxLength' % label,
             sch.get('type') == 'string' and isinstance(
                 sch.get('maxLength'), int) and sch['maxLength'] <= 255,
             "type string, maxLength <= 255", {k: sch.get(k) for k in (
                 'type', 'maxLength')})
    n = 0
    for p, labels in sorted(pats.items()):
        n += 1
        cons = '%s:%s' % (COMMON, _origin_name(ctx, p))
        try:
            pf = regexlang.PatternFacts(p)
        except Exception as e:
            raise model.AnalysisError('cannot parse pattern %r: %s' % (p, e))
        R.ob('R19.1', cons + ':start', pf.anchored_at_string_start and not
             pf.top_level_alternation(),
             'anchored at the start of the string', pf.begin_anchor)
        R.ob('R19.1', cons + ':prefix', pf.prefix == 'CUSTOM_',
             "literal prefix 'CUSTOM_'", pf.prefix)
        rep = pf.single_class_repeat()
        okc = rep is not None and rep[2] is not None and rep[2] <= \
            ALLOWED_CHARS and rep[0] >= 1
        R.ob('R19.1', cons + ':alphabet', okc,
             'followed by one or more of A-Z, 0-9, _ only',
             'min=%s class=%s' % (rep[0], ''.join(sorted(rep[2]))[:40]
                                  if rep[2] else None) if rep else
             'body is not a single repeated class')
        R.ob('R19.1', cons, pf.anchored_at_string_end,
             'anchored at the very end of the string (\\Z): "$" also '
             'matches before a trailing newline, so "CUSTOM_A\\n" validates',
             'end anchor %s (used by %s)' % (pf.end_anchor, labels))
    R.count('R19.1', n, 1)


def _validated_before(ctx, R, q, kind, mutator, name_expr_ok):
    prog = ctx.prog
    for f in prog.funcs_named(q) if isinstance(q, str) else [q]:
        g = cfgmod.cfg_of(f)
        if kind == 'jsonschema':
            vcalls = [n for n in own_nodes(f.node) if isinstance(n, ast.Call)
                      and prog.dotted(f.module, n.func, f) ==
                      'jsonschema.validate']
        else:
            vcalls = C.calls_to(ctx, f, 'placement.util:extract_json')
        muts = [s.node for s in ctx.cg.calls_in(f) if s.method == mutator
                and any(x.cls is not None for x in s.callees)]
        ok = len(vcalls) == 1 and len(muts) == 1 and g.dominates(
            C.stmt_of(vcalls[0]), C.stmt_of(muts[0]))
        R.ob('R19.3', '%s:validate-dominates-%s' % (f.qname, mutator), ok,
             'schema validation of the name dominates %s()' % mutator,
             'validate=%d %s=%d' % (len(vcalls), mutator, len(muts)), func=f)
        if not ok:
            continue
        # which schema
        sarg = vcalls[0].args[1] if len(vcalls[0].args) > 1 else None
        d = prog.dotted(f.module, sarg, f) if sarg is not None else None
        sch = None
        if d and '.' in d:
            try:
                sch = prog.const(*d.rsplit('.', 1))
            except model.AnalysisError:
                sch = None
        has_pat = False
        if isinstance(sch, dict):
            node = sch.get('properties', {}).get('name', sch)
            has_pat = isinstance(node.get('pattern'), str) and \
                node['pattern'].startswith('^CUSTOM_')
        R.ob('R19.3', '%s:schema-has-custom-pattern' % f.qname, has_pat,
             'the schema used constrains the name to the CUSTOM_ pattern',
             d, func=f, node=vcalls[0])
        # a ValidationError is converted to 400 (jsonschema.validate form)
        if kind == 'jsonschema':
            trys = C.enclosing_trys(vcalls[0], f.node)
            okt = False
            for t in trys:
                for h in t.handlers:
                    hts = ctx.raises.handler_types(f, h) or []
                    rs = [ctx.raises.exc_name(f, r.exc)
                          for r in own_nodes_of(h)
                          if isinstance(r, ast.Raise) and r.exc is not None]
                    if 'jsonschema.ValidationError' in hts and rs == [
                            'webob.exc.HTTPBadRequest']:
                        okt = True
            R.ob('R19.3', '%s:invalid-name-400' % f.qname, okt,
                 'an invalid name is answered 400', 'handler', func=f)
        R.ob('R19.3', '%s:created-name-is-validated' % f.qname,
             name_expr_ok(f, vcalls[0], muts[0]),
             'the name that is created is the value that was validated',
             src(vcalls[0])[:70], func=f, node=muts[0])


def r193(ctx, R):
    def trait_ok(f, v, m):
        # jsonschema.validate(name, ...) ; Trait(context, name=name)
        nm = src(v.args[0])
        recv = m.func.value
        d = c05.single_def(f, recv.id) if isinstance(recv, ast.Name) else None
        if d is None:
            # assigned twice (get_by_name / constructor): use the ctor
            ds = [n.value for n in own_nodes(f.node)
                  if isinstance(n, ast.Assign) and any(
                      isinstance(t, ast.Name) and t.id == recv.id
                      for t in n.targets) and isinstance(n.value, ast.Call)
                  and src(n.value.func).endswith('Trait')]
            return len(ds) == 1 and src(C.kwarg(ds[0], 'name')) == nm
        return isinstance(d.value, ast.Call) and src(
            C.kwarg(d.value, 'name') or ast.Constant(None)) == nm

    def rc_body_ok(f, v, m):
        st = C.stmt_of(v)
        data = st.targets[0].id if isinstance(st, ast.Assign) else None
        recv = m.func.value
        ds = [n.value for n in own_nodes(f.node)
              if isinstance(n, ast.Assign) and any(
                  isinstance(t, ast.Name) and t.id == recv.id
                  for t in n.targets) and isinstance(n.value, ast.Call)
              and src(n.value.func).endswith('ResourceClass')]
        if ds:
            return all(src(C.kwarg(d, 'name') or ast.Constant(None)) ==
                       "%s['name']" % data for d in ds)
        # rename: rc.name = data['name']
        sets = [n for n in own_nodes(f.node) if isinstance(n, ast.Assign)
                and any(src(t) == '%s.name' % recv.id for t in n.targets)]
        return len(sets) == 1 and src(sets[0].value) == "%s['name']" % data

    def rc_path_ok(f, v, m):
        # extract_json('{"name": "%s"}' % name, ...); ResourceClass(name=name)
        a = v.args[0]
        if not (isinstance(a, ast.BinOp) and isinstance(a.op, ast.Mod)
                and isinstance(a.left, ast.Constant)
                and a.left.value == '{"name": "%s"}'):
            return False
        nm = src(a.right)
        recv = m.func.value
        ds = [n.value for n in own_nodes(f.node)
              if isinstance(n, ast.Assign) and any(
                  isinstance(t, ast.Name) and t.id == recv.id
                  for t in n.targets) and isinstance(n.value, ast.Call)
              and src(n.value.func).endswith('ResourceClass')]
        return bool(ds) and all(src(C.kwarg(d, 'name') or
                                    ast.Constant(None)) == nm for d in ds)

    prog = ctx.prog
    _validated_before(ctx, R, 'placement.handlers.trait:put_trait',
                      'jsonschema', 'create', trait_ok)
    _validated_before(ctx, R,
                      'placement.handlers.resource_class:'
                      'create_resource_class', 'extract', 'create',
                      rc_body_ok)
    for f in prog.funcs_named('placement.handlers.resource_class:'
                              'update_resource_class'):
        if any(s.method == 'save' for s in ctx.cg.calls_in(f)):
            _validated_before(ctx, R, f, 'extract', 'save', rc_body_ok)
        else:
            _validated_before(ctx, R, f, 'extract', 'create', rc_path_ok)
    R.count('R19.3', 4, 4)


def r194(ctx, R):
    prog = ctx.prog
    rc = prog.classes.get(RCM + '.ResourceClass')
    if rc is None:
        raise model.AnalysisError('ResourceClass class not found')
    mn = rc.attrs.get('MIN_CUSTOM_RESOURCE_CLASS_ID')
    R.ob('R19.4', 'MIN_CUSTOM_RESOURCE_CLASS_ID',
         isinstance(mn, ast.Constant) and mn.value == 10000,
         'MIN_CUSTOM_RESOURCE_CLASS_ID == 10000',
         src(mn) if mn is not None else None)
    tc = prog.classes.get(TM + '.Trait')
    ns = tc.attrs.get('CUSTOM_NAMESPACE') if tc else None
    R.ob('R19.4', 'Trait.CUSTOM_NAMESPACE',
         isinstance(ns, ast.Constant) and ns.value == 'CUSTOM_',
         "Trait.CUSTOM_NAMESPACE == 'CUSTOM_'",
         src(ns) if ns is not None else None)
    MIN = 'ResourceClass.MIN_CUSTOM_RESOURCE_CLASS_ID'
    for meth, inner, exc in (
            ('destroy', '_destroy',
             'placement.exception.ResourceClassCannotDeleteStandard'),
            ('save', '_save',
             'placement.exception.ResourceClassCannotUpdateStandard')):
        f = prog.func('%s:ResourceClass.%s' % (RCM, meth))
        g = cfgmod.cfg_of(f)
        guards = [x for x in c08.raise_ifs(ctx, f, exc)
                  if src(x.test).replace(' ', '') in (
                      'self.id<%s' % MIN, '%s>self.id' % MIN,
                      'self.id<self.MIN_CUSTOM_RESOURCE_CLASS_ID')]
        calls = C.calls_to(ctx, f, '%s:ResourceClass.%s' % (RCM, inner))
        ok = len(guards) == 1 and len(calls) == 1 and g.dominates(
            guards[0], C.stmt_of(calls[0])) and not C.guarding_ifs(
                guards[0], f.node)
        R.ob('R19.4', 'ResourceClass.%s:standard-id-refused' % meth, ok,
             'self.id < MIN raises %s before %s' % (
                 exc.rsplit('.', 1)[1], inner),
             [src(x.test) for x in c08.raise_ifs(ctx, f, exc)], func=f)
        callee = prog.func('%s:ResourceClass.%s' % (RCM, inner))
        ida = C.arg_for_param(calls[0], callee, callee.params[1]) if len(
            calls) == 1 and len(callee.params) > 1 else None
        okid = ida is not None and src(ida) == 'self.id'
        if not okid and len(calls) == 1 and isinstance(
                calls[0].func, ast.Attribute) and src(
                    calls[0].func.value) == 'self' and callee.params[:1] \
                == ['self'] and len(callee.params) == 2 and not any(
                    d.qname == 'staticmethod' for d in callee.decorators):
            # an instance method applied to the object itself, handed
            # nothing but the context: the id it filters by is self.id
            ids = {src(C.inline_locals(callee, n.comparators[0]))
                   for n in own_nodes(callee.node)
                   if isinstance(n, ast.Compare) and len(n.ops) == 1
                   and isinstance(n.ops[0], ast.Eq)
                   and src(n.left).endswith('.id')}
            okid = ids == {'self.id'}
        R.ob('R19.4', 'ResourceClass.%s:acts-on-own-id' % meth, okid,
             'the row written is the object\'s own id',
             [src(c) for c in calls], func=f, nontrivial=False)
    f = prog.func(TM + ':Trait.destroy')
    g = cfgmod.cfg_of(f)
    guards = [x for x in c08.raise_ifs(
        ctx, f, 'placement.exception.TraitCannotDeleteStandard')
        if src(x.test).replace(' ', '') in (
            'notself.name.startswith(self.CUSTOM_NAMESPACE)',
            'notself.name.startswith(Trait.CUSTOM_NAMESPACE)')]
    calls = C.calls_to(ctx, f, TM + ':Trait._destroy_in_db')
    ok = len(guards) == 1 and len(calls) == 1 and g.dominates(
        guards[0], C.stmt_of(calls[0])) and not C.guarding_ifs(
            guards[0], f.node)
    R.ob('R19.4', 'Trait.destroy:standard-name-refused', ok,
         'a name not starting with CUSTOM_ raises '
         'TraitCannotDeleteStandard before the delete',
         [src(x.test) for x in c08.raise_ifs(
             ctx, f, 'placement.exception.TraitCannotDeleteStandard')],
         func=f)
    # _get_next_id >= MIN on every path
    f = prog.func(RCM + ':ResourceClass._get_next_id')
    # per path, with the returned value propagated (a value returned
    # directly or through a local, MIN through a local alias)
    from psa import pathval
    from psa import normform
    paths = [p for p in pathval.paths_of(f) if p.end == 'return']
    okr = bool(paths)
    why = []

    def is_min(e):
        return src(e).replace(' ', '') in (
            MIN, 'self.MIN_CUSTOM_RESOURCE_CLASS_ID')
    nz = normform.Normalizer(None, lambda e: 'MIN' if is_min(e) else None,
                             inline=False)
    for p in paths:
        ret = p.stmts[-1]
        val = p.value_at(ret, ret.value) if ret.value is not None else None
        if val is not None and is_min(val):
            why.append('MIN')
            continue
        v = src(val).replace(' ', '') if val is not None else 'None'
        # X + 1 is returned only on paths that decided X >= MIN
        good = False
        if v.endswith('+1'):
            base = v[:-2]
            want = nz.cmp(ast.parse('%s >= %s' % (base, MIN),
                                    mode='eval').body)

            def ge_min(a, pol, want=want):
                c = nz.cmp(a)
                if c is None:
                    return False
                if not pol:
                    c = c.negate()
                return c == want
            good = pathval.holds(p, ge_min)
        why.append('%s %s' % (v, 'ok' if good else 'UNGUARDED'))
        okr = okr and good
    R.ob('R19.4', '_get_next_id:at-least-MIN', okr,
         'every return is MIN or max_id + 1 with max_id >= MIN', why, func=f)
    f = prog.func(RCM + ':ResourceClass._create_in_db')
    ids = [n for n in own_nodes(f.node) if isinstance(n, ast.Assign)
           and any(isinstance(t, ast.Attribute) and t.attr == 'id'
                   for t in n.targets)]
    oka = len(ids) == 1 and isinstance(ids[0].value, ast.Name)
    if oka:
        d = c05.single_def(f, ids[0].value.id)
        oka = d is not None and isinstance(d.value, ast.Call) and \
            RCM + ':ResourceClass._get_next_id' in C.call_name(
                ctx, f, d.value)
        adds = [n for n in own_nodes(f.node) if isinstance(n, ast.Call)
                and isinstance(n.func, ast.Attribute)
                and n.func.attr == 'add']
        oka = oka and len(adds) == 1 and cfgmod.cfg_of(f).dominates(
            ids[0], C.stmt_of(adds[0]))
    R.ob('R19.4', '_create_in_db:assigns-next-id', oka,
         'the new row gets the id returned by _get_next_id before it is '
         'added', [src(i) for i in ids], func=f)
    # create(): namespace / standard-name guards, collision handling
    f = prog.func(RCM + ':ResourceClass.create')
    g = cfgmod.cfg_of(f)
    cs = C.calls_to(ctx, f, RCM + ':ResourceClass._create_in_db')
    g_std = [x for x in c08.raise_ifs(
        ctx, f, 'placement.exception.ResourceClassExists')
        if src(x.test).replace(' ', '') == 'self.nameinorc.STANDARDS']
    g_ns = [x for x in c08.raise_ifs(
        ctx, f, 'placement.exception.ObjectActionError')
        if src(x.test).replace(' ', '') ==
        'notself.name.startswith(orc.CUSTOM_NAMESPACE)']
    ok = len(cs) == 1 and len(g_std) == 1 and len(g_ns) == 1 and all(
        g.dominates(x, C.stmt_of(cs[0])) for x in g_std + g_ns)
    R.ob('R19.4', 'ResourceClass.create:namespace-guards', ok,
         'a standard name raises ResourceClassExists and a name outside '
         'CUSTOM_ raises before the insert',
         'std=%d ns=%d' % (len(g_std), len(g_ns)), func=f)
    okc = False
    why = 'no DBDuplicateEntry handler around the insert'
    if len(cs) == 1:
        for t in C.enclosing_trys(cs[0], f.node):
            for h in t.handlers:
                hts = ctx.raises.handler_types(f, h) or []
                if 'oslo_db.exception.DBDuplicateEntry' not in hts:
                    continue
                # the only raise of the handler is ResourceClassExists, it
                # runs exactly when 'id' is not among the duplicate columns,
                # and otherwise the handler lets the loop go on
                raises_ = [r for r in own_nodes_of(h)
                           if isinstance(r, ast.Raise) and r.exc is not None]
                rs = [ctx.raises.exc_name(f, r.exc) for r in raises_]
                cond = []
                for r in raises_:
                    cond = [ast.unparse(e) + ('' if p else ' [neg]')
                            for e, p in C.conds(r, h, implicit=True)]
                want = ["'id' in %s.columns [neg]" % h.name]
                want2 = ["'id' not in %s.columns" % h.name]
                goes_on = C._terminates(h.body) is False or any(
                    isinstance(x, ast.Continue) for x in own_nodes_of(h))
                okc = rs == ['placement.exception.ResourceClassExists'] \
                    and cond in (want, want2) and goes_on
                why = 'raise %s under %s; loop goes on otherwise: %s' % (
                    rs, cond, goes_on)
    R.ob('R19.4', 'ResourceClass.create:collisions', okc,
         'an id collision is retried, any other duplicate is '
         'ResourceClassExists', why, func=f)
    # bounded retry ending in MaxDBRetriesExceeded
    loops = [n for n in own_nodes(f.node)
             if isinstance(n, (ast.While, ast.For))
             and cs and any(cs[0] is x for x in ast.walk(n))]
    okb = False
    if len(loops) == 1:
        lp = loops[0]
        els = [ctx.raises.exc_name(f, r.exc) for r in lp.orelse
               if isinstance(r, ast.Raise) and r.exc is not None]
        if isinstance(lp, ast.While):
            cnt = src(lp.test)
            dec = [n for n in own_nodes_of(lp)
                   if isinstance(n, ast.AugAssign)
                   and isinstance(n.op, ast.Sub) and src(n.target) == cnt]
            bounded = len(dec) == 1
        else:
            bounded = isinstance(lp.iter, ast.Call) and src(
                lp.iter.func) == 'range'
        brk = [x for x in own_nodes_of(lp) if isinstance(x, ast.Break)]
        okb = bounded and bool(brk) and els == [
            'placement.exception.MaxDBRetriesExceeded']
    R.ob('R19.4', 'ResourceClass.create:bounded-retry', okb,
         'the retry loop is bounded and ends in MaxDBRetriesExceeded',
         '%d loops' % len(loops), func=f, nontrivial=False)
    R.count('R19.4', 1, 1)


def r195(ctx, R):
    prog = ctx.prog
    n = 0
    spec = [
        ('placement.handlers.resource_class:create_resource_class',
         'placement.exception.ResourceClassExists',
         ['webob.exc.HTTPConflict']),
        ('placement.handlers.trait:put_trait',
         'placement.exception.TraitExists', []),
        ('placement.handlers.trait:delete_trait',
         'placement.exception.TraitNotFound', ['webob.exc.HTTPNotFound']),
    ]
    for q, exc, want in spec:
        f = prog.func(q)
        n += 1
        got = None
        for node in own_nodes(f.node):
            if isinstance(node, ast.ExceptHandler) and exc in (
                    ctx.raises.handler_types(f, node) or []):
                got = [ctx.raises.exc_name(f, r.exc)
                       for r in own_nodes_of(node)
                       if isinstance(r, ast.Raise) and r.exc is not None]
        R.ob('R19.5', '%s:%s' % (q.split(':')[1], exc.rsplit('.', 1)[1]),
             got == want, 'handled as %s' % (want or 'idempotent success'),
             got, func=f)
    for f in prog.funcs_named('placement.handlers.resource_class:'
                              'update_resource_class'):
        exc = 'placement.exception.ResourceClassExists'
        got = None
        for node in own_nodes(f.node):
            if isinstance(node, ast.ExceptHandler) and exc in (
                    ctx.raises.handler_types(f, node) or []):
                got = [ctx.raises.exc_name(f, r.exc)
                       for r in own_nodes_of(node)
                       if isinstance(r, ast.Raise) and r.exc is not None]
        is_create = not any(s.method == 'save'
                            for s in ctx.cg.calls_in(f))
        want = [] if is_create else ['webob.exc.HTTPConflict']
        n += 1
        R.ob('R19.5', '%s:ResourceClassExists' % f.qname, got == want,
             'handled as %s' % (want or 'idempotent success'), got, func=f)
    # 201 only after a successful create, 204 otherwise
    for q in ('placement.handlers.trait:put_trait',):
        f = prog.func(q)
        # every place that can put 201 into the response status: a direct
        # store of the constant, or a store into the variable that is later
        # stored into the status - each either follows the successful
        # create() directly, or runs under a flag that is set true only
        # there
        g19 = cfgmod.cfg_of(f)
        cr = [s.node for s in ctx.cg.calls_in(f) if s.method == 'create']

        def is_status(t):
            return isinstance(t, ast.Attribute) and t.attr == 'status' and \
                isinstance(t.value, ast.Attribute) and \
                t.value.attr == 'response'
        svars = {x.value.id for x in own_nodes(f.node)
                 if isinstance(x, ast.Assign) and any(
                     is_status(t) for t in x.targets)
                 and isinstance(x.value, ast.Name)}
        sites201 = [x for x in own_nodes(f.node) if isinstance(x, ast.Assign)
                    and isinstance(x.value, ast.Constant)
                    and x.value.value == 201 and any(
                        is_status(t) or (isinstance(t, ast.Name)
                                         and t.id in svars)
                        for t in x.targets)]
        sites204 = [x for x in own_nodes(f.node) if isinstance(x, ast.Assign)
                    and isinstance(x.value, ast.Constant)
                    and x.value.value == 204 and any(
                        is_status(t) or (isinstance(t, ast.Name)
                                         and t.id in svars)
                        for t in x.targets)]

        def after_create(st):
            if len(cr) != 1 or not g19.dominates(C.stmt_of(cr[0]), st):
                return False
            # not in an except clause of a try whose body holds the create
            # (there the create has failed)
            for t in C.enclosing_trys(cr[0], f.node):
                for h in t.handlers:
                    if any(st is y for y in ast.walk(h)):
                        return False
            return True
        okv = bool(sites201) and bool(sites204) and len(cr) == 1
        vals = []
        for st in sites201:
            if after_create(st):
                vals.append('201 after create()')
                continue
            flags = [e.id for e, pol in C.conds(st, f.node, implicit=True)
                     if pol and isinstance(e, ast.Name)]
            good = False
            for fl in flags:
                trues = [x for x in own_nodes(f.node)
                         if isinstance(x, ast.Assign) and any(
                             isinstance(t, ast.Name) and t.id == fl
                             for t in x.targets)
                         and not (isinstance(x.value, ast.Constant)
                                  and x.value.value is False)]
                if trues and all(isinstance(x.value, ast.Constant)
                                 and x.value.value is True
                                 and after_create(x) for x in trues):
                    good = True
            vals.append('201 under %s: %s' % (flags, good))
            okv = okv and good
        R.ob('R19.5', '%s:201-only-after-create' % q.split(':')[1], okv,
             'status 201 is set only after create() succeeded, 204 '
             'otherwise', vals, func=f)
    R.count('R19.5', n, 5)


def sync_difference(ctx, R, rule):
    prog = ctx.prog
    # trait sync: insert only std - stored
    f = prog.func(TM + ':_trait_sync')
    diff = [n for n in own_nodes(f.node) if isinstance(n, ast.Assign)
            and isinstance(n.value, ast.BinOp) and isinstance(
                n.value.op, ast.Sub)]
    ok = False
    why = 'no set difference'
    if len(diff) == 1:
        need = diff[0].targets[0].id
        l = c05.single_def(f, src(diff[0].value.left))
        r = c05.single_def(f, src(diff[0].value.right))
        ba = [n for n in own_nodes(f.node) if isinstance(n, ast.ListComp)
              and src(n.generators[0].iter) == need]
        ins = [e for e in ctx.effects.direct[f] if e.op == 'I']
        ok = l is not None and 'os_traits.get_traits()' in src(l.value) \
            and r is not None and len(ba) == 1 and len(ins) == 1
        why = '%s = %s' % (need, src(diff[0].value))
        if ok:
            # what is executed is the comprehension over the difference
            ex = ins[0].node
            ok = len(ex.args) > 1 and isinstance(ex.args[1], ast.Name)
            if ok:
                d = c05.single_def(f, ex.args[1].id)
                ok = d is not None and d.value is ba[0]
    R.ob(rule, '_trait_sync:inserts-difference', ok,
         'only standard traits missing from the table are inserted', why,
         func=f)
    f = prog.func(RCM + ':_resource_classes_sync')
    comps = [n for n in own_nodes(f.node) if isinstance(n, ast.ListComp)
             and 'enumerate(orc.STANDARDS)' in src(n.generators[0].iter)]
    ok = False
    why = 'no comprehension over enumerate(orc.STANDARDS)'
    if len(comps) == 1:
        c_ = comps[0]
        tgt = c_.generators[0].target
        idx, nm = (tgt.elts[0].id, tgt.elts[1].id) if isinstance(
            tgt, ast.Tuple) else (None, None)
        elt = c_.elt
        okid = isinstance(elt, ast.Dict) and any(
            isinstance(k, ast.Constant) and k.value == 'id' and src(v) == idx
            for k, v in zip(elt.keys, elt.values))
        cond = [src(x).replace(' ', '') for x in c_.generators[0].ifs]
        okf = len(cond) == 1 and cond[0].startswith('%snotin' % nm)
        ins = [e for e in ctx.effects.direct[f] if e.op == 'I']
        ok = okid and okf and len(ins) == 1
        why = 'id=%s filter=%s' % (okid, cond)
    R.ob(rule, '_resource_classes_sync:inserts-difference-with-index', ok,
         'only standard classes missing from the table are inserted, with '
         'their enumeration index as id', why, func=f)


def r196(ctx, R):
    prog = ctx.prog
    la = prog.func('placement.deploy:loadapp')
    ud = prog.func('placement.deploy:update_database')
    R.ob('R19.6', 'loadapp:calls-update_database',
         len(C.calls_to(ctx, la, ud.qbase)) == 1,
         'loadapp() runs update_database()', '', func=la)
    g = cfgmod.cfg_of(ud)
    for q in (TM + ':ensure_sync', RCM + ':ensure_sync'):
        cs = C.calls_to(ctx, ud, q)
        ok = len(cs) == 1 and g.must_pass(cfgmod.ENTRY, cfgmod.EXIT,
                                          {C.stmt_of(cs[0])})
        R.ob('R19.6', 'update_database:%s' % q, ok,
             'start-up always synchronises the standard names',
             '%d calls' % len(cs), func=ud)
    for q, inner in ((TM + ':ensure_sync', TM + ':_trait_sync'),
                     (RCM + ':ensure_sync', RCM + ':_resource_classes_sync')):
        f = prog.func(q)
        cs = C.calls_to(ctx, f, inner)
        R.ob('R19.6', '%s:calls-sync' % q, len(cs) == 1,
             'ensure_sync calls the sync function', len(cs), func=f,
             nontrivial=False)
    sync_difference(ctx, R, 'R19.6')
    R.count('R19.6', 1, 1)


def run(ctx, R):
    r191(ctx, R)
    r193(ctx, R)
    r194(ctx, R)
    r195(ctx, R)
    r196(ctx, R)


def r197(ctx, R):
    """ensure_sync runs the sync once: guarded by 'not <flag>' under the
    lock, flag set only after the sync returned."""
    prog = ctx.prog
    for q, inner, flag in (
            (TM + ':ensure_sync', TM + ':_trait_sync', '_TRAITS_SYNCED'),
            (RCM + ':ensure_sync', RCM + ':_resource_classes_sync',
             '_RESOURCE_CLASSES_SYNCED')):
        f = prog.func(q)
        g = cfgmod.cfg_of(f)
        calls = C.calls_to(ctx, f, inner)
        sets = [n for n in own_nodes(f.node) if isinstance(n, ast.Assign)
                and any(src(t) == flag for t in n.targets)]
        ok = len(calls) == 1 and len(sets) >= 1
        why = 'calls=%d flag-stores=%d' % (len(calls), len(sets))
        if ok:
            # per path through ensure_sync: the sync runs exactly on the
            # paths that found the flag unset, and on those the flag is
            # raised (to True) after the call returned - whatever the shape
            # of the test (nested if, guard clause with early return)
            from psa import pathval
            cst = C.stmt_of(calls[0])
            paths = [p for p in pathval.paths_of(f) if p.end != 'raise']

            def flag_is(a, pol, want):
                return isinstance(a, ast.Name) and a.id == flag and \
                    pol == want
            bad = []
            n_sync = 0
            for p in paths:
                ran = p.passed(cst)
                unset = pathval.holds(p, lambda a, pol: flag_is(a, pol,
                                                                False))
                was_set = pathval.holds(p, lambda a, pol: flag_is(a, pol,
                                                                 True))
                if ran:
                    n_sync += 1
                    idx = [i for i, x in enumerate(p.stmts) if x is cst][-1]
                    after = [x for x in p.stmts[idx + 1:] if any(
                        x is s_ for s_ in sets)]
                    before = [x for x in p.stmts[:idx] if any(
                        x is s_ for s_ in sets)]
                    good = unset and after and not before and all(
                        isinstance(x.value, ast.Constant) and
                        x.value.value is True for x in after)
                    if not good:
                        bad.append('sync on a path where flag unset=%s, '
                                   'raised after=%s, before=%s' % (
                                       unset, bool(after), bool(before)))
                elif not was_set:
                    bad.append('a path skips the sync without having '
                               'found the flag set')
            init = prog.const(f.module.name, flag)
            ok = not bad and n_sync >= 1 and init is False
            why = bad[:2] or 'sync on %d of %d paths, initial %r' % (
                n_sync, len(paths), init)
        R.ob('R19.6', '%s:once-flag' % q.split(':')[0].rsplit('.', 1)[1],
             ok, 'the start-up sync runs when the process-wide flag is '
             'unset and the flag is raised only after it returned', why,
             func=f)


_run_c19 = run


def run(ctx, R):
    _run_c19(ctx, R)
    r197(ctx, R)


def r198(ctx, R):
    """The start-up sync inserts what is missing: in _trait_sync and
    _resource_classes_sync the INSERT is reached on every path on which the
    batch of missing names is non-empty - the only condition on the way to
    it is the batch itself (no shortcut decided by a row count or anything
    else that custom names can satisfy)."""
    prog = ctx.prog
    n = 0
    for q in (TM + ':_trait_sync', RCM + ':_resource_classes_sync'):
        f = prog.func(q)
        ins = [e for e in ctx.effects.direct.get(f, ()) if e.op == 'I']
        rets = [r for r in own_nodes(f.node) if isinstance(r, ast.Return)]
        ok = len(ins) == 1
        why = 'inserts=%d' % len(ins)
        if ok:
            n += 1
            st = ins[0].stmt
            conds = C.conds(st, f.node, implicit=True)
            # the batch handed to execute(): its name
            batch = None
            for c in ast.walk(st):
                if isinstance(c, ast.Call) and isinstance(
                        c.func, ast.Attribute) and c.func.attr == 'execute' \
                        and len(c.args) == 2 and isinstance(
                            c.args[1], ast.Name):
                    batch = c.args[1].id
            deps = C.Deps(f)

            def is_batch(e):
                # the batch itself, or the collection it is built from
                if not isinstance(e, ast.Name) or batch is None:
                    return False
                if e.id == batch:
                    return True
                return deps.reaches(
                    ast.Name(id=batch, ctx=ast.Load()),
                    lambda x: isinstance(x, ast.Name) and x.id == e.id) \
                    and not deps.reaches(e, lambda x: isinstance(
                        x, ast.Call) and isinstance(
                            x.func, ast.Attribute) and x.func.attr in (
                                'count', 'scalar'))
            bad = [('' if pol else 'not ') + src(e) for e, pol in conds
                   if not is_batch(e)]
            ok = batch is not None and not bad
            why = bad or 'guarded by the batch (%s) only' % batch
        R.ob('R19.6', '%s:inserts-whatever-is-missing' % q.split(':')[1], ok,
             'the only condition between the computation of the missing '
             'names and their INSERT is that there are some', why, func=f)
    R.count('R19.6', n, 2)


_run_c19b = run


def run(ctx, R):
    _run_c19b(ctx, R)
    r198(ctx, R)
