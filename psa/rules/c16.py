"""C16 - every operation is authenticated and authorised before any effect."""
import ast

from psa import cfg as cfgmod
from psa import model
from psa.model import own_nodes, own_nodes_of, src, CallRec
from psa.rules import common as C
from psa.rules import c05

EXPLANATION = (
    "Static rules R16.1-R16.4 over the resolved program model: (R16.1) the "
    "route table, the DocumentedRuleDefault operations and the rule constant "
    "passed to the single context.can() of every handler definition are in "
    "bijection; (R16.2) on every path of a handler only pure accessors "
    "precede can() and every normal path passes it; decorators that may "
    "answer first are limited to those producing 404/405/406/415; (R16.3) "
    "default check strings equal the stated defaults and no other role test "
    "exists; (R16.4) deploy() wraps the application in the auth and context "
    "middleware on both strategy branches, the only unauthenticated "
    "PATH_INFO literals are '/' and '' which route to the only handler "
    "without can(), and PolicyNotAuthorized is mapped to 403.")
ASSUMPTIONS = [
    "oslo.policy evaluates check strings as documented; keystonemiddleware "
    "rejects requests without valid credentials",
]

POLICY_MODULES = ['aggregate', 'allocation', 'allocation_candidate',
                  'inventory', 'reshaper', 'resource_class',
                  'resource_provider', 'trait', 'usage']
BASE_RULES = {
    'admin_api': 'role:admin',
    'service_api': 'role:service',
    'admin_or_service_api': 'role:admin or role:service',
    'project_reader_api': 'role:reader and project_id:%(project_id)s',
    'admin_or_project_reader_or_service_api':
        'role:admin or rule:project_reader_api or role:service',
}
DEFAULT_CHECK = 'rule:admin_or_service_api'
SPECIAL_CHECK = {
    ('POST', '/reshaper'): 'rule:service_api',
    ('GET', '/usages'): 'rule:admin_or_project_reader_or_service_api',
}
ALLOWED_DECORATORS = {
    C.WSGIFY, C.VERSION_HANDLER, 'placement.util.check_accept',
    'placement.util.require_content',
}
ROOT = ('/', '')


def policy_rules(ctx):
    """[(module, CallRec)] of every DocumentedRuleDefault."""
    out = []
    for pm in POLICY_MODULES:
        modname = 'placement.policies.%s' % pm
        rules = ctx.prog.const(modname, 'rules')
        if not isinstance(rules, list):
            raise model.AnalysisError('%s.rules is not a constant list'
                                      % modname)
        for r in rules:
            if not isinstance(r, CallRec):
                raise model.AnalysisError('%s.rules: element not a rule '
                                          'constructor' % modname)
            out.append((modname, r))
    return out


def _rule_field(r, name, pos):
    if name in r.kwargs:
        return r.kwargs[name]
    if len(r.args) > pos:
        return r.args[pos]
    return None


def can_calls(ctx, f):
    return C.calls_to(ctx, f, 'placement.context:RequestContext.can')


def chain_can_calls(ctx, f):
    """(function, can() call) pairs over a handler and its delegate."""
    impl, _c = C.impl_of(ctx, f)
    out = [(f, c) for c in can_calls(ctx, f)]
    if impl is not f:
        out += [(impl, c) for c in can_calls(ctx, impl)]
    return out


def _is_pure_accessor(ctx, f, call):
    names = C.call_name(ctx, f, call)
    if 'placement.util:wsgi_path_item' in names:
        return True
    fn = call.func
    if isinstance(fn, ast.Attribute) and fn.attr == 'get':
        recv = fn.value
        # req.GET.get / req.environ.get / environ.get
        if isinstance(recv, ast.Attribute) and recv.attr in (
                'GET', 'environ') and isinstance(recv.value, ast.Name):
            return True
        if isinstance(recv, ast.Name) and recv.id == 'environ':
            return True
    return False


def run(ctx, R):
    prog = ctx.prog
    routes = C.routes(ctx)
    ops = [(p, m, fs) for p, m, fs in routes if p not in ROOT]
    rules = policy_rules(ctx)

    # ---- R16.1 bijection ------------------------------------------------
    by_op = {}
    names = {}
    for modname, r in rules:
        R.ob('R16.1', 'rule-class:%s' % _rule_field(r, 'name', 0),
             r.func == 'oslo_policy.policy.DocumentedRuleDefault',
             'DocumentedRuleDefault', r.func, nontrivial=False)
        name = _rule_field(r, 'name', 0)
        opers = _rule_field(r, 'operations', 3)
        if not isinstance(name, str) or not isinstance(opers, list):
            raise model.AnalysisError('%s: rule name/operations not constant'
                                      % modname)
        names.setdefault(name, []).append(modname)
        for o in opers:
            by_op.setdefault((o.get('method'), o.get('path')), []).append(
                (name, r))
    for name, mods in sorted(names.items()):
        R.ob('R16.1', 'rule-name:%s' % name, len(mods) == 1,
             'policy rule names are unique', 'defined in %s' % mods,
             nontrivial=False)
    route_keys = {(m, p) for p, m, fs in ops}
    for key in sorted(by_op):
        R.ob('R16.1', 'operation:%s %s' % key, key in route_keys,
             'every documented operation is a declared route',
             'declared' if key in route_keys else 'no such route',
             nontrivial=False)
    n_ops = 0
    for path, meth, fs in ops:
        n_ops += 1
        cons = 'route:%s %s' % (meth, path)
        got = by_op.get((meth, path), [])
        ok = R.ob('R16.1', cons, len(got) == 1,
                  'exactly one policy rule documents this operation',
                  '%d rules: %s' % (len(got), [g[0] for g in got]))
        rule_name = got[0][0] if got else None
        for f in fs:
            impl, _ = C.impl_of(ctx, f)
            chain = chain_can_calls(ctx, f)
            hc = 'handler:%s' % f.qname
            if not R.ob('R16.1', hc, len(chain) == 1,
                        'exactly one context.can() in the handler',
                        '%d can() calls in %s' % (len(chain), impl.qname),
                        func=impl):
                continue
            impl, call = chain[0]
            arg = call.args[0] if call.args else C.kwarg(call, 'action')
            val = C.const_str(ctx, impl, arg)
            R.ob('R16.1', hc + ':rule', val is not None and val == rule_name,
                 'can(%s) names the rule documented for %s %s' % (
                     rule_name, meth, path),
                 'can(%s) = %r' % (src(arg) if arg is not None else '', val),
                 func=impl, node=call)
            fatal = C.kwarg(call, 'fatal')
            if len(call.args) > 2:
                fatal = call.args[2]
            R.ob('R16.1', hc + ':fatal', fatal is None or (
                isinstance(fatal, ast.Constant) and fatal.value is True),
                'can() is fatal', src(fatal) if fatal is not None else
                'default', func=impl, node=call, nontrivial=False)
    R.count('R16.1', n_ops, 35)

    # policies.list_rules() chains every module
    lr = prog.func('placement.policies:list_rules')
    chained = set()
    for n in own_nodes(lr.node):
        if isinstance(n, ast.Call):
            d = prog.dotted(lr.module, n.func, lr)
            if d and d.endswith('.list_rules'):
                chained.add(d.rsplit('.', 1)[0])
            elif isinstance(n.func, ast.Attribute) and n.func.attr == \
                    'list_rules' and isinstance(n.func.value, ast.Name):
                # <m>.list_rules() for m in <constant collection of the
                # policy modules>
                it = None
                for x in ast.walk(lr.node):
                    gens = x.generators if isinstance(x, (
                        ast.GeneratorExp, ast.ListComp, ast.SetComp)) else (
                        [x] if isinstance(x, ast.For) else [])
                    for g_ in gens:
                        if isinstance(g_.target, ast.Name) and \
                                g_.target.id == n.func.value.id:
                            it = g_.iter
                dd = prog.dotted(lr.module, it, lr) if it is not None \
                    else None
                if dd and '.' in dd:
                    try:
                        val = prog.const(*dd.rsplit('.', 1))
                    except model.AnalysisError:
                        val = None
                    for v in val if isinstance(val, (list, tuple)) else []:
                        if isinstance(v, model._ModRef):
                            chained.add(v.name)
    for pm in POLICY_MODULES + ['base']:
        mn = 'placement.policies.%s' % pm
        R.ob('R16.1', 'list_rules:%s' % pm, mn in chained,
             'policies.list_rules() registers %s' % mn,
             'registered' if mn in chained else 'missing', func=lr,
             nontrivial=False)
        lrf = prog.func('%s:list_rules' % mn)
        rets = [n for n in own_nodes(lrf.node) if isinstance(n, ast.Return)]
        okr = len(rets) == 1 and isinstance(rets[0].value, ast.Name) and \
            rets[0].value.id == 'rules'
        R.ob('R16.1', 'list_rules-returns:%s' % pm, okr,
             'list_rules() returns the module rule list',
             src(rets[0].value) if rets else 'no return', func=lrf,
             nontrivial=False)
    init = prog.func('placement.policy:init')
    reg = [n for n in own_nodes(init.node) if isinstance(n, ast.Call)
           and isinstance(n.func, ast.Attribute)
           and n.func.attr == 'register_defaults']
    okreg = len(reg) == 1 and 'list_rules' in src(reg[0])
    R.ob('R16.1', 'policy.init:register_defaults', okreg,
         'the enforcer registers policies.list_rules()',
         src(reg[0]) if reg else 'no register_defaults call', func=init,
         nontrivial=False)

    # ---- R16.2 precedence ---------------------------------------------------
    n_prec = 0
    for f in C.handler_defs(ctx):
        if any(p in ROOT for p, m in C.routes_of(ctx, f)):
            continue
        n_prec += 1
        hc = 'handler:%s' % f.qname
        bad = [d.qname for d in f.decorators
               if d.qname not in ALLOWED_DECORATORS]
        R.ob('R16.2', hc + ':decorators', not bad,
             'only decorators answering 404/405/406/415 may precede the '
             'handler body', 'unexpected decorators %s' % bad, func=f)
        impl, dcall = C.impl_of(ctx, f)
        chain = chain_can_calls(ctx, f)
        if len(chain) != 1:
            continue
        # the function of the chain that authorises (a wrapper whose only
        # other statement is the delegation, or the implementation)
        impl, call0 = chain[0]
        calls = [call0]
        S = C.stmt_of(calls[0])
        g = cfgmod.cfg_of(impl)
        before = g.reachable_from([cfgmod.ENTRY], removed={S})
        offending = []
        for st in g.stmts:
            if st not in before or st is S:
                continue
            if isinstance(st, ast.Raise):
                offending.append((st, 'raise before can()'))
                continue
            if isinstance(st, ast.Return):
                offending.append((st, 'return before can()'))
                continue
            for n in cfgmod.header_nodes(st):
                if isinstance(n, ast.Call) and not _is_pure_accessor(
                        ctx, impl, n):
                    offending.append((n, 'call %s before can()'
                                      % src(n.func)))
        # the can() statement itself must not evaluate anything else first
        for n in cfgmod.header_nodes(S):
            if isinstance(n, ast.Call) and n is not calls[0] and not \
                    _is_pure_accessor(ctx, impl, n):
                offending.append((n, 'call %s in the can() statement'
                                  % src(n.func)))
        R.ob('R16.2', hc + ':precedence', not offending,
             'only pure accessors (req.environ[], wsgi_path_item, '
             'req.GET.get) precede can()',
             '; '.join('%s at line %d' % (why, n.lineno)
                       for n, why in offending[:4]) or 'ok',
             func=impl, node=offending[0][0] if offending else calls[0])
        allpass = g.must_pass(cfgmod.ENTRY, cfgmod.EXIT, {S})
        R.ob('R16.2', hc + ':all-paths', allpass,
             'every path to a normal return passes can()',
             'a path reaches return without can()' if not allpass else 'ok',
             func=impl, node=calls[0])
        if dcall is not None:
            # wrapper: nothing but the delegation
            R.ob('R16.2', hc + ':wrapper', True,
                 'wrapper only delegates', 'ok', func=f, nontrivial=False)
    R.count('R16.2', n_prec, 40)

    # ---- R16.3 defaults -----------------------------------------------------
    base_rules = prog.const('placement.policies.base', 'rules')
    seen_base = {}
    for r in base_rules:
        if isinstance(r, CallRec):
            seen_base[_rule_field(r, 'name', 0)] = _rule_field(
                r, 'check_str', 1)
    for name, want in sorted(BASE_RULES.items()):
        R.ob('R16.3', 'base-rule:%s' % name, seen_base.get(name) == want,
             'check string %r' % want, repr(seen_base.get(name)))
    n_def = 0
    for (meth, path), lst in sorted(by_op.items()):
        for name, r in lst:
            n_def += 1
            want = SPECIAL_CHECK.get((meth, path), DEFAULT_CHECK)
            got = _rule_field(r, 'check_str', 1)
            R.ob('R16.3', 'default:%s %s' % (meth, path), got == want,
                 'default check string %r' % want, repr(got))
    R.count('R16.3', n_def, 35)
    # GET /usages target
    for path, meth, fs in ops:
        if (meth, path) != ('GET', '/usages'):
            continue
        for f in fs:
            chain = chain_can_calls(ctx, f)
            if len(chain) != 1:
                continue
            impl, call0 = chain[0]
            calls = [call0]
            tgt = C.kwarg(calls[0], 'target')
            ok = False
            found = src(tgt) if tgt is not None else 'no target'
            if isinstance(tgt, ast.Dict) and len(tgt.keys) == 1 and \
                    isinstance(tgt.keys[0], ast.Constant) and \
                    tgt.keys[0].value == 'project_id':
                v = tgt.values[0]
                if isinstance(v, ast.Name):
                    # bound from req.GET.get('project_id') (or None)
                    defs = [n.value for n in own_nodes(impl.node)
                            if isinstance(n, ast.Assign) and any(
                                isinstance(t, ast.Name) and t.id == v.id
                                for t in n.targets)]
                    gets = [d for d in defs if isinstance(d, ast.Call)
                            and isinstance(d.func, ast.Attribute)
                            and d.func.attr == 'get' and d.args
                            and isinstance(d.args[0], ast.Constant)
                            and d.args[0].value == 'project_id'
                            and 'GET' in src(d.func)]
                    others = [d for d in defs if d not in gets and not (
                        isinstance(d, ast.Constant) and d.value is None)
                        and not isinstance(d, ast.Name)]
                    ok = bool(gets) and not others
            R.ob('R16.3', 'usages-target:%s' % f.qname, ok,
                 "can(TOTAL_USAGES, target={'project_id': <query "
                 "project_id>})", found, func=impl, node=calls[0])
    # who-may-test-roles: no role test outside auth/context/policy
    role_uses = []
    for m in prog.modules.values():
        if m.name in ('placement.auth', 'placement.context',
                      'placement.policy', 'placement.requestlog') or \
                m.name.startswith('placement.policies'):
            continue
        for n in ast.walk(m.tree):
            if isinstance(n, ast.Attribute) and n.attr in (
                    'roles', 'is_admin', 'is_admin_project', 'system_scope'):
                role_uses.append('%s:%d %s' % (m.relpath, n.lineno, src(n)))
    R.ob('R16.3', 'who-may-test-roles', not role_uses,
         'authorisation decisions are taken only through context.can()',
         '; '.join(role_uses[:3]) or 'none')

    # ---- R16.4 authentication wiring -----------------------------------------
    _deploy_rules(ctx, R)
    _auth_rules(ctx, R)
    _forbidden_rule(ctx, R)
    _can_shape(ctx, R)
    # root is the only handler without can
    for path, meth, fs in routes:
        if path in ROOT:
            for f in fs:
                R.ob('R16.4', 'root-route:%r' % path,
                     f.qbase == 'placement.handlers.root:home' and
                     meth == 'GET',
                     "'/' and '' route only GET to root.home", '%s %s' % (
                         meth, f.qname), func=f)
                eff = [e for e in ctx.effects.write_effects_below(f)]
                reads = [x for x in ctx.effects.summary(f)]
                R.ob('R16.4', 'root-handler-no-data:%r' % path,
                     not eff and not reads,
                     'the unauthenticated handler touches no stored data',
                     '%s' % sorted(reads)[:4], func=f)
    R.count('R16.4', 1, 1)


def _deploy_rules(ctx, R):
    P = C.pipeline(ctx)
    f = P.func
    AUTH = ['placement.auth.NoAuthMiddleware', 'placement.auth.filter_factory']
    CTX = ['placement.auth.PlacementKeystoneContext']
    # the variable holding the auth middleware: the one whose values are
    # the two auth classes
    am_names = [k for k, vs in P.values.items() if set(vs) & set(AUTH)]
    am = P.assigns.get(am_names[0], []) if len(am_names) == 1 else []
    vals = P.values.get(am_names[0], []) if len(am_names) == 1 else \
        sorted(am_names)
    ok = vals == AUTH
    branch_ok = False
    if len(am) == 2:
        ifs0 = C.guarding_ifs(am[0], f.node)
        ifs1 = C.guarding_ifs(am[1], f.node)
        branch_ok = bool(ifs0) and bool(ifs1) and ifs0[0][0] is ifs1[0][0] \
            and {ifs0[0][1], ifs1[0][1]} == {'body', 'orelse'}
    R.ob('R16.4', 'deploy:auth_middleware', ok and branch_ok,
         'the auth middleware is NoAuthMiddleware or the keystone filter on '
         'the two branches of the strategy switch',
         '%s (both branches: %s)' % (vals, branch_ok), func=f)
    ipos, apos = P.position(CTX[0]), P.position(AUTH[0])
    okc = ipos is not None and P.order[ipos][1] == CTX
    R.ob('R16.4', 'deploy:context_middleware', okc,
         'one of the wrapped middlewares is auth.PlacementKeystoneContext '
         '(and nothing else)', P.order[ipos][1] if ipos is not None
         else 'not in the wrapped tuple', func=f)
    found = 'order %s' % [vs for _n, vs in P.order]
    okl = P.loop is not None and P.loop_ok and ipos is not None and \
        apos is not None and P.order[apos][1] == AUTH
    R.ob('R16.4', 'deploy:wrapping', okl,
         'app = middleware(app) for a tuple containing the auth and context '
         'middleware, skipped only when the middleware is None', found,
         func=f)
    if okl:
        R.ob('R16.4', 'deploy:order', ipos < apos,
             'context middleware inside the auth middleware (it reads the '
             'identity headers the auth middleware sets)', found, func=f)
    R.ob('R16.4', 'deploy:return', P.ret_ok,
         'deploy() returns the wrapped application', P.app_var, func=f)


def _path_literals(func, prog=None):
    """String literals compared with PATH_INFO in a function."""
    lits = []
    bad = []
    for n in own_nodes(func.node):
        if isinstance(n, ast.Compare) and 'PATH_INFO' in src(n.left):
            for c in n.comparators:
                if isinstance(c, ast.Constant):
                    lits.append(c.value)
                elif isinstance(c, (ast.List, ast.Tuple, ast.Set)):
                    for x in c.elts:
                        if isinstance(x, ast.Constant):
                            lits.append(x.value)
                        else:
                            bad.append(src(x))
                else:
                    # a module-level constant collection of literals
                    v = None
                    d = prog.dotted(func.module, c, func) if prog else None
                    if d and '.' in d:
                        try:
                            v = prog.const(*d.rsplit('.', 1))
                        except model.AnalysisError:
                            v = None
                    if isinstance(v, (list, tuple, set, frozenset)) and all(
                            isinstance(x, str) for x in v):
                        lits.extend(v)
                    else:
                        bad.append(src(c))
        elif isinstance(n, ast.Call) and 'PATH_INFO' in src(n) and \
                isinstance(n.func, ast.Attribute) and n.func.attr in (
                    'startswith', 'endswith', 'match', 'search'):
            bad.append(src(n))
    return lits, bad


def _auth_rules(ctx, R):
    prog = ctx.prog
    for q in ('placement.auth:NoAuthMiddleware.__call__',
              'placement.auth:PlacementKeystoneContext.__call__',
              'placement.auth:PlacementAuthProtocol.__call__'):
        f = prog.func(q)
        lits, bad = _path_literals(f, prog)
        R.ob('R16.4', 'exempt-paths:%s' % q.split(':')[1],
             set(lits) <= {'/', ''} and not bad,
             "the only PATH_INFO values exempt from authentication are '/' "
             "and ''", 'literals %s other %s' % (sorted(set(lits)), bad),
             func=f)
    # 401 answers: decided per path through the middleware - a request
    # that is let through (or gets a context) has an identity or asks for
    # the root, whatever the shape of the test
    from psa import pathval
    f = prog.func('placement.auth:PlacementKeystoneContext.__call__')
    paths = [p for p in pathval.paths_of(f) if p.end != 'raise']

    def is401(p):
        last = p.stmts[-1] if p.stmts else None
        return isinstance(last, ast.Return) and 'HTTPUnauthorized' in src(
            last)

    def identified(a, pol):
        return (not pol) and isinstance(a, ast.Compare) and isinstance(
            a.ops[0], ast.Is) and src(a.comparators[0]) == 'None' and \
            isinstance(a.left, ast.Attribute) and a.left.attr == 'user_id'

    def root_path(a, pol):
        if not (pol and isinstance(a, ast.Compare) and isinstance(
                a.ops[0], ast.In) and 'PATH_INFO' in src(a.left)):
            return False
        c = a.comparators[0]
        return isinstance(c, (ast.List, ast.Tuple, ast.Set)) and all(
            isinstance(x, ast.Constant) and x.value in ('/', '')
            for x in c.elts)

    def allowed(a, pol):
        return identified(a, pol) or root_path(a, pol)

    def stores_ctx(p):
        return [st for st, tgt, _s, _v in p.stores
                if 'placement.context' in src(tgt)]
    p401 = [p for p in paths if is401(p)]
    through = [p for p in paths if not is401(p)]
    bad = [p for p in through if not pathval.holds(p, allowed)]
    R.ob('R16.4', 'context-401', bool(p401) and bool(through) and not bad,
         'no user identity and a path other than the root => 401 (every '
         'path through the middleware that does not answer 401 has decided '
         'that there is an identity or that the path is the root)',
         'paths: %d answer 401, %d pass; undecided: %s' % (
             len(p401), len(through), [p.cond_srcs() for p in bad][:2]),
         func=f)
    # the context is stored only on such paths
    n_st = sum(len(stores_ctx(p)) for p in through)
    oks = n_st >= 1 and all(stores_ctx(p) for p in through) and not any(
        stores_ctx(p) for p in p401) and not bad
    R.ob('R16.4', 'context-set-after-401-test', bool(oks),
         "environ['placement.context'] is set on every path that passes the "
         "401 test and on no path that answers 401",
         '%d stores on passing paths, %d on 401 paths' % (
             n_st, sum(len(stores_ctx(p)) for p in p401)), func=f)
    f = prog.func('placement.auth:NoAuthMiddleware.__call__')
    rets401 = [n for n in own_nodes(f.node) if isinstance(n, ast.Return)
               and 'HTTPUnauthorized' in src(n)]
    ok = False
    found = 'no 401 return'
    if len(rets401) == 1:
        ifs = C.guarding_ifs(rets401[0], f.node)
        if ifs:
            found = src(ifs[0][0].test)
            t = ifs[0][0].test
            reqn = (f.params + [None, None])[1]
            ok = isinstance(t, ast.Compare) and len(t.ops) == 1 and \
                isinstance(t.ops[0], ast.NotIn) and isinstance(
                    t.left, ast.Constant) and t.left.value == \
                'X-Auth-Token' and isinstance(
                    t.comparators[0], ast.Attribute) and \
                t.comparators[0].attr == 'headers' and src(
                    t.comparators[0].value) == reqn \
                and ifs[0][1] == 'body'
            # ... or: <v> = <req>.headers.get('X-Auth-Token'); if <v> is None
            if not ok and isinstance(t, ast.Compare) and len(
                    t.ops) == 1 and isinstance(t.ops[0], ast.Is) and src(
                        t.comparators[0]) == 'None' and isinstance(
                            t.left, ast.Name) and ifs[0][1] == 'body':
                d = c05.single_def(f, t.left.id)
                v = d.value if d is not None else None
                ok = isinstance(v, ast.Call) and isinstance(
                    v.func, ast.Attribute) and v.func.attr == 'get' and src(
                        v.func.value) == '%s.headers' % reqn and len(
                            v.args) == 1 and isinstance(
                                v.args[0], ast.Constant) and \
                    v.args[0].value == 'X-Auth-Token'
        # every return of the application other than the root short-cut is
        # after the token test
        g = cfgmod.cfg_of(f)
        tok_if = ifs[0][0] if ifs else None
        for r in [n for n in own_nodes(f.node) if isinstance(n, ast.Return)
                  and n is not rets401[0]]:
            gi = C.guarding_ifs(r, f.node)
            if gi and 'PATH_INFO' in src(gi[0][0].test):
                continue
            if tok_if is None or not g.dominates(tok_if, r):
                ok = False
                found += '; return at line %d not behind the token test' % \
                    r.lineno
    R.ob('R16.4', 'noauth-401', ok,
         'a request without X-Auth-Token (other than the root) => 401',
         found, func=f)


def _forbidden_rule(ctx, R):
    f = ctx.prog.func('placement.handler:PlacementHandler.__call__')
    disp = C.calls_to(ctx, f, 'placement.handler:dispatch')
    ok = False
    found = 'dispatch() not found'
    if len(disp) == 1:
        trys = C.enclosing_trys(disp[0], f.node)
        found = 'dispatch() not inside try'
        for t in trys:
            for h in t.handlers:
                hts = ctx.raises.handler_types(f, h) or []
                if 'placement.exception.PolicyNotAuthorized' in hts:
                    rs = [n for n in own_nodes_of(h) if isinstance(
                        n, ast.Raise)]
                    names = [ctx.raises.exc_name(f, r.exc) for r in rs
                             if r.exc is not None]
                    found = 'handler raises %s' % names
                    ok = names == ['webob.exc.HTTPForbidden'] and len(
                        h.body) == 1
    R.ob('R16.4', 'PolicyNotAuthorized->403', ok,
         'PolicyNotAuthorized from a handler is answered with HTTPForbidden',
         found, func=f)


def _can_shape(ctx, R):
    prog = ctx.prog
    f = prog.func('placement.context:RequestContext.can')
    # default fatal=True
    a = f.node.args
    defaults = dict(zip([x.arg for x in a.args][-len(a.defaults):],
                        a.defaults))
    # the third argument after self (the position R16.1 reads 'fatal' from)
    fparam = f.params[3] if len(f.params) > 3 else None
    fd = defaults.get(fparam)
    R.ob('R16.4', 'can:fatal-default',
         isinstance(fd, ast.Constant) and fd.value is True,
         'can(..., fatal=True) by default', src(fd) if fd is not None else
         'no default', func=f)
    auth = C.calls_to(ctx, f, 'placement.policy:authorize')
    rets = [n for n in own_nodes(f.node) if isinstance(n, ast.Return)]
    ok = len(auth) == 1 and any(r.value is auth[0] for r in rets)
    # ... and the target it passes on is the caller's target: the parameter
    # is replaced only when it is None (by the request's own identity)
    tparam = f.params[2] if len(f.params) > 2 else None
    okt = ok
    whyt = 'ok'
    if ok:
        a3 = auth[0].args[2] if len(auth[0].args) > 2 else C.kwarg(
            auth[0], 'target')
        okt = isinstance(a3, ast.Name) and a3.id == tparam
        whyt = src(a3) if a3 is not None else 'no target argument'
        for n_ in own_nodes(f.node):
            if isinstance(n_, ast.Assign) and any(
                    isinstance(t, ast.Name) and t.id == tparam
                    for t in n_.targets):
                ls = [(ast.unparse(e), p)
                      for e, p in C.conds(n_, f.node, implicit=True)]
                if ('%s is None' % tparam, True) not in ls:
                    okt = False
                    whyt = 'line %d rebinds %s under %s' % (
                        n_.lineno, tparam, ls)
    R.ob('R16.4', 'can:target-unchanged', okt,
         'the policy target a handler passes is what the rule is evaluated '
         'against (only a missing target is replaced by the caller\'s own '
         'project and user)', whyt, func=f)
    R.ob('R16.4', 'can:delegates', ok,
         'can() returns policy.authorize(self, action, target)',
         '%d authorize calls' % len(auth), func=f)
    # the only swallow is under "not fatal"
    sw = True
    for n in own_nodes(f.node):
        if isinstance(n, ast.ExceptHandler):
            # every way out of the handler that is not the bare re-raise
            # runs under the literal "not <fatal>", and a re-raise exists
            outs = [x for x in own_nodes_of(n) if isinstance(x, ast.Return)]
            rer = [x for x in own_nodes_of(n) if isinstance(x, ast.Raise)
                   and x.exc is None]
            sw = bool(rer) and not C._terminates(n.body) is False
            for x in outs:
                ls = [(ast.unparse(e), p)
                      for e, p in C.conds(x, n, implicit=True)]
                if (fparam, False) not in ls:
                    sw = False
            for x in rer:
                ls = [(ast.unparse(e), p)
                      for e, p in C.conds(x, n, implicit=True)]
                if any(t != fparam or not p for t, p in ls):
                    sw = False
    R.ob('R16.4', 'can:reraise', sw,
         'PolicyNotAuthorized is swallowed only when fatal is false',
         'handler shape', func=f)
    g = prog.func('placement.policy:authorize')
    enf = [n for n in own_nodes(g.node) if isinstance(n, ast.Call)
           and isinstance(n.func, ast.Attribute) and n.func.attr ==
           'authorize' and '_ENFORCER' in src(n.func)]
    ok = False
    found = '%d enforcer calls' % len(enf)
    if len(enf) == 1:
        c = enf[0]
        dr = C.kwarg(c, 'do_raise')
        ex = C.kwarg(c, 'exc')
        a = g.node.args
        defaults = dict(zip([x.arg for x in a.args][-len(a.defaults):],
                            a.defaults))
        ps = g.params + [None] * 4
        d_ok = isinstance(dr, ast.Name) and dr.id == ps[3] and \
            isinstance(defaults.get(ps[3]), ast.Constant) and \
            defaults[ps[3]].value is True
        e_ok = ex is not None and prog.dotted(g.module, ex, g) == \
            'placement.exception.PolicyNotAuthorized'
        # authorize(context, action, target, do_raise) ->
        # enforcer.authorize(action, target, context)
        args_ok = [src(x) for x in c.args[:3]] == [ps[1], ps[2], ps[0]]
        ok = d_ok and e_ok and args_ok
        found = 'do_raise=%s exc=%s args=%s' % (
            src(dr) if dr is not None else None,
            src(ex) if ex is not None else None,
            [src(x) for x in c.args[:3]])
    R.ob('R16.4', 'authorize:enforcer-call', ok,
         '_ENFORCER.authorize(action, target, context, do_raise=True by '
         'default, exc=PolicyNotAuthorized)', found, func=g)
    # no handler in authorize swallows: every except re-raises
    for n in own_nodes(g.node):
        if isinstance(n, ast.ExceptHandler):
            has = any(isinstance(x, ast.Raise) for x in own_nodes_of(n)) or \
                any(cfgmod.is_reraise_with(x) for x in own_nodes_of(n)
                    if isinstance(x, ast.With))
            R.ob('R16.4', 'authorize:except@%s' % (
                src(n.type) if n.type is not None else 'bare'), has,
                'every except clause in policy.authorize re-raises',
                'swallows' if not has else 'ok', func=g, node=n,
                nontrivial=False)


def r166(ctx, R):
    """The base rules carry deprecated (older, wider) check strings -
    service_api was role:admin - which oslo.policy ORs into the new default
    unless [oslo_policy] enforce_new_defaults is on.  The library default is
    on; no code of the service may turn it (or enforce_scope) off: that
    silently grants the reshaper to admin."""
    prog = ctx.prog
    OPTS = ('enforce_new_defaults', 'enforce_scope')
    n = 0
    bad = []
    for f in list(prog.funcs):
        for c in own_nodes(f.node):
            if not isinstance(c, ast.Call):
                continue
            d = prog.dotted(f.module, c.func, f) or ''
            if d.endswith('oslo_policy.opts.set_defaults'):
                n += 1
            for k in c.keywords:
                if k.arg in OPTS and not (isinstance(
                        k.value, ast.Constant) and k.value.value is True):
                    bad.append((f, c, '%s=%s' % (k.arg, src(k.value))))
            if c.args and isinstance(c.args[0], ast.Constant) and \
                    c.args[0].value in OPTS and isinstance(
                        c.func, ast.Attribute) and c.func.attr in (
                            'set_default', 'set_override') and not (
                        len(c.args) > 1 and isinstance(
                            c.args[1], ast.Constant)
                        and c.args[1].value is True):
                bad.append((f, c, src(c)[:70]))
    # module-level statements too (conf modules call set_defaults at
    # import time)
    for m in prog.modules.values():
        for c in ast.walk(m.tree):
            if isinstance(c, ast.Call):
                for k in c.keywords:
                    if k.arg in OPTS and not (isinstance(
                            k.value, ast.Constant)
                            and k.value.value is True) and not any(
                                c is b[1] for b in bad):
                        bad.append((None, c, '%s=%s' % (k.arg,
                                                        src(k.value))))
    R.ob('R16.6', 'policy-options:new-defaults-enforced', not bad,
         'no code turns enforce_new_defaults / enforce_scope off (the '
         'deprecated admin rule would be ORed into service_api)',
         ['%s line %d: %s' % (f.qname if f else 'module level', c.lineno, t)
          for f, c, t in bad] or '%d set_defaults call(s)' % n,
         func=bad[0][0] if bad else None, node=bad[0][1] if bad else None)
    R.count('R16.6', n, 3)


_run_c16 = run


def run(ctx, R):
    _run_c16(ctx, R)
    r166(ctx, R)


def r167(ctx, R):
    """oslo.policy looks a deprecated rule up *by name* in the policy file
    and, when the operator has an entry under that name, lets it replace the
    new rule's check.  A deprecated name that is also the name of a rule
    still registered makes an override of that one rule rewire every rule
    carrying the deprecation (overriding the documented rule of an operation
    would no longer be what grants exactly that operation): the names of
    deprecated rules and the names of registered rules are disjoint."""
    prog = ctx.prog
    registered = set()
    deprecated = {}
    every = [('placement.policies.base', r) for r in prog.const(
        'placement.policies.base', 'rules') if isinstance(r, CallRec)]
    every += policy_rules(ctx)
    for modname, r in every:
        registered.add(_rule_field(r, 'name', 0))
        d = r.kwargs.get('deprecated_rule')
        if isinstance(d, CallRec):
            deprecated.setdefault(_rule_field(d, 'name', 0), []).append(
                '%s:%s' % (modname.rsplit('.', 1)[1],
                           _rule_field(r, 'name', 0)))
        elif d is not None:
            deprecated.setdefault(repr(d), []).append(modname)
    n = 0
    for name, users in sorted(deprecated.items(), key=lambda x: str(x[0])):
        n += 1
        R.ob('R16.7', 'deprecated-name:%s' % name,
             isinstance(name, str) and name not in registered,
             'the name of a deprecated rule is not the name of a registered '
             'rule', 'carried by %s' % users[:4])
    R.count('R16.7', n, 1)


_run_c16b = run


def run(ctx, R):
    _run_c16b(ctx, R)
    r167(ctx, R)
