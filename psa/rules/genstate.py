"""Who may write the in-memory generation of a provider / consumer object,
and identity of the generation-checked object in the reshaper.

The compare-and-swap is only as good as the generation the object holds: the
handler compares the request's generation with ``obj.generation`` and the
write later runs ``UPDATE ... WHERE generation = obj.generation``.  Anything
that rewrites ``obj.generation`` in between (a refresh from the database, a
swap to another object for the same row) turns a stale request into a
successful one.
"""
import ast

from psa import cfg as cfgmod
from psa.model import own_nodes, own_nodes_of, src
from psa.rules import common as C

CLASSES = {
    'placement.objects.consumer.Consumer': 'Consumer',
    'placement.objects.resource_provider.ResourceProvider':
        'ResourceProvider',
}
# functions that may assign <object>.generation
WRITERS = {
    'placement.objects.consumer:Consumer.__init__':
        'constructor',
    'placement.objects.consumer:Consumer._from_db_object':
        'loader (only ever applied to a freshly constructed object, below)',
    'placement.objects.consumer:Consumer.increment_generation':
        'after the compare-and-swap succeeded',
    'placement.objects.consumer:Consumer.create>_create_in_db':
        'initial generation of the row just inserted',
    'placement.objects.resource_provider:ResourceProvider.__init__':
        'constructor',
    'placement.objects.resource_provider:ResourceProvider.'
    'increment_generation': 'after the compare-and-swap succeeded',
    'placement.objects.resource_provider:ResourceProvider._create_in_db':
        'initial generation of the row just inserted',
    'placement.objects.resource_provider:ResourceProvider._from_db_object':
        'loader (setattr over the field list)',
}


def generation_writers(ctx, R, rule):
    prog = ctx.prog
    bad = []
    n = 0
    for f in prog.funcs:
        if f.module.name.startswith('placement.cmd'):
            continue
        for node in own_nodes(f.node):
            tgt = None
            if isinstance(node, ast.Attribute) and isinstance(
                    node.ctx, ast.Store) and node.attr == 'generation':
                tgt = node
            if tgt is None:
                continue
            types = ctx.cg.expr_types(f, tgt.value)
            if not (types & set(CLASSES)) and src(tgt.value) not in (
                    'self', 'target'):
                continue
            if f.cls is not None and f.cls.dotted not in CLASSES and \
                    src(tgt.value) in ('self', 'target'):
                continue
            n += 1
            if f.qbase not in WRITERS:
                bad.append((f, node))
    R.ob(rule, 'generation-attribute-writers', not bad,
         'the in-memory generation of a provider / consumer object is '
         'assigned only by its constructor, its loader, the successful '
         'compare-and-swap and create()',
         ['%s %s' % (f.loc(nd), f.qbase) for f, nd in bad[:4]],
         func=bad[0][0] if bad else None, node=bad[0][1] if bad else None)
    # loaders are applied to fresh objects only
    for cd, cname in sorted(CLASSES.items()):
        cls = prog.classes.get(cd)
        lf = prog.find_method(cls, '_from_db_object') if cls else None
        if not lf and cls is not None:
            # the loader may have become a module-level function
            # (presented under its recorded name by psa/anchors.py)
            lf = prog.by_qbase.get('%s:%s._from_db_object' % (
                cls.module.name, cls.name))
        if not lf:
            # no loader: rows become objects through the constructor only,
            # so there is nothing that could overwrite the generation of an
            # object a request has been compared with (the writer table
            # above still bounds who assigns .generation)
            R.ob(rule, '%s._from_db_object' % cname, True,
                 'loader applied to fresh objects only',
                 'no loader: constructor only', nontrivial=False)
            continue
        lf = lf[0]
        sites = []
        for caller in sorted(ctx.cg.callers.get(lf, ()),
                             key=lambda x: x.qname):
            owner = caller
            while owner is not None and owner.cls is None:
                owner = owner.parent
            owner_cls = owner.cls.dotted if owner is not None else None
            for s in ctx.cg.calls_in(caller):
                if lf not in s.callees:
                    continue
                recv = s.node.func.value if isinstance(
                    s.node.func, ast.Attribute) else None
                typed = ctx.cg.expr_types(caller, recv) if recv is not \
                    None else set()
                typed = {t[5:] if t.startswith('type:') else t
                         for t in typed}
                if cd in typed or (not typed and owner_cls == cd):
                    sites.append((caller, s.node))
        okall = bool(sites)
        found = []
        for caller, call in sites:
            # target is the 2nd argument (after ctx)
            tgt = call.args[1] if len(call.args) > 1 else None
            fresh = isinstance(tgt, ast.Call) and (
                (isinstance(tgt.func, ast.Name) and tgt.func.id == 'cls') or
                ctx.prog.dotted(caller.module, tgt.func, caller) == cd)
            found.append('%s target=%s' % (caller.qbase.split(':')[1],
                                           src(tgt) if tgt is not None
                                           else None))
            if not fresh:
                okall = False
        R.ob(rule, '%s._from_db_object:fresh-target-only' % cname, okall,
             'the loader (which overwrites generation) is only ever applied '
             'to a freshly constructed object, never to one whose '
             'generation a request has been compared with', found,
             func=lf)
    return n


def reshape_identity(ctx, R, rule):
    """objects/reshaper.reshape applies set_inventory to the provider
    objects it was handed as keys (the ones the handler compared), and
    allocations are re-pointed to those objects."""
    prog = ctx.prog
    f = prog.func('placement.objects.reshaper:reshape')
    g = cfgmod.cfg_of(f)
    inv_param = f.params[1]
    calls = C.calls_to(
        ctx, f, 'placement.objects.resource_provider:ResourceProvider.'
        'set_inventory')
    for i, c in enumerate(sorted(calls, key=lambda x: x.lineno)):
        lp = c
        while lp is not None and not (isinstance(lp, ast.For) and src(
                lp.iter).startswith(inv_param)):
            lp = getattr(lp, '_parent', None)
        ok = False
        why = 'not inside a loop over %s' % inv_param
        if lp is not None and isinstance(lp.target, ast.Tuple) and \
                isinstance(lp.target.elts[0], ast.Name):
            key = lp.target.elts[0].id
            recv = c.func.value
            rebound = [n for n in own_nodes_of(lp)
                       if isinstance(n, (ast.Assign, ast.AugAssign))
                       and any(isinstance(t, ast.Name) and t.id == key
                               for t in (n.targets if isinstance(
                                   n, ast.Assign) else [n.target]))]
            ok = isinstance(recv, ast.Name) and recv.id == key and \
                not rebound
            why = 'receiver %s, key %s, key rebound in loop: %s' % (
                src(recv), key, bool(rebound))
        R.ob(rule, 'reshape:set_inventory-on-checked-object#%d' % (i + 1),
             ok, 'set_inventory() is called on the provider object that '
             'keys the inventories mapping (the object whose generation the '
             'handler compared with the request)', why, func=f, node=c)
    # the cache prefers the checked objects
    stores = [n for n in own_nodes(f.node) if isinstance(n, ast.Assign)
              and any(isinstance(t, ast.Subscript) and src(t.slice).endswith(
                  '.uuid') for t in n.targets)]
    okc = False
    why = '%d cache stores' % len(stores)
    cache = None
    for st in stores:
        t = st.targets[0]
        lp = getattr(st, '_parent', None)
        # a loop over the mapping's items (key first) or over its keys
        lkey = None
        if isinstance(lp, ast.For) and src(lp.iter).startswith(inv_param):
            if isinstance(lp.target, ast.Tuple):
                lkey = src(lp.target.elts[0])
            elif isinstance(lp.target, ast.Name) and src(lp.iter) in (
                    inv_param, inv_param + '.keys()'):
                lkey = lp.target.id
        if lkey is not None and lkey == src(st.value) and src(
                t.slice) == '%s.uuid' % src(st.value):
            first_cont = [x for x in own_nodes_of(lp)
                          if isinstance(x, ast.Continue)]
            okc = all(g.dominates(st, x) for x in first_cont) and not \
                C.skip_conds(st, lp)
            cache = src(t.value)
            why = '%s[%s] = %s' % (cache, src(t.slice), src(st.value))
    R.ob(rule, 'reshape:cache-prefers-checked-object', okc,
         'the uuid -> provider cache is overwritten with the inventories\' '
         'provider object for every entry (before any continue)', why,
         func=f)
    # allocations are re-pointed from that cache before the write
    ra = C.calls_to(ctx, f, 'placement.objects.allocation:replace_all')
    deps = C.Deps(f)

    def from_cache(x):
        return cache is not None and (
            isinstance(x, ast.Subscript) and src(x.value) == cache or
            isinstance(x, ast.Call) and isinstance(x.func, ast.Attribute)
            and x.func.attr == 'get' and src(x.func.value) == cache)
    swaps = [n for n in own_nodes(f.node) if isinstance(n, ast.Assign)
             and any(src(t).endswith('.resource_provider')
                     for t in n.targets) and deps.reaches(n.value,
                                                          from_cache)]
    oks = len(ra) == 1 and len(swaps) == 1
    if oks:
        lp = getattr(swaps[0], '_parent', None)
        while lp is not None and not isinstance(lp, ast.For):
            lp = getattr(lp, '_parent', None)
        oks = lp is not None and src(lp.iter) == f.params[2] and \
            g.dominates(lp, C.stmt_of(ra[0]))
    R.ob(rule, 'reshape:allocations-use-checked-objects', oks,
         'before the allocation write every allocation is re-pointed to the '
         'cached provider object', '%d swaps' % len(swaps), func=f)
    # the handler keys the mapping with the compared object (R5.2) and
    # passes it on unchanged
    h = prog.func('placement.handlers.reshaper:reshape')
    for c in [x for fs in h.nested.values() for x in fs]:
        rc = C.calls_to(ctx, c, 'placement.objects.reshaper:reshape')
        for call in rc:
            R.ob(rule, 'handler:passes-mapping-unchanged',
                 len(call.args) >= 2 and _provider_keyed_mapping(
                     ctx, h, call.args[1]),
                 'the handler passes the mapping keyed by the compared '
                 'provider objects', src(call), func=c, node=call,
                 nontrivial=False)


def _provider_keyed_mapping(ctx, h, arg):
    """arg names a dict of the handler, created empty once, whose only
    stores are ``m[rp] = ...`` with rp the loaded provider object."""
    if not isinstance(arg, ast.Name):
        return False
    m = arg.id
    defs = [n for n in own_nodes(h.node) if isinstance(n, ast.Assign)
            and any(isinstance(t, ast.Name) and t.id == m
                    for t in n.targets)]
    if len(defs) != 1 or not ((isinstance(defs[0].value, ast.Dict)
                               and not defs[0].value.keys) or
                              src(defs[0].value) == 'dict()'):
        return False
    stores = [n for n in own_nodes(h.node) if isinstance(n, ast.Subscript)
              and isinstance(n.ctx, ast.Store) and isinstance(
                  n.value, ast.Name) and n.value.id == m]
    if not stores:
        return False
    for st in stores:
        k = st.slice
        if not isinstance(k, ast.Name):
            return False
        kd = [n for n in own_nodes(h.node) if isinstance(n, ast.Assign)
              and any(isinstance(t, ast.Name) and t.id == k.id
                      for t in n.targets)]
        if len(kd) != 1 or not isinstance(kd[0].value, ast.Call) or not any(
                x.endswith('ResourceProvider.get_by_uuid')
                for x in C.call_name(ctx, h, kd[0].value)):
            return False
    # no other mutation (pop / update / del)
    for n in own_nodes(h.node):
        if isinstance(n, ast.Call) and isinstance(
                n.func, ast.Attribute) and isinstance(
                    n.func.value, ast.Name) and n.func.value.id == m and \
                n.func.attr in ('pop', 'update', 'clear', 'popitem',
                                'setdefault'):
            return False
    return True
