"""C18 - a crash at any point leaves a state satisfying the core invariants."""
from psa.effects import is_core
from psa.rules import common as C
from psa.rules import c04

EXPLANATION = (
    "Given that a writer scope entered on a context that already holds a "
    "session joins it and that the outermost scope commits or rolls back "
    "atomically (trusted base), a crash leaves all or none of the writes of "
    "one transaction root. R18a: every write reachable from a routed handler "
    "is below a writer scope. R18b: per handler at most one call site "
    "outside any scope enters a transaction root that writes "
    "invariant-bearing tables (allocations, inventories, providers, "
    "associations, classes, traits, consumer attribute updates). R18c: every "
    "other write root reachable from the handler performs only the "
    "auxiliary effects the property allows (project, user, consumer type, "
    "consumer insert/delete).")
ASSUMPTIONS = [
    "each committed transaction preserves C01/C08/C09 (decided under those "
    "properties, not here)",
]

ALLOWED_AUX = {('I', 'projects'), ('I', 'users'), ('I', 'consumer_types'),
               ('I', 'consumers'), ('D', 'consumers')}


def run(ctx, R):
    n = c04.check_roots(ctx, R, 'R18')
    R.count('R18b', n, 26)
    m = 0
    for f in C.handler_defs(ctx):
        sites = c04.root_call_sites(ctx, f)
        seen = set()
        for caller, node, root in sites:
            if root in seen:
                continue
            seen.add(root)
            ws = sorted(x for x in ctx.effects.summary(root)
                        if x[0] in 'IUD')
            if not ws or any(is_core(*x) for x in ws):
                continue
            m += 1
            bad = [x for x in ws if x not in ALLOWED_AUX]
            R.ob('R18c', '%s:aux-root:%s' % (f.qname, root.qbase), not bad,
                 'a transaction other than the main one writes only '
                 'auxiliary records', ws, func=root)
    R.count('R18c', m, 41)
