"""C18 - a crash at any point leaves a state satisfying the core invariants."""
from psa.effects import is_core
from psa.rules import common as C
from psa.rules import c04

EXPLANATION = (
    "Given that a writer scope entered on a context that already holds a "
    "session joins it and that the outermost scope commits or rolls back "
    "atomically (trusted base), a crash leaves all or none of the writes of "
    "one transaction root. R18a: every write reachable from a routed handler "
    "is below a writer scope. R18b: per handler at most one call site "
    "outside any scope enters a transaction root that writes "
    "invariant-bearing tables (allocations, inventories, providers, "
    "associations, classes, traits, consumer attribute updates). R18c: every "
    "other write root reachable from the handler performs only the "
    "auxiliary effects the property allows (project, user, consumer type, "
    "consumer insert/delete).")
ASSUMPTIONS = [
    "each committed transaction preserves C01/C08/C09 (decided under those "
    "properties, not here)",
]

ALLOWED_AUX = {('I', 'projects'), ('I', 'users'), ('I', 'consumer_types'),
               ('I', 'consumers'), ('D', 'consumers')}


def run(ctx, R):
    n = c04.check_roots(ctx, R, 'R18')
    R.count('R18b', n, 26)
    m = 0
    for f in C.handler_defs(ctx):
        sites = c04.root_call_sites(ctx, f)
        seen = set()
        for caller, node, root in sites:
            if root in seen:
                continue
            seen.add(root)
            ws = sorted(x for x in ctx.effects.summary(root)
                        if x[0] in 'IUD')
            if not ws or any(is_core(*x) for x in ws):
                continue
            m += 1
            bad = [x for x in ws if x not in ALLOWED_AUX]
            R.ob('R18c', '%s:aux-root:%s' % (f.qname, root.qbase), not bad,
                 'a transaction other than the main one writes only '
                 'auxiliary records', ws, func=root)
    # (41 today; merging two transactions of a request into one lowers it)
    R.count('R18c', m, 34)


def independent_uses(ctx, R, rule):
    """`.independent` opens a separate transaction inside a request: only
    the provider reload of replace_all (a reader) may use it."""
    import ast
    from psa.model import src
    allowed = {('placement.objects.allocation:replace_all', 'reader')}
    bad = []
    n = 0
    for f in ctx.prog.funcs:
        if f.module.name.startswith('placement.cmd'):
            continue
        nodes = list(ast.walk(f.node))
        for x in nodes:
            if isinstance(x, ast.Attribute) and x.attr == 'independent':
                # nested functions are visited on their own
                owner = x
                skip = False
                while owner is not None and owner is not f.node:
                    owner = getattr(owner, '_parent', None)
                    if isinstance(owner, (ast.FunctionDef,
                                          ast.AsyncFunctionDef)) and \
                            owner is not f.node:
                        skip = True
                        break
                if skip:
                    continue
                n += 1
                kind = x.value.attr if isinstance(x.value,
                                                  ast.Attribute) else '?'
                if (f.qbase, kind) in allowed:
                    continue
                # a helper of that reload: read-only, and called (through
                # helpers) from replace_all only
                def only_from_replace_all(g, depth=0):
                    if g.qbase == 'placement.objects.allocation:replace_all':
                        return True
                    cs = ctx.cg.callers.get(g, ())
                    return bool(cs) and depth < 3 and all(
                        only_from_replace_all(c, depth + 1) for c in cs)
                top = f
                while top.parent is not None:
                    top = top.parent
                reads_only = not any(op in 'IUD' for op, _t in
                                     ctx.effects.summary(f))
                if kind == 'reader' and reads_only and (
                        only_from_replace_all(top)
                        or only_from_replace_all(f)):
                    continue
                bad.append('%s %s' % (f.loc(x), src(x)))
    R.ob(rule, 'independent-transactions', not bad,
         'no write of a request runs in a transaction of its own: '
         '.independent is used only for the read-only provider reload of '
         'the allocation retry', bad)
    return n


_run_c18 = run


def run(ctx, R):
    _run_c18(ctx, R)
    n = independent_uses(ctx, R, 'R18d')
    R.count('R18d', n, 1)
