"""Function identities relative to the reference tree.

The rules name the functions they reason about by qualified name.  A
behaviour-preserving change may move a function to another module, rename
it, or turn a (static) method into a module-level function; none of that is
a loss of the anchored construct.  ``psa/tables/anchors.json`` records, for
every function of the tree the rules were written against, a fingerprint of
its body (called names, attribute names, string constants, raised names,
decorators).  When the analysed tree lacks a recorded name, the functions it
has *in addition* to the recorded ones are candidates for being that
function: first by an identical last name (moved), then by fingerprint
similarity (renamed).  A match must be unique and clear; the matched
function is then presented to the rules under its recorded name (file and
line stay the real ones, and every relocation is reported in the run's
output and evidence).  No match leaves the anchor missing, which the rules
report as an analysis error as before.
"""
import ast
import collections
import json
import os

TABLE = os.path.join(os.path.dirname(os.path.abspath(__file__)), 'tables',
                     'anchors.json')
MIN_SCORE = 0.55
MARGIN = 0.12


def fingerprint(fnode):
    c = collections.Counter()
    body = list(fnode.body)
    if body and isinstance(body[0], ast.Expr) and isinstance(
            body[0].value, ast.Constant) and isinstance(
                body[0].value.value, str):
        body = body[1:]
    for d in fnode.decorator_list:
        e = d.func if isinstance(d, ast.Call) else d
        if isinstance(e, ast.Attribute):
            c['dec:' + e.attr] += 1
        elif isinstance(e, ast.Name):
            c['dec:' + e.id] += 1
    for st in body:
        for n in ast.walk(st):
            if isinstance(n, ast.Call):
                f = n.func
                if isinstance(f, ast.Attribute):
                    c['call:' + f.attr] += 1
                elif isinstance(f, ast.Name):
                    c['call:' + f.id] += 1
            elif isinstance(n, ast.Attribute):
                c['attr:' + n.attr] += 1
            elif isinstance(n, ast.Constant) and isinstance(
                    n.value, str) and len(n.value) <= 60:
                c['const:' + n.value] += 1
            elif isinstance(n, ast.Raise) and n.exc is not None:
                e = n.exc.func if isinstance(n.exc, ast.Call) else n.exc
                if isinstance(e, ast.Attribute):
                    c['raise:' + e.attr] += 1
                elif isinstance(e, ast.Name):
                    c['raise:' + e.id] += 1
            elif isinstance(n, (ast.For, ast.While, ast.If, ast.Try,
                                ast.With, ast.Return)):
                c['stmt:' + type(n).__name__] += 1
            elif isinstance(n, (ast.Yield, ast.YieldFrom)):
                # a generator (context manager) is never another spelling
                # of a plain function
                c['kind:yield'] = 1
    return c


def similarity(a, b):
    keys = set(a) | set(b)
    if not keys:
        return 0.0
    num = sum(min(a.get(k, 0), b.get(k, 0)) for k in keys)
    den = sum(max(a.get(k, 0), b.get(k, 0)) for k in keys)
    return num / float(den) if den else 0.0


def tail(qbase):
    """Last name of a qualified name: the nested child, or the function
    name without its class."""
    t = qbase.split('>')[-1] if '>' in qbase else qbase.split(':', 1)[1]
    return t.split('.')[-1]


def load_table():
    try:
        with open(TABLE) as fh:
            return json.load(fh)['functions']
    except (OSError, ValueError, KeyError):
        return None


def load_globals():
    """module -> names bound at module level in the reference tree."""
    try:
        with open(TABLE) as fh:
            return json.load(fh).get('globals')
    except (OSError, ValueError):
        return None


def group_fp(funcs):
    c = collections.Counter()
    for f in funcs:
        c.update(fingerprint(f.node))
    return c


def match(missing, extra, table, cross=False):
    """missing: recorded qbases absent from the tree; extra: {qbase: [Func]}
    present but not recorded.  Returns {recorded qbase: actual qbase}."""
    out = {}
    taken = set()
    # 1. moved: same last name, unique on both sides
    for m in sorted(missing):
        cands = [q for q in extra if tail(q) == tail(m) and q not in taken
                 and (cross or ('>' in q) == ('>' in m))]
        others = [x for x in missing if x != m and tail(x) == tail(m)]
        if len(cands) == 1 and not others:
            out[m] = cands[0]
            taken.add(cands[0])
    # 1b. moved across nesting levels (a module-level helper nested into
    # its only caller, or a closure hoisted to module level): same last
    # name, unique
    for m in sorted(missing):
        if m in out:
            continue
        cands = [q for q in extra if tail(q) == tail(m) and q not in taken]
        others = [x for x in missing if x != m and tail(x) == tail(m)
                  and x not in out]
        if len(cands) == 1 and not others:
            out[m] = cands[0]
            taken.add(cands[0])
    # 2. renamed: fingerprint similarity
    fps = {q: group_fp(fs) for q, fs in extra.items() if q not in taken}
    todo = [m for m in sorted(missing) if m not in out]
    scored = []
    for m in todo:
        ref = collections.Counter(table[m]['fp'])
        for q, fp in fps.items():
            if ('>' in q) != ('>' in m) and not cross:
                continue
            if bool(ref.get('kind:yield')) != bool(fp.get('kind:yield')):
                continue
            scored.append((similarity(ref, fp), m, q))
    scored.sort(reverse=True)
    for sc, m, q in scored:
        if m in out or q in taken or sc < MIN_SCORE:
            continue
        rivals = [s for s, m2, q2 in scored
                  if (m2 == m and q2 != q and q2 not in taken)
                  or (q2 == q and m2 != m and m2 not in out)]
        if rivals and max(rivals) > sc - MARGIN:
            continue
        out[m] = q
        taken.add(q)
    return out
