"""Path-sensitive value propagation over one function (no execution, no
solver): every acyclic path through the structured statements of a function
is walked with an environment mapping local names to the *expression* they
hold on that path (copy / tuple propagation by substitution).  A path records
the branch decisions taken, the statements passed in order, and for every
subscript / attribute store the substituted value stored.

Branches whose test is decided by the propagated shape alone (``x is None``
where x holds a tuple or None on this path, a test already taken on this
path) are followed one way only; everything else forks.  Loops are walked
once (their body is one more straight-line block; names bound in it are
opaque afterwards).  This is what makes "the value stored on the re-parent
path" a question about paths and not about where in the text the store
stands: merged branch tails, values carried through a tuple or a local
record are the same paths with the same values.
"""
import ast

from psa.model import src

MAX_PATHS = 6000
MAX_EXPR = 400


class TooManyPaths(Exception):
    pass


def _copy(n):
    if isinstance(n, ast.AST):
        new = n.__class__()
        for k in n._fields:
            if hasattr(n, k):
                setattr(new, k, _copy(getattr(n, k)))
        for k in ('lineno', 'col_offset', 'end_lineno', 'end_col_offset'):
            if hasattr(n, k):
                setattr(new, k, getattr(n, k))
        return new
    if isinstance(n, list):
        return [_copy(x) for x in n]
    return n


def _size(e):
    return sum(1 for _ in ast.walk(e))


class _Subst(ast.NodeTransformer):
    def __init__(self, env, bound=()):
        self.env = env
        self.bound = set(bound)

    def visit_Name(self, n):
        if isinstance(n.ctx, ast.Load) and n.id in self.env and \
                n.id not in self.bound and n.id != '<records>':
            v = self.env[n.id]
            if v is not None:
                return _copy(v)
        return n

    def _comp(self, n):
        # names bound by the comprehension shadow the environment
        names = set()
        for g in n.generators:
            for x in ast.walk(g.target):
                if isinstance(x, ast.Name):
                    names.add(x.id)
        old = self.bound
        self.bound = old | names
        self.generic_visit(n)
        self.bound = old
        return n

    visit_ListComp = visit_SetComp = visit_GeneratorExp = visit_DictComp = \
        _comp

    def visit_Lambda(self, n):
        return n


def subst(e, env):
    if e is None:
        return None
    out = _Subst(env).visit(_copy(e))
    # a[i] of a tuple / list display, d['k'] of a dict display, r.f of a
    # record construction
    out = _Proj(env.get('<records>') or {}).visit(out)
    return out


def _record_field(call, fields, name):
    """The argument a record construction binds to a field."""
    if any(isinstance(a, ast.Starred) for a in call.args) or any(
            k.arg is None for k in call.keywords):
        return None
    for k in call.keywords:
        if k.arg == name:
            return k.value
    if name in fields and fields.index(name) < len(call.args):
        return call.args[fields.index(name)]
    return None


class _Proj(ast.NodeTransformer):
    def __init__(self, records=None):
        self.records = records or {}

    def visit_Attribute(self, n):
        self.generic_visit(n)
        v = n.value
        if isinstance(v, ast.Call) and isinstance(v.func, ast.Name) and \
                v.func.id in self.records and isinstance(n.ctx, ast.Load):
            a = _record_field(v, self.records[v.func.id], n.attr)
            if a is not None:
                return a
        return n

    def visit_Subscript(self, n):
        self.generic_visit(n)
        if isinstance(n.slice, ast.Constant):
            k = n.slice.value
            v = n.value
            if isinstance(v, (ast.Tuple, ast.List)) and isinstance(k, int) \
                    and -len(v.elts) <= k < len(v.elts) and not any(
                        isinstance(x, ast.Starred) for x in v.elts):
                return v.elts[k]
            if isinstance(v, ast.Dict) and all(
                    isinstance(x, ast.Constant) for x in v.keys):
                for kk, vv in zip(v.keys, v.values):
                    if kk.value == k:
                        return vv
            if isinstance(v, ast.Call) and isinstance(v.func, ast.Name) \
                    and v.func.id in self.records and isinstance(k, int):
                fl = self.records[v.func.id]
                if 0 <= k < len(fl):
                    a = _record_field(v, fl, fl[k])
                    if a is not None:
                        return a
        return n


class Path(object):
    __slots__ = ('env', 'conds', 'stmts', 'stores', 'envs', 'end', 'loops',
                 'opaque')

    def __init__(self):
        self.env = {}
        self.conds = []      # (If/While node, polarity, substituted test)
        self.stmts = []      # statements passed, in order
        self.stores = []     # (stmt, target, substituted target, value)
        self.envs = {}       # id(stmt) -> env when it was reached (last)
        self.end = None      # None | 'raise' | 'return'
        self.loops = []      # (For node, substituted iter)
        self.opaque = 0

    def fork(self):
        p = Path()
        p.env = self.env
        p.conds = list(self.conds)
        p.stmts = list(self.stmts)
        p.stores = list(self.stores)
        p.envs = dict(self.envs)
        p.end = self.end
        p.loops = list(self.loops)
        p.opaque = self.opaque
        return p

    # ---- queries
    def passed(self, node):
        return any(s is node for s in self.stmts)

    def took(self, ifnode):
        """True / False: the branch taken at this if on this path; None when
        the path does not pass it."""
        for n, pol, _t in self.conds:
            if n is ifnode:
                return pol
        return None

    def value_at(self, stmt, expr):
        """expr as seen when stmt was reached on this path (None: stmt is
        not on the path)."""
        env = self.envs.get(id(stmt))
        if env is None:
            return None
        return subst(expr, env)

    def stored(self, pred):
        """Last (stmt, value) stored through a target accepted by pred."""
        out = None
        for st, tgt, stgt, val in self.stores:
            if pred(tgt, stgt):
                out = (st, val)
        return out

    def cond_srcs(self):
        return [(src(t), pol) for _n, pol, t in self.conds]


def _decide(test, path):
    """True / False when the substituted test is settled by shapes or by a
    decision already taken on this path, else None."""
    if isinstance(test, ast.Constant):
        return bool(test.value)
    if isinstance(test, ast.UnaryOp) and isinstance(test.op, ast.Not):
        d = _decide(test.operand, path)
        return None if d is None else (not d)
    if isinstance(test, ast.BoolOp):
        ds = [_decide(v, path) for v in test.values]
        if isinstance(test.op, ast.And):
            if any(d is False for d in ds):
                return False
            if all(d is True for d in ds):
                return True
        else:
            if any(d is True for d in ds):
                return True
            if all(d is False for d in ds):
                return False
        return None
    if isinstance(test, ast.Compare) and len(test.ops) == 1 and isinstance(
            test.ops[0], (ast.Is, ast.IsNot)):
        a, b = test.left, test.comparators[0]
        if isinstance(a, ast.Constant) and a.value is None:
            a, b = b, a
        if isinstance(b, ast.Constant) and b.value is None:
            isnone = None
            if isinstance(a, ast.Constant):
                isnone = a.value is None
            elif isinstance(a, (ast.Tuple, ast.List, ast.Dict, ast.Set,
                                ast.ListComp, ast.SetComp, ast.DictComp,
                                ast.JoinedStr, ast.Lambda)):
                isnone = False
            if isnone is None and isinstance(a, (ast.Name, ast.Attribute)):
                # a value the path has already dereferenced in a decision it
                # took (x[0] <= v, x.attr) is not None here
                t = src(a)
                for _n, _pol, prev in path.conds:
                    for x in ast.walk(prev):
                        if isinstance(x, (ast.Subscript, ast.Attribute)) \
                                and src(x.value) == t:
                            isnone = False
                            break
                    if isnone is False:
                        break
            if isnone is not None:
                return isnone if isinstance(test.ops[0], ast.Is) else \
                    not isnone
    if isinstance(test, (ast.Tuple, ast.List)):
        return bool(test.elts)
    if isinstance(test, ast.Dict):
        return bool(test.keys)
    # a decision already taken on this path over the same substituted test
    # (x is None / x is not None and the like are one test, two polarities)
    a, ap = _atom(test, True)
    t = src(a)
    for _n, pol, prev in path.conds:
        b, bp = _atom(prev, True)
        if src(b) == t:
            return pol if ap == bp else (not pol)
    return None


def _names_bound(stmts):
    out = set()
    for s in stmts:
        for n in ast.walk(s):
            if isinstance(n, ast.Name) and isinstance(n.ctx, ast.Store):
                out.add(n.id)
    return out


def _carried_names(stmts):
    out = set()
    if stmts and isinstance(stmts[-1], (ast.Break, ast.Return, ast.Raise)):
        return out
    for st in stmts:
        if isinstance(st, (ast.If, ast.For, ast.While, ast.With, ast.Try,
                           ast.AsyncFor, ast.AsyncWith)):
            for fld in ('body', 'orelse', 'finalbody'):
                out |= _carried_names(getattr(st, fld, None) or [])
            for h in getattr(st, 'handlers', None) or []:
                out |= _carried_names(h.body)
                if h.name:
                    out.add(h.name)
            for it in getattr(st, 'items', None) or []:
                if it.optional_vars is not None:
                    out |= {x.id for x in ast.walk(it.optional_vars)
                            if isinstance(x, ast.Name)}
            if isinstance(st, (ast.For, ast.AsyncFor)):
                out |= {x.id for x in ast.walk(st.target)
                        if isinstance(x, ast.Name)}
        elif isinstance(st, (ast.FunctionDef, ast.AsyncFunctionDef,
                             ast.ClassDef)):
            out.add(st.name)
        else:
            for n in ast.walk(st):
                if isinstance(n, ast.Name) and isinstance(
                        n.ctx, (ast.Store, ast.Del)):
                    out.add(n.id)
    return out


def _impure(e):
    """The expression has an effect that must not be duplicated silently by
    substitution (popping, next(): keep the name instead)."""
    for n in ast.walk(e):
        if isinstance(n, ast.Call) and isinstance(n.func, ast.Attribute) \
                and n.func.attr in ('pop', 'popitem', 'popleft'):
            return True
        if isinstance(n, ast.Call) and isinstance(n.func, ast.Name) and \
                n.func.id == 'next':
            return True
    return False


class Walker(object):
    def __init__(self, fnode, keep=None):
        """keep(value_node) -> True: a name bound to this value is not
        replaced by the value (it stands for that one evaluation)."""
        self.fnode = fnode
        self.done = []
        self.keep = keep
        self.exits = []
        self.trys = []       # per enclosing try: states at raising points

    def run(self, env=None):
        p = Path()
        if env:
            p.env = dict(env)
        live = self.block(self.fnode.body, [p])
        return self.done + live

    def _bind(self, p, name, value):
        env = dict(p.env)
        if value is not None and _size(value) > MAX_EXPR:
            value = None
        env[name] = value
        p.env = env

    def _assign(self, p, tgt, val, st):
        if isinstance(tgt, ast.Name):
            if val is not None and _impure(val):
                # keep the name: it stands for the one evaluation
                self._bind(p, tgt.id, None)
            else:
                self._bind(p, tgt.id, val)
        elif isinstance(tgt, (ast.Tuple, ast.List)):
            if isinstance(val, (ast.Tuple, ast.List)) and len(val.elts) == \
                    len(tgt.elts) and not any(isinstance(
                        x, ast.Starred) for x in list(val.elts) + list(
                            tgt.elts)):
                for t, v in zip(tgt.elts, val.elts):
                    self._assign(p, t, v, st)
            else:
                for i, t in enumerate(tgt.elts):
                    if isinstance(t, ast.Starred):
                        for x in ast.walk(t):
                            if isinstance(x, ast.Name):
                                self._bind(p, x.id, None)
                        continue
                    v = None
                    if val is not None and not _impure(val):
                        v = ast.Subscript(value=_copy(val),
                                          slice=ast.Constant(value=i),
                                          ctx=ast.Load())
                    self._assign(p, t, v, st)
        elif isinstance(tgt, (ast.Subscript, ast.Attribute)):
            p.stores.append((st, tgt, subst(tgt, p.env), val))

    def block(self, stmts, paths):
        for st in stmts:
            if not paths:
                break
            paths = self.stmt(st, paths)
            if len(paths) + len(self.done) > MAX_PATHS:
                raise TooManyPaths(getattr(self.fnode, 'name', '?'))
        return paths

    def _may_raise_here(self, st):
        if isinstance(st, (ast.If, ast.While)):
            probe = st.test
        elif isinstance(st, (ast.For, ast.AsyncFor)):
            probe = st.iter
        elif isinstance(st, (ast.With, ast.AsyncWith)):
            probe = ast.Tuple(elts=[i.context_expr for i in st.items],
                              ctx=ast.Load())
        elif isinstance(st, (ast.Try, ast.FunctionDef, ast.AsyncFunctionDef,
                             ast.ClassDef)):
            return False
        else:
            probe = st
        return isinstance(st, ast.Raise) or any(isinstance(
            n, (ast.Call, ast.Subscript, ast.Attribute, ast.BinOp))
            for n in ast.walk(probe))

    def stmt(self, st, paths):
        out = []
        if self.trys and self._may_raise_here(st):
            # the statement may raise: the state before it is a state in
            # which the handlers of the enclosing try can be entered
            for p in paths:
                self.trys[-1].append(p.fork())
        for p in paths:
            p.stmts.append(st)
            p.envs[id(st)] = p.env
        if isinstance(st, ast.Assign):
            for p in paths:
                val = subst(st.value, p.env)
                if self.keep is not None and self.keep(st.value):
                    val = None
                for t in st.targets:
                    self._assign(p, t, val, st)
            return paths
        if isinstance(st, ast.AnnAssign):
            for p in paths:
                if st.value is not None:
                    self._assign(p, st.target, subst(st.value, p.env), st)
            return paths
        if isinstance(st, ast.AugAssign):
            for p in paths:
                if isinstance(st.target, ast.Name):
                    cur = p.env.get(st.target.id)
                    left = _copy(cur) if cur is not None else ast.Name(
                        id=st.target.id, ctx=ast.Load())
                    self._bind(p, st.target.id, ast.BinOp(
                        left=left, op=st.op, right=subst(st.value, p.env)))
                else:
                    p.stores.append((st, st.target, subst(st.target, p.env),
                                     None))
            return paths
        if isinstance(st, ast.Return):
            for p in paths:
                p.end = 'return'
                self.done.append(p)
            return []
        if isinstance(st, ast.Raise):
            for p in paths:
                p.end = 'raise'
                self.done.append(p)
            return []
        if isinstance(st, ast.If):
            for p in paths:
                t = subst(st.test, p.env)
                d = _decide(t, p)
                if d is None:
                    q = p.fork()
                    p.conds.append((st, True, t))
                    q.conds.append((st, False, t))
                    out.extend(self.block(st.body, [p]))
                    out.extend(self.block(st.orelse, [q]))
                elif d:
                    p.conds.append((st, True, t))
                    out.extend(self.block(st.body, [p]))
                else:
                    p.conds.append((st, False, t))
                    out.extend(self.block(st.orelse, [p]))
            return out
        if isinstance(st, (ast.For, ast.AsyncFor, ast.While)):
            bound = _names_bound([st])
            # names that can carry a value from one iteration to the next:
            # bound on some way through the body that goes on iterating
            # (a store in a block that ends in break / return / raise is
            # seen only by the code after the loop, on that exit)
            carried = _carried_names(st.body)
            if isinstance(st, (ast.For, ast.AsyncFor)):
                carried |= {x.id for x in ast.walk(st.target)
                            if isinstance(x, ast.Name)}
            for p in paths:
                if isinstance(st, ast.While):
                    p.loops.append((st, subst(st.test, p.env)))
                else:
                    p.loops.append((st, subst(st.iter, p.env)))
                # body once, from the state "some iterations done": stores
                # and decisions are recorded on the path, raising /
                # returning side paths end
                env = dict(p.env)
                for nm in carried:
                    env[nm] = None
                p.env = env
                self.exits.append([])
                inner = self.block(st.body, [p])
                left = self.exits.pop()
                # normal end of the loop: every iteration went through
                for q in inner:
                    env = dict(q.env)
                    for nm in carried:
                        env[nm] = None
                    q.env = env
                inner = self.block(st.orelse, inner) if st.orelse else inner
                # break (and, approximately, continue): the state at the
                # exit is the state after the loop
                out.extend(inner)
                out.extend(left)
            return out
        if isinstance(st, (ast.With, ast.AsyncWith)):
            for p in paths:
                for it in st.items:
                    if it.optional_vars is not None:
                        for x in ast.walk(it.optional_vars):
                            if isinstance(x, ast.Name):
                                self._bind(p, x.id, None)
            return self.block(st.body, paths)
        if isinstance(st, ast.Try):
            for p in paths:
                self.trys.append([])
                body = self.block(st.body, [p])
                raised = self.trys.pop()
                # what raises inside the body may also leave this try: it
                # is a raising point of the enclosing one
                if self.trys and not any(
                        h.type is None or src(h.type) in (
                            'Exception', 'BaseException')
                        for h in st.handlers):
                    self.trys[-1].extend(q.fork() for q in raised)
                body = self.block(st.orelse, body) if st.orelse else body
                res = list(body)
                # drop states that cannot be told apart
                uniq, seen = [], set()
                for q in raised:
                    k = (id(q.env), len(q.conds), len(q.stores),
                         len(q.stmts))
                    if k not in seen:
                        seen.add(k)
                        uniq.append(q)
                for h in st.handlers:
                    for q0 in uniq:
                        q = q0.fork()
                        if h.name:
                            env = dict(q.env)
                            env[h.name] = None
                            q.env = env
                        q.stmts.append(h)
                        res.extend(self.block(h.body, [q]))
                if st.finalbody:
                    res = self.block(st.finalbody, res)
                out.extend(res)
                if len(out) + len(self.done) > MAX_PATHS:
                    raise TooManyPaths(getattr(self.fnode, 'name', '?'))
            return out
        if isinstance(st, (ast.FunctionDef, ast.AsyncFunctionDef,
                           ast.ClassDef)):
            for p in paths:
                self._bind(p, st.name, None)
            return paths
        if isinstance(st, (ast.Break, ast.Continue)):
            # the rest of the loop body is skipped on this path
            if self.exits:
                self.exits[-1].extend(paths)
                return []
            return paths
        if isinstance(st, ast.Expr) and isinstance(st.value, ast.Call) and \
                isinstance(st.value.func, ast.Attribute) and \
                st.value.func.attr == 'update':
            # d.update({...}) / d.update(k=v): stores under constant keys
            call = st.value
            for p in paths:
                pairs = []
                if len(call.args) == 1:
                    a = subst(call.args[0], p.env)
                    if isinstance(a, ast.Dict):
                        pairs = [(k.value, v) for k, v in zip(
                            a.keys, a.values) if isinstance(k, ast.Constant)]
                for kw in call.keywords:
                    if kw.arg:
                        pairs.append((kw.arg, subst(kw.value, p.env)))
                for k, v in pairs:
                    tgt = ast.Subscript(value=call.func.value,
                                        slice=ast.Constant(value=k),
                                        ctx=ast.Store())
                    p.stores.append((st, tgt, subst(tgt, p.env), v))
            return paths
        if isinstance(st, ast.Delete):
            for p in paths:
                for t in st.targets:
                    if isinstance(t, ast.Name):
                        self._bind(p, t.id, None)
            return paths
        # Expr, Assert, Pass, Import, Global ...
        return paths


_cache = {}


def _nt_fields(value):
    if not (isinstance(value, ast.Call) and src(value.func) in (
            'collections.namedtuple', 'namedtuple') and len(value.args) == 2):
        return None
    f = value.args[1]
    if isinstance(f, ast.Constant) and isinstance(f.value, str):
        return f.value.replace(',', ' ').split()
    if isinstance(f, (ast.List, ast.Tuple)) and all(
            isinstance(x, ast.Constant) and isinstance(x.value, str)
            for x in f.elts):
        return [x.value for x in f.elts]
    return None


def module_env(tree):
    """Record (namedtuple) classes of a module and the module-level names
    bound once to a construction of one of them."""
    records, env, count = {}, {}, {}
    for st in tree.body:
        if isinstance(st, ast.Assign):
            for t in st.targets:
                if isinstance(t, ast.Name):
                    count[t.id] = count.get(t.id, 0) + 1
    for st in tree.body:
        if isinstance(st, ast.Assign) and len(st.targets) == 1 and \
                isinstance(st.targets[0], ast.Name) and count[
                    st.targets[0].id] == 1:
            fl = _nt_fields(st.value)
            if fl:
                records[st.targets[0].id] = fl
    for st in tree.body:
        if isinstance(st, ast.Assign) and len(st.targets) == 1 and \
                isinstance(st.targets[0], ast.Name) and count[
                    st.targets[0].id] == 1 and isinstance(
                        st.value, ast.Call) and isinstance(
                            st.value.func, ast.Name) and \
                st.value.func.id in records:
            env[st.targets[0].id] = st.value
    env['<records>'] = records
    return env


def paths_of(f, keep=None):
    """All paths through a model function."""
    fn = f.node
    shadow = set()
    for n in ast.walk(fn):
        if isinstance(n, ast.Name) and isinstance(n.ctx, ast.Store):
            shadow.add(n.id)
        elif isinstance(n, ast.arg):
            shadow.add(n.arg)
    env = {k: v for k, v in module_env(f.module.tree).items()
           if k not in shadow}
    return Walker(fn, keep).run(env)


# ---------------------------------------------------------------- implication
_COMPL = {ast.IsNot: ast.Is, ast.NotIn: ast.In, ast.NotEq: ast.Eq}


def _atom(e, pol):
    if isinstance(e, ast.Compare) and len(e.ops) == 1 and type(
            e.ops[0]) in _COMPL:
        e2 = ast.Compare(left=e.left, ops=[_COMPL[type(e.ops[0])]()],
                         comparators=e.comparators)
        return (e2, not pol)
    return (e, pol)


def dnf(e, pol, limit=64):
    """Disjunctive normal form of a branch decision: a list of conjunctions,
    each a list of (atom, polarity); negative comparison operators are
    written as their positive twin with the polarity flipped."""
    if isinstance(e, ast.UnaryOp) and isinstance(e.op, ast.Not):
        return dnf(e.operand, not pol, limit)
    if isinstance(e, ast.BoolOp):
        parts = [dnf(v, pol, limit) for v in e.values]
        conj = isinstance(e.op, ast.And) == pol
        if not conj:
            out = []
            for p in parts:
                out.extend(p)
            return out[:limit * 4]
        out = [[]]
        for p in parts:
            out = [a + b for a in out for b in p]
            if len(out) > limit * 4:
                return [[(e, pol)]]
        return out
    return [[_atom(e, pol)]]


def holds(path, pred):
    """Some decision taken on the path guarantees that a literal accepted
    by pred(atom, polarity) is true (whichever disjunct was the reason)."""
    for _n, pol, t in path.conds:
        d = dnf(t, pol)
        if d and all(any(pred(a, ap) for a, ap in c) for c in d):
            return True
    return False
