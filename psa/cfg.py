"""Statement-level control-flow graphs, dominators and must-pass queries.

Nodes are ``ast.stmt`` objects of one function body plus three synthetic
nodes ENTRY, EXIT (normal return) and RAISE (exceptional exit).  Compound
statements are represented by their header (``If`` = evaluation of the test,
``For``/``While`` = loop header, ``With`` = context entry, ``Try`` = no-op).
Nested function/class definitions are opaque simple statements.

Exceptional edges: every statement whose header contains a call (or that is a
``raise``/``assert``) may transfer control to the handlers of the enclosing
``try`` statements (innermost first, stopping at the first catch-all) and, if
no catch-all intervenes, to RAISE.  ``with excutils.save_and_reraise_
exception():`` bodies end in a re-raise.
"""
import ast

ENTRY = 'ENTRY'
EXIT = 'EXIT'
RAISE = 'RAISE'

_CATCH_ALL = {'Exception', 'BaseException'}


def _header_exprs(st):
    """Expressions evaluated by the statement's own CFG node."""
    if isinstance(st, (ast.If, ast.While)):
        return [st.test]
    if isinstance(st, ast.For):
        return [st.iter]
    if isinstance(st, ast.With):
        return [i.context_expr for i in st.items]
    if isinstance(st, ast.Try):
        return []
    if isinstance(st, (ast.FunctionDef, ast.AsyncFunctionDef)):
        return list(st.decorator_list)
    if isinstance(st, ast.ClassDef):
        return []
    return [st]


def header_nodes(st):
    """All AST nodes belonging to the statement's own CFG node."""
    out = []
    for e in _header_exprs(st):
        stack = [e]
        while stack:
            n = stack.pop()
            out.append(n)
            if isinstance(n, (ast.Lambda,)):
                continue
            if n is not e and isinstance(n, (ast.FunctionDef,
                                             ast.AsyncFunctionDef,
                                             ast.ClassDef)):
                continue
            stack.extend(ast.iter_child_nodes(n))
    return out


def may_raise_stmt(st):
    if isinstance(st, (ast.Raise, ast.Assert)):
        return True
    for n in header_nodes(st):
        if isinstance(n, (ast.Call, ast.Subscript)):
            return True
        if isinstance(n, ast.Attribute) and isinstance(n.ctx, ast.Load):
            # property access (e.g. Inventory.capacity) may raise; plain
            # attribute reads are treated as non-raising except on a small
            # set handled by the rules themselves.
            continue
    return False


def is_reraise_with(st):
    if not isinstance(st, ast.With):
        return False
    for it in st.items:
        e = it.context_expr
        if isinstance(e, ast.Call):
            f = e.func
            name = f.attr if isinstance(f, ast.Attribute) else getattr(
                f, 'id', '')
            if name == 'save_and_reraise_exception':
                # reraise=False, or "<ctx>.reraise = False" in the body,
                # turns the idiom into a swallow
                for k in e.keywords:
                    if k.arg == 'reraise' and not (isinstance(
                            k.value, ast.Constant) and k.value.value is
                            True):
                        return False
                for n in ast.walk(st):
                    if isinstance(n, ast.Attribute) and isinstance(
                            n.ctx, ast.Store) and n.attr == 'reraise':
                        return False
                return True
    return False


def handler_is_catch_all(h):
    if h.type is None:
        return True
    t = h.type
    names = []
    if isinstance(t, ast.Tuple):
        names = [getattr(x, 'attr', getattr(x, 'id', '')) for x in t.elts]
    else:
        names = [getattr(t, 'attr', getattr(t, 'id', ''))]
    return any(n in _CATCH_ALL for n in names)


class CFG(object):
    def __init__(self, fnode):
        self.fnode = fnode
        self.succ = {ENTRY: set(), EXIT: set(), RAISE: set()}
        self.pred = {ENTRY: set(), EXIT: set(), RAISE: set()}
        self.exc_edges = set()      # (a, b) edges that are exceptional
        self.stmts = []
        self._handler_of = {}       # first stmt of handler body -> handler
        self._build()
        self._dom = None
        self._pdom = None

    # -- construction ----------------------------------------------------
    def _node(self, st):
        if st not in self.succ:
            self.succ[st] = set()
            self.pred[st] = set()
            self.stmts.append(st)

    def _edge(self, a, b, exc=False):
        self._node(a) if a not in self.succ else None
        self._node(b) if b not in self.succ else None
        self.succ[a].add(b)
        self.pred[b].add(a)
        if exc:
            self.exc_edges.add((a, b))

    def _build(self):
        # ctx: handlers = list (innermost first) of lists of (handler, entry)
        ctx = {'handlers': [], 'loop': None, 'finally': []}
        first = self._seq(self.fnode.body, [EXIT], ctx)
        for f in first:
            self._edge(ENTRY, f)

    def _exc_targets(self, ctx):
        """Where an exception raised in this context may go."""
        targets = []
        for level in ctx['handlers']:
            stop = False
            for h, entry in level:
                targets.extend(entry)
                if handler_is_catch_all(h):
                    stop = True
                    break
            if stop:
                return targets
        targets.append(RAISE)
        return targets

    def _seq(self, stmts, follow, ctx):
        """Wire a statement list; return entry nodes of the list.

        ``follow`` = nodes control reaches after the list completes.
        """
        if not stmts:
            return list(follow)
        nxt = list(follow)
        for st in reversed(stmts):
            nxt = self._stmt(st, nxt, ctx)
        return nxt

    def _stmt(self, st, follow, ctx):
        self._node(st)
        if may_raise_stmt(st):
            for t in self._exc_targets(ctx):
                self._edge(st, t, exc=True)
        if isinstance(st, ast.If):
            b = self._seq(st.body, follow, ctx)
            o = self._seq(st.orelse, follow, ctx)
            for x in b + o:
                self._edge(st, x)
        elif isinstance(st, (ast.For, ast.While)):
            lctx = dict(ctx)
            lctx['loop'] = (st, follow)
            # orelse runs when the loop finishes without break
            o = self._seq(st.orelse, follow, ctx)
            b = self._seq(st.body, [st], lctx)
            for x in b:
                self._edge(st, x)
            infinite = isinstance(st, ast.While) and isinstance(
                st.test, ast.Constant) and st.test.value is True
            if not infinite:
                for x in o:
                    self._edge(st, x)
        elif isinstance(st, ast.With):
            if is_reraise_with(st):
                tg = self._exc_targets(ctx)
                b = self._seq(st.body, tg, ctx)
                # leaving the block re-raises: those edges are exceptional
                # (also when an enclosing try catches the re-raised error)
                for sub in st.body:
                    for a in ast.walk(sub):
                        if isinstance(a, ast.stmt) and a in self.succ:
                            for t in tg:
                                if t in self.succ[a]:
                                    self.exc_edges.add((a, t))
            else:
                b = self._seq(st.body, follow, ctx)
            for x in b:
                self._edge(st, x)
        elif isinstance(st, ast.Try):
            fin = st.finalbody
            after = follow
            if fin:
                # finally: reached from normal and exceptional completion;
                # continues to follow and to the outer exceptional targets.
                fin_follow = list(follow) + self._exc_targets(ctx)
                after = self._seq(fin, fin_follow, ctx)
            hentries = []
            for h in st.handlers:
                hb = self._seq(h.body, after, ctx)
                hentries.append((h, hb))
                if h.body:
                    self._handler_of[h.body[0]] = h
            bctx = dict(ctx)
            level = list(hentries)
            if fin:
                # exceptions not caught by a handler run the finally block
                class _H(object):
                    type = None
                level.append((_H, after))
            bctx['handlers'] = [level] + ctx['handlers']
            o = self._seq(st.orelse, after, ctx) if st.orelse else after
            b = self._seq(st.body, o, bctx)
            for x in b:
                self._edge(st, x)
        elif isinstance(st, ast.Return):
            tgt = [EXIT]
            for x in tgt:
                self._edge(st, x)
        elif isinstance(st, ast.Raise):
            pass  # exceptional edges already added
        elif isinstance(st, ast.Break):
            if ctx['loop']:
                for x in ctx['loop'][1]:
                    self._edge(st, x)
        elif isinstance(st, ast.Continue):
            if ctx['loop']:
                self._edge(st, ctx['loop'][0])
        else:
            for x in follow:
                self._edge(st, x)
        return [st]

    # -- queries -----------------------------------------------------------
    def nodes(self):
        return [ENTRY] + self.stmts + [EXIT, RAISE]

    def reachable_from(self, srcs, removed=(), normal_only=False):
        srcs = [_real(x) for x in srcs]
        removed = set(_real(x) for x in removed)
        seen = set()
        stack = [s for s in srcs if s not in removed]
        while stack:
            n = stack.pop()
            if n in seen:
                continue
            seen.add(n)
            for s in self.succ.get(n, ()):
                if s in removed or s in seen:
                    continue
                if normal_only and (n, s) in self.exc_edges:
                    continue
                stack.append(s)
        return seen

    def must_pass(self, src, dst, via, normal_only=False):
        """True iff every path src -> dst passes a node in ``via``.

        ``src`` itself is not counted as passing (unless it is in via and
        equals the start, in which case the answer is trivially True).
        """
        via = set(_real(x) for x in via)
        src, dst = _real(src), _real(dst)
        if src in via:
            return True
        start = [s for s in self.succ.get(src, ())
                 if not (normal_only and (src, s) in self.exc_edges)]
        seen = self.reachable_from(start, removed=via,
                                   normal_only=normal_only)
        return dst not in seen

    def dominators(self):
        if self._dom is not None:
            return self._dom
        nodes = [n for n in self.nodes()
                 if n in self.reachable_from([ENTRY])]
        allset = set(nodes)
        dom = {n: set(allset) for n in nodes}
        dom[ENTRY] = {ENTRY}
        changed = True
        order = nodes
        while changed:
            changed = False
            for n in order:
                if n == ENTRY:
                    continue
                preds = [p for p in self.pred[n] if p in dom]
                if not preds:
                    new = {n}
                else:
                    new = set.intersection(*[dom[p] for p in preds]) | {n}
                if new != dom[n]:
                    dom[n] = new
                    changed = True
        self._dom = dom
        return dom

    def dominates(self, a, b):
        """Every path ENTRY -> b passes a (a != b allowed)."""
        a, b = _real(a), _real(b)
        dom = self.dominators()
        if b not in dom:
            return True   # b unreachable
        return a in dom[b]

    def enumerate_paths(self, src, dst, limit=100000, normal_only=False):
        """Acyclic paths src -> dst (each loop header at most once)."""
        out = []
        path = [src]
        onpath = {src}

        def rec(n):
            if len(out) >= limit:
                return
            if n == dst:
                out.append(list(path))
                return
            for s in sorted(self.succ.get(n, ()), key=_order_key):
                if s in onpath:
                    continue
                if normal_only and (n, s) in self.exc_edges:
                    continue
                path.append(s)
                onpath.add(s)
                rec(s)
                onpath.discard(s)
                path.pop()
        rec(src)
        return out

    def must_pass_enum(self, src, dst, via, normal_only=False, limit=100000):
        via = set(via)
        if src in via:
            return True
        for p in self.enumerate_paths(src, dst, limit=limit,
                                      normal_only=normal_only):
            if not any(n in via for n in p[1:]):
                return False
        return True


def _real(n):
    """Rules may hold the positive view of a negated if/else
    (rules.common._NegIf); the graph knows the statement itself."""
    return getattr(n, 'node', n) if type(n).__name__ == '_NegIf' else n


def _order_key(n):
    if isinstance(n, str):
        return (10 ** 9, n)
    return (getattr(n, 'lineno', 0), getattr(n, 'col_offset', 0))


_CFG_CACHE = {}


def cfg_of(func):
    c = getattr(func, '_cfg', None)
    if c is None:
        c = CFG(func.node)
        func._cfg = c
    return c


def stmt_containing(func, node):
    """The CFG statement node whose header contains ``node``."""
    from psa.model import enclosing_stmt
    st = enclosing_stmt(node)
    while st is not None:
        if node in header_nodes(st) or st is node:
            return st
        # node is inside a compound statement's body: the innermost
        # enclosing statement is the right one already
        return st
    return None
